#!/bin/bash
# Validation helper (not used by any registered check): temporarily change /repo's working tree,
# run a command, and restore the tree.
#   tools/with_change.sh revert <commit>   -- <command...>    (reverse-apply one fix commit)
#   tools/with_change.sh patch  <file>     -- <command...>    (apply a seeded change)
#   tools/with_change.sh pinned            -- <command...>    (sources of the original snapshot)
set -u
mode="$1"; shift
arg=""
if [ "$mode" != "pinned" ]; then arg="$1"; shift; fi
[ "$1" = "--" ] && shift
if [ -n "$(git -C /repo status --porcelain)" ]; then echo "with_change: /repo is not clean"; exit 9; fi
restore() { git -C /repo revert --abort 2>/dev/null; git -C /repo reset -q --hard HEAD; git -C /repo clean -fdq -- src 2>/dev/null; }
trap restore EXIT
case "$mode" in
  revert) if ! git -C /repo show "$arg" | git -C /repo apply -R 2>/dev/null; then
            if [ -f "/verif/seeded/reverts/$arg.patch" ]; then git -C /repo apply "/verif/seeded/reverts/$arg.patch" || { echo "with_change: stored revert patch for $arg does not apply"; exit 9; }
            else git -C /repo revert --no-commit "$arg" >/dev/null 2>&1 || { echo "with_change: cannot revert $arg (conflict); store a hand-made patch in /verif/seeded/reverts/$arg.patch"; exit 9; }; fi
          fi ;;
  patch)  git -C /repo apply "$arg" || { echo "with_change: cannot apply $arg"; exit 9; } ;;
  pinned) git -C /repo checkout -q 5897763 -- src build.rs codata.txt && git -C /repo reset -q ;;
  *) echo "bad mode"; exit 9 ;;
esac
"$@"
rc=$?
exit $rc
