#!/usr/bin/env python3
"""Regenerates the seeded-change table of DESIGN.md §9.3 from /verif/seeded/*/meta.json."""
import json, glob, os, re
rows = []
for m in sorted(glob.glob("/verif/seeded/*/meta.json")):
    j = json.load(open(m))
    rows.append(f"| {j['id']} | {j['property']} | {j['needs_to_manifest']} | {j['detected_by']} |")
table = "| id | property | the change and what it needs to manifest | detected by |\n|---|---|---|---|\n" + "\n".join(rows)
p = "/verif/DESIGN.md"
s = open(p).read()
begin, end = "<!-- SEEDED-TABLE-BEGIN -->", "<!-- SEEDED-TABLE-END -->"
block = f"{begin}\n{table}\n{end}"
if "SEEDED_TABLE_PLACEHOLDER" in s:
    s = s.replace("SEEDED_TABLE_PLACEHOLDER", block)
else:
    s = re.sub(re.escape(begin) + r".*?" + re.escape(end), lambda m: block, s, flags=re.S)
open(p, "w").write(s)
print(len(rows), "seeded changes in table")
