#!/bin/bash
# Validation helper: for each fix commit given, reverse it alone in /repo's working tree, run the
# given check (quick), restore. Prints one line per commit.
#   tools/revert_matrix.sh C03 6edd030 25e9f84 ...
chk="$1"; shift
tier="${TIER:-quick}"
for c in "$@"; do
  out=$(/verif/tools/with_change.sh revert "$c" -- /verif/check "$chk" "$tier" 2>&1)
  rc=$?
  sigs=$(echo "$out" | grep -oE "^\s+\[[^]]+\]" | sort | uniq -c | sort -rn | head -4 | tr '\n' ';')
  summ=$(echo "$out" | grep -E "^SUMMARY" | sed -E 's/.*(verdict=[a-z-]+).*(violations=[0-9]+).*/\1 \2/')
  echo "$c $(git -C /repo log -1 --format=%s "$c" | cut -c1-60) => rc=$rc $summ $sigs"
done
