#!/usr/bin/env python3
"""Validation helper (not used by any registered check): run checks against many changed copies
of the repository in parallel. Each worker owns a slot /tmp/bv_slot_<k> with its own git
worktree of /repo and its own cargo target dir; a job applies one change to the slot's worktree,
runs the listed checks through ./check with VERIF_REPO pointing at it, and restores the worktree.

  tools/par_mutants.py [-j N] [--tier quick|thorough] JOBFILE
JOBFILE lines:   <label> patch:<file>|revert:<commit> <check id> [<check id> ...]
Output: one line per (job, check):  label check rc verdict violations top-signatures
"""
import sys, os, subprocess, threading, queue, re, shutil

def sh(cmd, **kw):
    return subprocess.run(cmd, shell=True, stdout=subprocess.PIPE, stderr=subprocess.STDOUT, text=True, **kw)

def worker(k, q, tier, out_lock):
    slot = f"/tmp/bv_slot_{k}"
    wt = f"{slot}/repo"
    if not os.path.isdir(wt):
        os.makedirs(slot, exist_ok=True)
        r = sh(f"git -C /repo worktree add -q --detach {wt} HEAD")
        if r.returncode != 0:
            print(f"slot {k}: cannot create worktree: {r.stdout}")
            return
    else:
        # (a job killed half-way leaves its change applied: clean first, or the checkout is refused)
        sh(f"git -C {wt} reset -q --hard; git -C {wt} clean -fdq; git -C {wt} checkout -q --detach $(git -C /repo rev-parse HEAD) && git -C {wt} reset -q --hard && git -C {wt} clean -fdq")
        r = sh(f"git -C {wt} rev-parse HEAD; git -C /repo rev-parse HEAD")
        if len(set(r.stdout.split())) != 1:
            print(f"slot {k}: worktree is not at /repo's HEAD: {r.stdout}")
            return
    env = dict(os.environ, VERIF_REPO=wt, VERIF_TARGET_DIR=f"{slot}/target", VERIF_OUT=f"{slot}/out", VERIF_HARNESS_SRC=SNAP)
    while True:
        try:
            job = q.get_nowait()
        except queue.Empty:
            return
        label, change, checks = job
        sh(f"git -C {wt} reset -q --hard && git -C {wt} clean -fdq")
        kind, arg = change.split(":", 1)
        if kind == "patch":
            r = sh(f"git -C {wt} apply {arg}")
        elif kind == "revert":
            import glob
            cands = [f for f in glob.glob("/verif/seeded/reverts/*.patch") if arg.startswith(os.path.basename(f)[:-6])]
            stored = cands[0] if cands else "/nonexistent"
            r = sh(f"git -C /repo show {arg} | git -C {wt} apply -R")
            if r.returncode != 0 and os.path.exists(stored):
                r = sh(f"git -C {wt} apply {stored}")
        elif kind == "none":
            r = sh("true")
        else:
            r = sh("false")
        if r.returncode != 0:
            with out_lock:
                print(f"{label} - cannot apply {change}: {r.stdout.strip()[:200]}", flush=True)
            continue
        for c in checks:
            r = sh(f"/verif/check {c} {tier}", env=env)
            summ = re.search(r"verdict=([a-z-]+).*? violations=(\d+)", r.stdout)
            sigs = {}
            for m in re.finditer(r"^\s+\[([^\]]+)\]", r.stdout, re.M):
                sigs[m.group(1)] = sigs.get(m.group(1), 0) + 1
            top = ";".join(f"{s}x{n}" for s, n in sorted(sigs.items(), key=lambda x: -x[1])[:3])
            extra = ""
            if not summ:
                extra = " | " + r.stdout.strip().splitlines()[-1][:160] if r.stdout.strip() else ""
            with out_lock:
                print(f"{label} {c} rc={r.returncode} {summ.group(1) if summ else '?'} violations={summ.group(2) if summ else '?'} {top}{extra}", flush=True)
        sh(f"git -C {wt} reset -q --hard && git -C {wt} clean -fdq")

SNAP = "/verif/harness/src"

def main():
    global SNAP
    # frozen copy of the harness sources for this run
    SNAP = f"/tmp/bv_src_snap_{os.getpid()}"
    shutil.rmtree(SNAP, ignore_errors=True)
    shutil.copytree("/verif/harness/src", SNAP)
    args = sys.argv[1:]
    n = 6
    tier = "quick"
    while args and args[0].startswith("-"):
        if args[0] == "-j":
            n = int(args[1]); args = args[2:]
        elif args[0] == "--tier":
            tier = args[1]; args = args[2:]
        else:
            print(__doc__); sys.exit(2)
    q = queue.Queue()
    for line in open(args[0]):
        line = line.strip()
        if not line or line.startswith("#"):
            continue
        parts = line.split()
        q.put((parts[0], parts[1], parts[2:]))
    lock = threading.Lock()
    ths = [threading.Thread(target=worker, args=(k, q, tier, lock)) for k in range(n)]
    for t in ths: t.start()
    for t in ths: t.join()
    shutil.rmtree(SNAP, ignore_errors=True)

main()
