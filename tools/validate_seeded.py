#!/usr/bin/env python3
"""Validation helper: confirm that a seeded change (dir with patch.diff and demo.rs|demo_test.rs)
(a) applies to a pristine checkout of /repo HEAD, (b) keeps the repository's own test suite green,
(c) makes its demonstration fail, and (d) the demonstration passes without the change.
  tools/validate_seeded.py [-j N] DIR [DIR ...]
Prints one line per DIR:  DIR applies=.. suite=<passed/failed counts> demo_with=FAIL|pass demo_without=PASS|fail
"""
import sys, os, subprocess, threading, queue, re, glob

def sh(cmd, **kw):
    return subprocess.run(cmd, shell=True, stdout=subprocess.PIPE, stderr=subprocess.STDOUT, text=True, **kw)

def worker(k, q, lock):
    slot = f"/tmp/bv_vslot_{k}"
    wt = f"{slot}/repo"
    os.makedirs(slot, exist_ok=True)
    if not os.path.isdir(wt):
        sh(f"git -C /repo worktree add -q --detach {wt} HEAD")
    else:
        sh(f"git -C {wt} checkout -q --detach $(git -C /repo rev-parse HEAD)")
    env = dict(os.environ, CARGO_NET_OFFLINE="true", CARGO_TARGET_DIR=f"{slot}/target")
    while True:
        try:
            d = q.get_nowait()
        except queue.Empty:
            return
        sh(f"git -C {wt} reset -q --hard && git -C {wt} clean -fdq")
        demo = None
        for cand in ("demo.rs", "demo_test.rs"):
            if os.path.exists(os.path.join(d, cand)):
                demo = os.path.join(d, cand)
        name = "seeded_demo"
        res = {"applies": "no", "suite": "?", "demo_with": "?", "demo_without": "?"}
        def run_demo():
            os.makedirs(f"{wt}/tests", exist_ok=True)
            sh(f"cp {demo} {wt}/tests/{name}.rs")
            r = sh(f"cd {wt} && cargo test --offline --test {name} 2>&1", env=env)
            ok = r.returncode == 0 and re.search(r"test result: ok", r.stdout) is not None
            compiled = "error[" not in r.stdout and "could not compile" not in r.stdout
            os.remove(f"{wt}/tests/{name}.rs")
            return ok, compiled, r.stdout
        if demo:
            ok, compiled, out = run_demo()
            res["demo_without"] = "PASS" if ok else ("compile-error" if not compiled else "fail")
        r = sh(f"git -C {wt} apply {d}/patch.diff")
        if r.returncode == 0:
            res["applies"] = "yes"
            r = sh(f"cd {wt} && cargo test --offline --no-fail-fast 2>&1", env=env)
            counts = re.findall(r"test result: (\w+)\. (\d+) passed; (\d+) failed", r.stdout)
            res["suite"] = "+".join(f"{p}p/{f}f" for _, p, f in counts) if counts else "build-error"
            if demo:
                ok, compiled, out = run_demo()
                res["demo_with"] = "pass" if ok else ("compile-error" if not compiled else "FAIL")
        sh(f"git -C {wt} reset -q --hard && git -C {wt} clean -fdq")
        with lock:
            print(f"{d} applies={res['applies']} suite={res['suite']} demo_with={res['demo_with']} demo_without={res['demo_without']}", flush=True)

def main():
    args = sys.argv[1:]
    n = 4
    if args and args[0] == "-j":
        n = int(args[1]); args = args[2:]
    q = queue.Queue()
    for d in args:
        q.put(d.rstrip("/"))
    lock = threading.Lock()
    ths = [threading.Thread(target=worker, args=(k, q, lock)) for k in range(min(n, len(args)))]
    for t in ths: t.start()
    for t in ths: t.join()

main()
