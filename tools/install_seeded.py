#!/usr/bin/env python3
"""Copy a validated seeded change into /verif/seeded/<id>/ and write its meta.json.
  tools/install_seeded.py <src_dir> <id> <property> <needs> <validated> <detected_by> [<notes>]
"""
import sys, os, shutil, json, subprocess
src, sid, prop, needs, validated, detected = sys.argv[1:7]
notes = sys.argv[7] if len(sys.argv) > 7 else ""
dst = f"/verif/seeded/{sid}"
os.makedirs(dst, exist_ok=True)
for f in ("patch.diff", "demo.rs", "demo_test.rs", "README.md"):
    if os.path.exists(os.path.join(src, f)):
        shutil.copy(os.path.join(src, f), os.path.join(dst, f))
head = subprocess.check_output(["git", "-C", "/repo", "rev-parse", "--short=12", "HEAD"]).decode().strip()
meta = {
    "id": sid,
    "property": prop,
    "origin": "written by an independent sub-agent that saw only the property text and a scratch worktree of /repo (nothing from /verif)",
    "needs_to_manifest": needs,
    "validated": validated,
    "validated_against_repo_head": head,
    "detected_by": detected,
}
if notes:
    meta["notes"] = notes
json.dump(meta, open(os.path.join(dst, "meta.json"), "w"), indent=1)
print("installed", dst)
