#!/usr/bin/env python3
"""Regenerates /verif/MANIFEST.json from the table below (kept next to the checks so the
manifest cannot drift from what is built). Usage: tools/gen_manifest.py"""
import json, subprocess, os

BUILT = {
 # id: (level category, technique, level text, level note, design ref)
 "C01": ("exploration",
         "trace-invariant monitor over recorded solver item sequences (instrumented derivative closure, seeded + boundary-sweep workloads)",
         "Every item of every generated solve is checked against exact ordering/interval/gap/dimension/finiteness invariants and the exact end-time rule; the workload covers 7 solvers, static and dynamic dimension, rejected steps, restarts and the complete start-up boundary sweep. Held on the executions observed, not a proof.",
         "Trusts the harness's driver (ivpdrv.rs) to record items faithfully; gap bound allows rounding of t+dt (4 eps |t|).",
         "DESIGN.md §4 C01"),
 "C03": ("exploration",
         "reference-model monitor: every consecutive pair of yielded points is re-derived with literature formulas (Fehlberg 4(5), Bogacki-Shampine 3(2), RK4, AB/AM, BDF) using the observed step length; first-trial accept/reject decision checked against the published estimate",
         "Every point of every generated path (millions in the thorough tier) must be reproduced by the published one-step scheme to rounding, or satisfy the Adams PEC / BDF implicit formula over its equally spaced history within analytically derived slack, with the accepted estimate within tolerance. Exploration over seeded generic non-linear problems; held on the executions observed.",
         "Reference formulas are transcribed from the literature in harness/src/refmodel/schemes.rs; Adams slack covers the PEC/PECE difference (30+50 L h units of L h^2 tol); BDF residual bound (1+beta h L) tol with constant 1.",
         "DESIGN.md §4 C03"),
}

PENDING_REASON = "check not built yet in this commit (runtime monitor designed in DESIGN.md §4; will be claimed when its harness module lands)"

def main():
    here = os.path.dirname(os.path.dirname(os.path.abspath(__file__)))
    props = [json.loads(l) for l in open(os.path.join(here, "properties.jsonl"))]
    checks, na = [], []
    for p in props:
        pid = p["id"]
        if pid in BUILT:
            cat, tech, text, note, ref = BUILT[pid]
            checks.append({
                "property_id": pid,
                "quick_cmd": f"./check {pid} quick",
                "thorough_cmd": f"./check {pid} thorough",
                "evidence_file": f"/verif/evidence/{pid}.json",
                "replay_cmd_template": "./check --replay {path}",
                "engine": "bacon-verif",
                "level_claimed": {"category": cat, "text": text, "design_ref": ref},
                "level_note": note,
                "technique": tech,
            })
        else:
            na.append({"property_id": pid, "reason": PENDING_REASON})
    man = {
        "version": 1,
        "setup_cmd": "./check --build-only",
        "hooks": {
            "guard": "bacon_verif",
            "enable": "none needed: every property is observed at the public API through instrumented caller-supplied closures; the cfg name bacon_verif (RUSTFLAGS=--cfg bacon_verif) is reserved and unused",
            "baseline_off_cmd": "cd /repo && cargo test --workspace --no-fail-fast --offline",
            "source_commits": [],
            "add_only": True,
        },
        "engines": [{
            "name": "bacon-verif",
            "path": "/verif/harness",
            "serves_properties": sorted(BUILT.keys()),
            "kind_free_text": "Rust harness linked against /repo's working tree (path dependency, rebuilt by ./check on every invocation): instrumented closures record call logs and enforce evaluation budgets; monitors check trace invariants, reference models and closed-form ground truth over seeded, structured and exhaustive workloads; panics, integer overflow and debug assertions are on and caught",
        }],
        "checks": checks,
        "not_applicable": na,
        "notes": "Runtime monitoring only. Exit codes of ./check: 0 held on everything observed; 1 violation (VIOLATION line + replay file); 2 inconclusive (observation thresholds not met / watchdog); 3 harness or build error. Known findings: /verif/known_findings.json (read-only at run time).",
    }
    if not na:
        del man["not_applicable"]
    json.dump(man, open(os.path.join(here, "MANIFEST.json"), "w"), indent=1)
    print("checks:", len(checks), "not_applicable:", len(na))

main()
