#!/usr/bin/env python3
"""Regenerates /verif/MANIFEST.json from the table below (kept next to the checks so the
manifest cannot drift from what is built). Usage: tools/gen_manifest.py"""
import json, subprocess, os

BUILT = {
 # id: (level category, technique, level text, level note, design ref)
 "C01": ("exploration",
         "trace-invariant monitor over recorded solver item sequences (instrumented derivative closure, seeded + boundary-sweep workloads)",
         "Every item of every generated solve is checked against exact ordering/interval/gap/dimension/finiteness invariants and the exact end-time rule; the workload covers 7 solvers, static and dynamic dimension, rejected steps, restarts and the complete start-up boundary sweep. Held on the executions observed, not a proof.",
         "Trusts the harness's driver (ivpdrv.rs) to record items faithfully; gap bound allows rounding of t+dt (4 eps |t|).",
         "DESIGN.md §4 C01"),
 "C03": ("exploration",
         "reference-model monitor: every consecutive pair of yielded points is re-derived with literature formulas (Fehlberg 4(5), Bogacki-Shampine 3(2), RK4, AB/AM, BDF) using the observed step length; first-trial accept/reject decision checked against the published estimate",
         "Every point of every generated path (millions in the thorough tier) must be reproduced by the published one-step scheme to rounding, or satisfy the Adams PEC / BDF implicit formula over its equally spaced history within analytically derived slack, with the accepted estimate within tolerance. Exploration over seeded generic non-linear problems; held on the executions observed.",
         "Reference formulas are transcribed from the literature in harness/src/refmodel/schemes.rs; Adams slack covers the PEC/PECE difference (30+50 L h units of L h^2 tol); BDF residual bound (1+beta h L) tol with constant 1.",
         "DESIGN.md §4 C03"),
 "C02": ("exploration",
         "ground-truth monitor: every accepted step compared with a Richardson-extrapolated RK4 reference flow restarted at the previous yielded point",
         "Every consecutive pair of points of every generated path of the six adaptive solvers is judged against an independent high-accuracy flow of the same ODE (local error <= K_s tol h, K_s tol for BDF), with dt_max placed by the property's rule. Steps whose reference cannot certify 1e-13 are counted inconclusive. Held on the executions observed.",
         "Constants K_s are calibrated (>= 6x the maximum seen over 90 000 solves) on the dissipative G-ivp family with O(1) forcing; the reference flow is trusted to its own Richardson estimate.",
         "DESIGN.md §4 C02"),
 "C05": ("exploration",
         "work-accounting monitor: the derivative closure counts its own invocations and enforces a hard budget; outcome, end time, point count and calls-per-point bounded",
         "Every generated solve must finish without Err, without exhausting a hard evaluation budget (20x the order-appropriate total) and within two calibrated factors: points <= G_s (T L tol^(-1/p) + T/dt_max) and calls <= kappa_s (points + 10); a dedicated BDF-tight stratum exposes implicit-solve failures. Exploration; held on the executions observed.",
         "G_s, kappa_s calibrated on 608 000 solves (>= 2x..10x observed maxima); L is the generator's Lipschitz/time-scale bound.",
         "DESIGN.md §4 C05"),
 "C10": ("exploration",
         "exhaustive run-time audit of the compiled quadrature tables (orthogonal-polynomial zeros, Christoffel numbers, discrete orthonormality, closed-form moments, double-exponential formula) cross-checked end-to-end against the integrators' call logs and returned values",
         "Every row and entry of the five Gaussian tables and the tanh-sinh table of the working tree is audited on every run (exhaustive, 5416 stored entries / 192 pairs), and tied to what the compiled library consumes by walking each integrator with a never-converging integrand and by scripted consumption runs.",
         "Resolution limited by the accuracy of the shipped rows: relative perturbations below 2e-13 (Legendre) / 2e-11 (Hermite, Laguerre nodes) / 1e-9 (Hermite, Laguerre weights) are not flagged.",
         "DESIGN.md §4 C10"),
 "C19": ("exploration",
         "reference-value monitor: returned finite differences against exact derivatives plus the predicted leading error term of the five-point / three-point stencils; linearity; classical remainder bounds",
         "Random real and complex polynomials pin every stencil weight (exactness up to degree 4 / 3, predicted leading term just above), transcendental functions check the remainder bounds; millions of cases in the thorough tier. Held on the executions observed.",
         "Rounding allowance K eps ptilde(|x|+2h)/h^m with K = 64 / 128; libm sin/exp accurate to a few ulp.",
         "DESIGN.md §4 C19"),
 "C20": ("exploration",
         "exhaustive comparison of the generated CODATA map and the named constants with an independent run-time parser of codata.txt and with the defining relations",
         "All 354 rows, all map keys, all 27 named constants, 6 defining values and 5 derived relations are checked on every run (exhaustive).",
         "codata.txt is the ground truth; str::parse::<f64> is correctly rounded.",
         "DESIGN.md §4 C20"),
 "C06": ("fault_enumeration",
         "exhaustive small-scope enumeration of builder call sequences against a reference model of the builder contract, plus fault injection at every derivative call index with a monitor over the next() history",
         "All sequences of up to 4 (quick) / 5 (thorough) builder calls from a 17-symbol alphabet, for all 7 builders, static and dynamic dimension, are compared call by call with a contract model (millions of sequences); the derivative is made to fail at EVERY call index of a reference run and the iterator history must be Ok*, exactly one Err carrying the injected error, then None, with no further derivative call, and collect_vec must return that error.",
         "Builder state is observed only through call outcomes and the first step of a y'=0 probe solve; Euler::with_tolerance (documented no-op) may accept or reject a non-positive value.",
         "DESIGN.md §4 C06"),
 "C09": ("exploration",
         "ground-truth monitor: returned integrals against closed forms on classes decided by an independent reliability predicate; integrand call log (abscissae, counts) against interval containment and a textbook adaptive-Simpson work reference; Err-case enumeration",
         "Hundreds of thousands (quick) to millions (thorough) of integrals per run over all nine routines, real and complex, judged against closed-form values (polynomial x exp x trig mixtures, Gamma moments, Bessel series); class membership is decided by the harness's own rule sequences and never serves as the oracle. Held on the executions observed.",
         "Tolerance-proportional bound claimed only inside the reliability class (DESIGN.md C09); tabulated rule accuracy is C10's statement (tolerances the rows cannot resolve are out of class).",
         "DESIGN.md §4 C09"),
 "C11": ("exploration",
         "reference-model monitor: every operator form and multiplication path against exact (compensated) coefficient algebra; dft/idft against direct evaluation at roots of unity",
         "Each generated operand pair (degrees 0..128, real and complex, sparse/dense/palindromic, tolerances straddling the leading terms) runs all owned/borrowed/assigning forms of + - *, negation and scalar operations through the scalar, linear and FFT paths and is compared coefficient-wise with a twice-precision convolution; degree, commutativity, pointwise agreement, dft values and idft round trip are checked. Held on the executions observed.",
         "Rounding bounds K eps log2(N) |a||b| with K = 64 (products), 128 (dft), 64 (idft), calibrated >= 8x observed; the degree statement is read as order(a*b) <= order(a)+order(b) always, with equality when the exact leading coefficient exceeds tolerance + bound.",
         "DESIGN.md §4 C11"),
 "C12": ("exploration",
         "reference-model monitor: quotient and remainder re-multiplied with compensated arithmetic against the dividend (backward error), degree and exact-multiple conditions",
         "Thousands (quick) to hundreds of thousands (thorough) of divisions, real and complex, including exact multiples, higher-degree divisors, constant divisors and the zero polynomial; never a panic.",
         "Tolerance > 0 throughout; exact-multiple remainders are compared with a conditioning-scaled bound computed by the harness.",
         "DESIGN.md §4 C12"),
 "C13": ("exploration",
         "reference-model monitor over operation histories: a reference coefficient map is compared with get_coefficient(s)/order after every set/purge/arithmetic call; evaluation and calculus against double-double Horner and term-wise formulas",
         "Random histories of 5-40 mutating calls (powers below, at and beyond the degree) checked after every operation, plus evaluation/derivative/antiderivative/integral consistency on polynomials of degree 0..30, real and complex.",
         "Rounding bounds 8 n eps sum|c_k||x|^k; purge_leading's documented contract is asserted in addition to the property text.",
         "DESIGN.md §4 C13"),
 "C04": ("exploration",
         "ground-truth monitor: every yielded state compared with closed-form solutions along tolerance ladders (step ladders for Euler); complex run vs equivalent real system; static vs dynamic dimension",
         "Closed-form problem stacks (linear, time-varying, separable non-linear, mixed by orthogonal matrices; complex linear systems) are solved on every rung of a 1e-3..1e-10 ladder and every item must lie within the classical propagated bound of the truth, so an error that stops shrinking is caught at the tight end; complex and real-equivalent runs and static/dynamic runs are cross-compared. Held on the executions observed.",
         "Bound K_s tol (e^{L t}-1)/L (x item index for BDF), K_s from C02; item-by-item equality of complex/real and static/dynamic paths is NOT asserted (rounding differences are amplified by the step controller), only lengths, worst-error ratio within 2x and states at coinciding times.",
         "DESIGN.md §4 C04"),
 "C15": ("exploration",
         "reference-model monitor: interpolants against the exact interpolating polynomial computed in double-double arithmetic, condition-number-scaled bounds, node values/derivatives, permutation invariance",
         "Tens to hundreds of thousands of node sets (1-8 nodes, real and complex, several node styles and data scales incl. a small-scale stratum) per run; degree bound, coefficients, node values and derivatives, reordering and Err cases are checked. Held on the executions observed.",
         "Bounds K eps kappa |c| + tol with K = 128 (Lagrange) / 1024 (Hermite), kappa from SVD bracketed by the exact Frobenius condition number.",
         "DESIGN.md §4 C15"),
 "C16": ("exploration",
         "reference-model monitor: CubicSpline values and first derivatives against an independent dense solve of the spline equations (own partial-pivot LU), at knots, one-ulp neighbours and interior points; direct C0/C1/C2, end-condition and reproduction checks; Err-case enumeration",
         "Thousands (quick) to 100 000 (thorough) splines with 2-40 knots and spacing ratios up to 50, free and clamped, real and complex.",
         "Units include the componentwise forward error of the reference solve; constants 24/32/16/16 with observed maxima <= 2.4.",
         "DESIGN.md §4 C16"),
 "C18": ("exploration",
         "exhaustive comparison of the five constructor families with exact integer/rational coefficients (i128), n = 0..20 x 5 tolerances x real/complex, plus identities through evaluate and three-term recurrences",
         "All 1050 (family, n, tolerance, field) cells are checked on every run (exhaustive); the closed-form reference is itself cross-checked against integer recurrences.",
         "Per-coefficient relative bound 16 eps n (Chebyshev, built by FFT products: relative to the largest coefficient).",
         "DESIGN.md §4 C18"),
 "C07": ("exploration",
         "trace monitor over the abscissa log of the function under test (containment, evaluation budget) plus result oracle (sign change within tolerance) on random and exhaustive exact-hit grids; Err-case enumeration",
         "Millions of bracketing-solver runs per tier: every abscissa handed to the user function must lie in the bracket, evaluation counts must meet the solver's bound (hard budget stops run-away loops), Ok results must have a sign change within tolerance; the complete dyadic exact-hit grid and a dedicated midpoint stage reach the cases random inputs never hit.",
         "Zero tolerance and ITP k1 = 0 are not exercised (documentation ambiguous); ITP budget n_half + 2 n0 + 6.",
         "DESIGN.md §4 C07"),
 "C08": ("exploration",
         "ground-truth monitor on constructed systems/polynomials/contractions with known roots inside proven convergence regions; call counters with hard budgets; singular and cap-exhausted cases must give Err",
         "Hundreds of thousands (quick) to millions (thorough) of Newton/secant/newton_polynomial/muller/steffensen runs against constructed roots, including starts on the root and at the origin, affine systems, exactly singular integer systems and exhausted caps.",
         "Start regions are the rigorous Newton-Kantorovich / basin radii; muller's residual bound is asserted only for starts near a root.",
         "DESIGN.md §4 C08"),
 "C14": ("exploration",
         "ground-truth monitor: returned roots against the constructing roots refined in double-double arithmetic (count, residual, one-to-one matching, conjugate closure); orthogonal zeros against Jacobi-matrix eigenvalues polished on the exact recurrences",
         "Tens of thousands (quick) to 840 000 (thorough) polynomials built from separated roots, incl. both flavours of sparse x^n - c and products of them, pinned Laguerre-cycle anchors, and every Legendre/Hermite (n <= 16) and Laguerre (n <= 12) zero set over a tolerance ladder.",
         "Tolerances from twice the evaluation noise upwards; cases whose double-double refinement does not converge are inconclusive.",
         "DESIGN.md §4 C14"),
 "C17": ("exploration",
         "ground-truth monitor: returned parameters against harness-side least-squares optima (SSR excess and parameter bounds), model-call log with hard budget (termination), and a first-step history signature that attributes curve_fit failures to the one open known finding",
         "Hundreds (quick) to tens of thousands (thorough) of fits per routine over linear-in-parameter and non-linear model families, noise-free and noisy, plus pinned Levenberg-Marquardt loop anchors; linear_fit against double-double normal equations; invalid-input enumeration. curve_fit's sum-Jacobian defect (D31) is an open known finding: only violations whose observed first LM step equals the sum-Jacobian prediction are attributed to it.",
         "SSR bound 4 max(5,g) tol with g from the damped iteration's contraction factor; designs with cond(J) <= 1e3.",
         "DESIGN.md §4 C17"),
}

PENDING_REASON = "check not built yet in this commit (runtime monitor designed in DESIGN.md §4; will be claimed when its harness module lands)"

def main():
    here = os.path.dirname(os.path.dirname(os.path.abspath(__file__)))
    props = [json.loads(l) for l in open(os.path.join(here, "properties.jsonl"))]
    checks, na = [], []
    for p in props:
        pid = p["id"]
        if pid in BUILT:
            cat, tech, text, note, ref = BUILT[pid]
            checks.append({
                "property_id": pid,
                "quick_cmd": f"./check {pid} quick",
                "thorough_cmd": f"./check {pid} thorough",
                "evidence_file": f"/verif/evidence/{pid}.json",
                "replay_cmd_template": "./check --replay {path}",
                "engine": "bacon-verif",
                "level_claimed": {"category": cat, "text": text, "design_ref": ref},
                "level_note": note,
                "technique": tech,
            })
        else:
            na.append({"property_id": pid, "reason": PENDING_REASON})
    man = {
        "version": 1,
        "setup_cmd": "./check --build-only",
        "hooks": {
            "guard": "bacon_verif",
            "enable": "none needed: every property is observed at the public API through instrumented caller-supplied closures; the cfg name bacon_verif (RUSTFLAGS=--cfg bacon_verif) is reserved and unused",
            "baseline_off_cmd": "cd /repo && cargo test --workspace --no-fail-fast --offline",
            "source_commits": [],
            "add_only": True,
        },
        "engines": [{
            "name": "bacon-verif",
            "path": "/verif/harness",
            "serves_properties": sorted(BUILT.keys()),
            "kind_free_text": "Rust harness linked against /repo's working tree (path dependency, rebuilt by ./check on every invocation): instrumented closures record call logs and enforce evaluation budgets; monitors check trace invariants, reference models and closed-form ground truth over seeded, structured and exhaustive workloads; panics, integer overflow and debug assertions are on and caught; every check repeats its quick tier in a second build of the same harness without debug assertions and overflow checks (the profile downstream users ship) and reports what that build observed",
        }],
        "checks": checks,
        "not_applicable": na,
        "notes": "Runtime monitoring only. Exit codes of ./check: 0 held on everything observed; 1 violation (VIOLATION line + replay file); 2 inconclusive (observation thresholds not met / watchdog); 3 harness or build error. Known findings: /verif/known_findings.json (read-only at run time).",
    }
    json.dump(man, open(os.path.join(here, "MANIFEST.json"), "w"), indent=1)
    print("checks:", len(checks), "not_applicable:", len(na))

main()
