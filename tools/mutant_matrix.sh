#!/bin/bash
# Validation helper: apply one seeded change (patch file) to /repo's working tree, run the given
# checks, restore the tree. Prints one line per check.
#   tools/mutant_matrix.sh <patch.diff> C01 [C02 ...]        (TIER=quick|thorough, default quick)
patch="$1"; shift
tier="${TIER:-quick}"
for chk in "$@"; do
  out=$(/verif/tools/with_change.sh patch "$patch" -- /verif/check "$chk" "$tier" 2>&1)
  rc=$?
  sigs=$(echo "$out" | grep -oE "^\s+\[[^]]+\]" | sort | uniq -c | sort -rn | head -3 | tr '\n' ';' | tr -s ' ')
  summ=$(echo "$out" | grep -E "^SUMMARY" | sed -E 's/.*(verdict=[a-z-]+).*(violations=[0-9]+).*/\1 \2/')
  echo "  $chk $tier => rc=$rc $summ $sigs"
done
