use bacon_sci::optimize::*;
use nalgebra::SVector;
use std::cell::Cell;
use std::panic;
fn main() {
    panic::set_hook(Box::new(|_| {}));
    let xs: Vec<f64> = (0..20).map(|i| -2.0 + 4.0 * i as f64 / 19.0).collect();
    // linear model a + b x
    let ys: Vec<f64> = xs.iter().map(|x| 1.5 + 0.7 * x).collect();
    let cnt = Cell::new(0usize);
    let lin = |x: f64, p: &SVector<f64, 2>| { cnt.set(cnt.get() + 1); if cnt.get() > 2_000_000 { panic!("budget") }; p[0] + p[1] * x };
    let r = panic::catch_unwind(panic::AssertUnwindSafe(|| curve_fit(lin, &xs, &ys, &[1.0, 1.0], &CurveFitParams { damping: 2.0, tolerance: 1e-10, h: 0.1, damping_mult: 1.5 })));
    println!("curve_fit linear -> {:?} calls {}", r.map_err(|_| "PANIC"), cnt.get());
    cnt.set(0);
    let r = panic::catch_unwind(panic::AssertUnwindSafe(|| curve_fit_jac(lin, &xs, &ys, &[1.0, 1.0], |x: f64, _p: &SVector<f64, 2>| SVector::<f64, 2>::new(1.0, x), &CurveFitParams { damping: 2.0, tolerance: 1e-10, h: 0.1, damping_mult: 1.5 })));
    println!("curve_fit_jac linear -> {:?} calls {}", r.map_err(|_| "PANIC"), cnt.get());
    // exponential a exp(b x)
    let ys: Vec<f64> = xs.iter().map(|x| 2.0 * (0.5 * x).exp()).collect();
    let ex = |x: f64, p: &SVector<f64, 2>| { cnt.set(cnt.get() + 1); if cnt.get() > 2_000_000 { panic!("budget") }; p[0] * (p[1] * x).exp() };
    for start in [[2.2, 0.45], [1.7, 0.58], [2.0, 0.5]] {
      for tol in [1e-6, 1e-10, 1e-12] {
        cnt.set(0);
        let r = panic::catch_unwind(panic::AssertUnwindSafe(|| curve_fit(ex, &xs, &ys, &start, &CurveFitParams { damping: 2.0, tolerance: tol, h: 1e-4, damping_mult: 1.5 })));
        println!("curve_fit exp start {:?} tol {:e} -> {:?} calls {}", start, tol, r.map_err(|_| "PANIC"), cnt.get());
        cnt.set(0);
        let r = panic::catch_unwind(panic::AssertUnwindSafe(|| curve_fit_jac(ex, &xs, &ys, &start, |x: f64, p: &SVector<f64, 2>| SVector::<f64, 2>::new((p[1] * x).exp(), p[0] * x * (p[1] * x).exp()), &CurveFitParams { damping: 2.0, tolerance: tol, h: 1e-4, damping_mult: 1.5 })));
        println!("curve_fit_jac exp start {:?} tol {:e} -> {:?} calls {}", start, tol, r.map_err(|_| "PANIC"), cnt.get());
      }
    }
    let p = linear_fit(&xs, &ys).unwrap();
    println!("linear_fit {:?}", p.get_coefficients());
}
