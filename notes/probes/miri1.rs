use bacon_sci::ivp::{rk::*, adams::*, bdf::*, IVPSolver, UserError};
use bacon_sci::polynomial::Polynomial;
use bacon_sci::BSVector;
fn d(_t: f64, y: &[f64], _: &mut ()) -> Result<BSVector<f64, 2>, UserError> { Ok(BSVector::<f64,2>::new(y[1], -y[0])) }
fn main() {
    let p = RungeKutta45::new().unwrap().with_minimum_dt(1e-4).unwrap().with_maximum_dt(0.1).unwrap().with_tolerance(1e-4).unwrap()
        .with_initial_time(0.0).unwrap().with_ending_time(0.5).unwrap().with_initial_conditions_slice(&[1.0, 0.0]).unwrap().with_derivative(d).solve(()).unwrap().collect_vec().unwrap();
    println!("rk45 {}", p.len());
    let p = Adams5::new().unwrap().with_minimum_dt(1e-4).unwrap().with_maximum_dt(0.1).unwrap().with_tolerance(1e-2).unwrap()
        .with_initial_time(0.0).unwrap().with_ending_time(0.5).unwrap().with_initial_conditions_slice(&[1.0, 0.0]).unwrap().with_derivative(d).solve(()).unwrap().collect_vec().unwrap();
    println!("adams5 {}", p.len());
    let p = BDF2::new().unwrap().with_minimum_dt(1e-4).unwrap().with_maximum_dt(0.1).unwrap().with_tolerance(1e-2).unwrap()
        .with_initial_time(0.0).unwrap().with_ending_time(0.5).unwrap().with_initial_conditions_slice(&[1.0, 0.0]).unwrap().with_derivative(d).solve(()).unwrap().collect_vec();
    println!("bdf2 {:?}", p.map(|p| p.len()));
    let a: Polynomial<f64> = Polynomial::from_slice(&[1.0, 2.0, 3.0, 4.0]);
    let b: Polynomial<f64> = Polynomial::from_slice(&[1.0, -2.0, 0.5]);
    let c = &a * &b;
    println!("{:?} {:?}", c.get_coefficients(), c.roots(1e-8, 100));
}
