use bacon_sci::ivp::{adams::*, bdf::*, rk::*, Euler, IVPSolver, IVPError, UserError};
use bacon_sci::BSVector;
use nalgebra::Const;
use std::panic;
type V = BSVector<f64, 1>;
type F = fn(f64, &[f64], &mut ()) -> Result<V, UserError>;
fn zero(_t: f64, _y: &[f64], _: &mut ()) -> Result<V, UserError> { Ok(V::new(0.0)) }
#[derive(Clone, Copy, Debug, PartialEq)]
enum Sym { Tol(f64), Max(f64), Min(f64), T0(f64), T1(f64), Ic, Der }
#[derive(Clone, Copy, Debug, PartialEq)]
enum Out { Ok, TolOOB, DtOOB, StartOOB, EndOOB, Missing, Other, Panic }
fn classify(e: &IVPError) -> Out { match e { IVPError::ToleranceOOB => Out::TolOOB, IVPError::TimeDeltaOOB => Out::DtOOB, IVPError::TimeStartOOB => Out::StartOOB, IVPError::TimeEndOOB => Out::EndOOB, IVPError::MissingParameters => Out::Missing, _ => Out::Other } }
#[derive(Default, Clone)]
struct Model { tol: Option<f64>, max: Option<f64>, min: Option<f64>, t0: Option<f64>, t1: Option<f64>, ic: bool, der: bool, euler: bool, dt: Option<f64> }
impl Model {
    fn apply(&mut self, s: Sym) -> Vec<Out> { // acceptable outcomes
        match s {
            Sym::Tol(v) => { if self.euler { if v > 0.0 { vec![Out::Ok] } else { vec![Out::Ok, Out::TolOOB] } } else if v > 0.0 { self.tol = Some(v); vec![Out::Ok] } else { vec![Out::TolOOB] } }
            Sym::Max(v) => { if v <= 0.0 { return vec![Out::DtOOB]; } if self.euler { self.dt = Some(match self.dt { Some(d) => (d + v) / 2.0, None => v }); } else { self.max = Some(v); if let Some(m) = self.min { if m > v { self.min = Some(v); } } } vec![Out::Ok] }
            Sym::Min(v) => { if v <= 0.0 { return vec![Out::DtOOB]; } if self.euler { self.dt = Some(match self.dt { Some(d) => (d + v) / 2.0, None => v }); } else { self.min = Some(v); if let Some(m) = self.max { if m < v { self.max = Some(v); } } } vec![Out::Ok] }
            Sym::T0(v) => { self.t0 = Some(v); if let Some(e) = self.t1 { if e <= v { return vec![Out::StartOOB]; } } vec![Out::Ok] }
            Sym::T1(v) => { self.t1 = Some(v); if let Some(b) = self.t0 { if b >= v { return vec![Out::EndOOB]; } } vec![Out::Ok] }
            Sym::Ic => { self.ic = true; vec![Out::Ok] }
            Sym::Der => { self.der = true; vec![Out::Ok] }
        }
    }
    fn complete(&self) -> bool { self.t0.is_some() && self.t1.is_some() && self.ic && self.der && if self.euler { self.dt.is_some() } else { self.tol.is_some() && self.max.is_some() && self.min.is_some() } }
}
fn drive<S>(seq: &[Sym], euler: bool) -> Result<(), String> where S: IVPSolver<'static, Const<1>, Field = f64, RealField = f64, UserData = (), Error = IVPError, Derivative = F> {
    let mut model = Model { euler, ..Default::default() };
    let mut b = S::new().map_err(|e| format!("new failed {:?}", e))?;
    for (i, s) in seq.iter().enumerate() {
        let allowed = model.apply(*s);
        let r = panic::catch_unwind(panic::AssertUnwindSafe(|| match *s { Sym::Tol(v) => b.with_tolerance(v), Sym::Max(v) => b.with_maximum_dt(v), Sym::Min(v) => b.with_minimum_dt(v), Sym::T0(v) => b.with_initial_time(v), Sym::T1(v) => b.with_ending_time(v), Sym::Ic => b.with_initial_conditions_slice(&[1.0]), Sym::Der => Ok(b.with_derivative(zero as F)) }));
        let (out, nb) = match r { Err(_) => (Out::Panic, None), Ok(Ok(nb)) => (Out::Ok, Some(nb)), Ok(Err(e)) => (classify(&e), None) };
        if !allowed.contains(&out) { return Err(format!("step {} {:?}: got {:?} allowed {:?}", i, s, out, allowed)); }
        match nb { Some(x) => b = x, None => return Ok(()) }
    }
    let complete = model.complete();
    let r = panic::catch_unwind(panic::AssertUnwindSafe(|| b.solve(())));
    match r { Err(_) => Err("solve panicked".into()), Ok(Err(e)) => { if complete { Err(format!("solve Err {:?} on complete config", e)) } else if classify(&e) == Out::Missing { Ok(()) } else { Err(format!("solve Err {:?} expected Missing", e)) } }
        Ok(Ok(it)) => { if !complete { return Err("solve Ok on incomplete config".into()); }
            // observe effective dt through y' = 0
            let path: Vec<_> = it.take(400).collect(); let times: Vec<f64> = path.iter().filter_map(|x| x.as_ref().ok().map(|p| p.0)).collect();
            if times.len() != path.len() { return Err("error items on y'=0".into()); }
            let t0 = model.t0.unwrap(); let t1 = model.t1.unwrap();
            if euler { let dt = model.dt.unwrap(); if times.is_empty() || times[0] != t0 { return Err(format!("euler first {:?}", times.first())); } if times.len() > 1 && (times[1] - times[0] - dt.min(t1 - t0)).abs() > 1e-12 { return Err(format!("euler dt observed {} model {}", times[1] - times[0], dt)); } Ok(()) }
            else { let (mn, mx) = (model.min.unwrap(), model.max.unwrap()); if mn > mx { return Err("model min>max".into()); }
                let first = times.first().cloned().unwrap_or(f64::NAN) - t0; let dt0 = ((mx + mn) / 2.0).min(t1 - t0);
                if (first - dt0).abs() > 1e-12 * (1.0 + t0.abs()) && first > 0.0 && times.len() < 400 { /* adams/bdf shortened start-up gives smaller first step */ if first > dt0 + 1e-12 { return Err(format!("first step {} > dt0 {}", first, dt0)); } }
                let mut prev = t0; let mut maxgap = 0.0f64; for t in &times { maxgap = maxgap.max(t - prev); prev = *t; }
                if maxgap > mx * (1.0 + 1e-12) { return Err(format!("max gap {} > model dt_max {}", maxgap, mx)); }
                Ok(()) } } }
}
fn main() {
    panic::set_hook(Box::new(|_| {}));
    let alphabet = vec![Sym::Tol(1e-3), Sym::Tol(0.0), Sym::Tol(-1.0), Sym::Max(0.25), Sym::Max(0.5), Sym::Max(0.0), Sym::Max(-1.0), Sym::Min(0.125), Sym::Min(1.0), Sym::Min(0.0), Sym::Min(-0.5), Sym::T0(0.0), Sym::T0(10.0), Sym::T1(0.0), Sym::T1(10.0), Sym::Ic, Sym::Der];
    let maxlen: usize = std::env::args().nth(1).map(|s| s.parse().unwrap()).unwrap_or(4);
    let mut counts = vec![(0usize, 0usize); 7]; let mut shown = 0;
    let mut seq: Vec<usize> = vec![];
    // enumerate all sequences up to maxlen plus a fixed completing suffix variants
    fn rec(alphabet: &[Sym], seq: &mut Vec<usize>, maxlen: usize, counts: &mut Vec<(usize, usize)>, shown: &mut usize) {
        let s: Vec<Sym> = seq.iter().map(|i| alphabet[*i]).collect();
        // also test with a completing suffix so that solve() is reached on complete configs
        for suffix in [vec![], vec![Sym::Tol(1e-3), Sym::Ic, Sym::Der], vec![Sym::T0(0.0), Sym::T1(10.0), Sym::Ic, Sym::Der, Sym::Tol(1e-3)]] {
            let mut full = s.clone(); full.extend(suffix);
            macro_rules! go { ($k:expr, $ty:ty, $e:expr) => {{ counts[$k].0 += 1; if let Err(m) = drive::<$ty>(&full, $e) { counts[$k].1 += 1; if *shown < 12 { *shown += 1; println!("solver {} seq {:?}: {}", $k, full, m); } } }}; }
            go!(0, Euler<'static, f64, Const<1>, (), F>, true); go!(1, RungeKutta45<'static, f64, Const<1>, (), F>, false); go!(2, RungeKutta23<'static, f64, Const<1>, (), F>, false);
            go!(3, Adams5<'static, f64, Const<1>, (), F>, false); go!(4, Adams3<'static, f64, Const<1>, (), F>, false); go!(5, BDF6<'static, f64, Const<1>, (), F>, false); go!(6, BDF2<'static, f64, Const<1>, (), F>, false);
        }
        if seq.len() < maxlen { for i in 0..alphabet.len() { seq.push(i); rec(alphabet, seq, maxlen, counts, shown); seq.pop(); } }
    }
    rec(&alphabet, &mut seq, maxlen, &mut counts, &mut shown);
    println!("(runs, deviations) per solver [Euler, RK45, RK23, Adams5, Adams3, BDF6, BDF2]: {:?}", counts);
}
