use bacon_sci::roots::*;
use std::cell::RefCell;
use std::panic;
fn main() {
    panic::set_hook(Box::new(|_| {}));
    let mut stats = std::collections::BTreeMap::<String, (usize, String)>::new();
    let dy = [-2.0, -1.0, -0.5, 0.0, 0.25, 0.5, 1.0, 1.5, 2.0, 3.0, 4.0];
    for &a in &dy { for &b in &dy { if a == b { continue; }
      for m in 1..=4 { for j in 1..(1 << m) {
        let r = a + (b - a) * j as f64 / (1 << m) as f64;
        for &s in &[1.0, -1.0, 2.0, -0.5] { for kind in 0..2 {
          let f = move |x: f64| if kind == 0 { s * (x - r) } else { s * (x - r) * (1.0 + (x - r) * (x - r)) };
          for which in 0..3 { if which == 0 && a > b { continue; }
            for &tol in &[1e-3, 1e-8] {
            let log = RefCell::new(Vec::<f64>::new());
            let g = |x: f64| { let mut l = log.borrow_mut(); l.push(x); if l.len() > 2000 { panic!("budget"); } f(x) };
            let res = panic::catch_unwind(panic::AssertUnwindSafe(|| match which { 0 => bisection((a, b), g, tol, 300), 1 => brent((a, b), g, tol), _ => itp((a, b), g, 0.1, 2.0, 1.0, tol) }));
            let name = ["bis", "brent", "itp"][which];
            let (lo, hi) = (a.min(b), a.max(b));
            let key = match res { Err(_) => format!("{} budget", name), Ok(Err(_)) => format!("{} Err-on-valid", name), Ok(Ok(x)) => { let tau = if which == 0 { tol * x.abs().max(1.0) } else { tol }; if x.is_nan() { format!("{} NaN", name) } else if x < lo || x > hi { format!("{} result-outside", name) } else if (x - r).abs() > 1.01 * tau && !(which == 1 && f(x).abs() < tol) { format!("{} inaccurate", name) } else { format!("{} ok", name) } } };
            let e = stats.entry(key).or_insert((0, String::new())); e.0 += 1; if e.1.is_empty() { e.1 = format!("a={} b={} r={} s={} kind={} tol={:e}", a, b, r, s, kind, tol); }
          } }
        } }
      } }
    } }
    for (k, v) in &stats { println!("{:22} {:6}  first: {}", k, v.0, v.1); }
}
