use bacon_sci::optimize::*;
use nalgebra::{DMatrix, DVector, SVector};
use std::cell::RefCell;
use std::panic;
struct Rng(u64);
impl Rng { fn next(&mut self) -> u64 { self.0 = self.0.wrapping_add(0x9E3779B97F4A7C15); let mut z = self.0; z = (z ^ (z >> 30)).wrapping_mul(0xBF58476D1CE4E5B9); z = (z ^ (z >> 27)).wrapping_mul(0x94D049BB133111EB); z ^ (z >> 31) }
  fn f(&mut self) -> f64 { (self.next() >> 11) as f64 / (1u64 << 53) as f64 }
  fn r(&mut self, a: f64, b: f64) -> f64 { a + (b - a) * self.f() } }
fn main() {
    panic::set_hook(Box::new(|_| {}));
    let mut rng = Rng(8);
    let mut tally = std::collections::BTreeMap::<String, usize>::new();
    for _ in 0..400 {
        let npts = 3 + (rng.next() % 40) as usize; let xs: Vec<f64> = (0..npts).map(|_| rng.r(-2.0, 2.0)).collect();
        let kind = rng.next() % 3; let truth = [rng.r(0.5, 2.0), rng.r(0.2, 1.0)];
        let model = move |x: f64, p: &SVector<f64, 2>| -> f64 { match kind { 0 => p[0] + p[1] * x, 1 => p[0] * (p[1] * x).exp(), _ => p[0] / (1.0 + (-p[1] * x).exp()) } };
        let ys: Vec<f64> = xs.iter().map(|&x| model(x, &SVector::<f64, 2>::new(truth[0], truth[1])) + 0.01 * rng.r(-1.0, 1.0)).collect();
        let start = SVector::<f64, 2>::new(truth[0] * rng.r(0.8, 1.2), truth[1] * rng.r(0.8, 1.2));
        let h = 10f64.powf(rng.r(-5.0, -2.0)); let prm = CurveFitParams::<f64> { damping: rng.r(0.5, 5.0), tolerance: 10f64.powf(rng.r(-12.0, -6.0)), h, damping_mult: rng.r(1.2, 3.0) };
        let log = RefCell::new(Vec::<SVector<f64, 2>>::new());
        let m = |x: f64, p: &SVector<f64, 2>| { let mut l = log.borrow_mut(); l.push(*p); if l.len() > 50_000 { panic!("budget") }; model(x, p) };
        let res = panic::catch_unwind(panic::AssertUnwindSafe(|| curve_fit(m, &xs, &ys, start.as_slice(), &prm)));
        // observed p1: first logged params not in {p0, p0 +- h e_c} (tolerance 1e-12 rel)
        let l = log.borrow();
        let near = |a: &SVector<f64, 2>, b: &SVector<f64, 2>| (a - b).norm() <= 1e-12 * (1.0 + b.norm());
        let mut cands = vec![start]; for c in 0..2 { for s in [-1.0, 1.0] { let mut q = start; q[c] += s * h; cands.push(q); } }
        let p1 = l.iter().find(|p| !cands.iter().any(|c| near(p, c))).cloned();
        // predictions
        let predict = |sum: bool| -> Option<SVector<f64, 2>> { let r = xs.len(); let mut j = DMatrix::<f64>::zeros(r, 2); for (i, x) in xs.iter().enumerate() { for c in 0..2 { let mut q = start; q[c] += h; let a = model(*x, &q); q[c] -= h; q[c] -= h; let b = model(*x, &q); j[(i, c)] = if sum { (a + b) / (2.0 * h) } else { (a - b) / (2.0 * h) }; } }
            let resid = DVector::<f64>::from_iterator(r, xs.iter().zip(ys.iter()).map(|(x, y)| y - model(*x, &start))); let jt = j.transpose(); let mut m = &jt * &j; for i in 0..2 { m[(i, i)] *= 1.0 + prm.damping; } let b = &jt * resid; m.lu().solve(&b).map(|d| start + SVector::<f64, 2>::new(d[0], d[1])) };
        let (pc, pb) = (predict(false), predict(true));
        let key = match (p1, pc, pb) {
            (Some(o), Some(c), Some(b)) => { let mc = (o - c).norm() <= 1e-9 * (1.0 + c.norm()); let mb = (o - b).norm() <= 1e-6 * (1.0 + b.norm()); match (mc, mb) { (true, false) => "p1 matches CORRECT", (false, true) => "p1 matches SUM-Jacobian (D31)", (true, true) => "p1 matches both", _ => "p1 matches neither" }.to_string() }
            (Some(o), Some(c), None) => { if (o - c).norm() <= 1e-9 * (1.0 + c.norm()) { "p1 matches CORRECT (sum singular)".into() } else { "p1 neither (sum singular)".into() } }
            (None, _, pb) => format!("no p1 observed; result {}; sum-solve {}", match &res { Ok(Ok(_)) => "Ok", Ok(Err(_)) => "Err", Err(_) => "budget" }, if pb.is_some() { "ok" } else { "singular" }),
            _ => "other".into() };
        *tally.entry(key).or_insert(0) += 1;
    }
    println!("{:#?}", tally);
}
