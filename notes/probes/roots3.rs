use bacon_sci::roots::*;
use std::cell::RefCell;
use std::panic;
struct Rng(u64);
impl Rng { fn next(&mut self) -> u64 { self.0 = self.0.wrapping_add(0x9E3779B97F4A7C15); let mut z = self.0; z = (z ^ (z >> 30)).wrapping_mul(0xBF58476D1CE4E5B9); z = (z ^ (z >> 27)).wrapping_mul(0x94D049BB133111EB); z ^ (z >> 31) }
  fn f(&mut self) -> f64 { (self.next() >> 11) as f64 / (1u64 << 53) as f64 }
  fn r(&mut self, a: f64, b: f64) -> f64 { a + (b - a) * self.f() } }
fn main() {
    panic::set_hook(Box::new(|_| {}));
    let mut rng = Rng(std::env::args().nth(1).map(|s| s.parse().unwrap()).unwrap_or(1));
    let mut stats = std::collections::BTreeMap::<String, usize>::new();
    for case in 0..20000 {
        let kind = rng.next() % 6;
        let root = rng.r(-3.0, 3.0) + if rng.next() % 4 == 0 { 100.0 } else { 0.0 };
        let sgn = if rng.next() % 2 == 0 { 1.0 } else { -1.0 };
        let sc = rng.r(0.2, 3.0);
        let f = move |x: f64| -> f64 { let d = x - root; sgn * match kind { 0 => sc * d, 1 => d * d * d, 2 => (sc * d).exp() - 1.0, 3 => (sc * d).sin(), 4 => d * (1.0 + d * d), _ => (sc * d).tanh() } };
        // bracket containing only root (for sin keep within pi/sc)
        let maxw = if kind == 3 { 3.0 / sc } else { 4.0 };
        let mut a = root - rng.r(0.01, maxw); let mut b = root + rng.r(0.01, maxw);
        if rng.next() % 8 == 0 { a = root; } // root at the end point
        if rng.next() % 2 == 0 { std::mem::swap(&mut a, &mut b); }
        let tol = 10f64.powf(rng.r(-12.0, -2.0));
        for which in 0..3 {
            if which == 0 && a > b { continue; }
            let log = RefCell::new(Vec::<f64>::new());
            let g = |x: f64| { let mut l = log.borrow_mut(); l.push(x); if l.len() > 3000 { panic!("budget"); } f(x) };
            let (k1, k2, n0) = (rng.r(0.01, 1.0), rng.r(1.05, 2.55), (rng.next() % 3) as f64);
            let r = panic::catch_unwind(panic::AssertUnwindSafe(|| match which { 0 => bisection((a, b), g, tol, 300), 1 => brent((a, b), g, tol), _ => itp((a, b), g, k1, k2, n0, tol) }));
            let name = ["bis", "brent", "itp"][which];
            let l = log.borrow(); let (lo, hi) = (a.min(b), a.max(b));
            let slack = 4.0 * 2.2e-16 * lo.abs().max(hi.abs());
            let mut key = String::new();
            if l.iter().any(|x| *x < lo - slack || *x > hi + slack || x.is_nan()) { key = format!("{} eval-outside", name); }
            match r {
                Err(_) => key = format!("{} budget/panic", name),
                Ok(Err(_)) => { if f(a) * f(b) < 0.0 { key = format!("{} Err-on-valid", name); } }
                Ok(Ok(x)) => {
                    let tau = if which == 0 { tol * x.abs().max(1.0) } else { tol };
                    if x.is_nan() { key = format!("{} NaN", name); }
                    else if x < lo - slack || x > hi + slack { key = format!("{} result-outside", name); }
                    else { let xl = (x - 1.01 * tau - slack).max(lo); let xr = (x + 1.01 * tau + slack).min(hi); let ok = f(xl) * f(xr) <= 0.0 || (which == 1 && f(x).abs() < tol); if !ok && key.is_empty() { key = format!("{} inaccurate", name); if *stats.get(&key).unwrap_or(&0) < 2 { println!("{} inaccurate: kind {} root {} a {} b {} tol {:e} x {} f(x) {:e}", name, kind, root, a, b, tol, x, f(x)); } } }
                }
            }
            if !key.is_empty() { *stats.entry(key).or_insert(0) += 1; }
            *stats.entry(format!("{} total", name)).or_insert(0) += 1;
            let w = (a - b).abs(); let lg = (w / tol).log2().ceil().max(0.0);
            let budget = match which { 0 => lg + 4.0, 1 => (lg + 2.0) * (lg + 2.0) + 10.0, _ => (w / (2.0 * tol)).log2().ceil().max(0.0) + n0 + 6.0 };
            let over = l.len() as f64 - budget;
            let e = stats.entry(format!("{} max evals over budget (x1000)", name)).or_insert(0); let v = (over.max(0.0) * 1000.0) as usize; if v > *e { *e = v; if which == 2 { println!("itp over: evals {} budget {} a {} b {} tol {:e} k1 {} k2 {} n0 {} kind {} sgn {}", l.len(), budget, a, b, tol, k1, k2, n0, kind, sgn); } }
            let e = stats.entry(format!("{} max evals", name)).or_insert(0); if l.len() > *e { *e = l.len(); }
        }
        let _ = case;
    }
    println!("{:#?}", stats);
}
