use bacon_sci::ivp::{adams::*, bdf::*, rk::*, IVPSolver, IVPError, UserError};
use bacon_sci::BSVector;
use std::cell::Cell;
use std::rc::Rc;
type V = BSVector<f64, 2>;
struct Rng(u64);
impl Rng { fn next(&mut self) -> u64 { self.0 = self.0.wrapping_add(0x9E3779B97F4A7C15); let mut z = self.0; z = (z ^ (z >> 30)).wrapping_mul(0xBF58476D1CE4E5B9); z = (z ^ (z >> 27)).wrapping_mul(0x94D049BB133111EB); z ^ (z >> 31) }
  fn f(&mut self) -> f64 { (self.next() >> 11) as f64 / (1u64 << 53) as f64 }
  fn r(&mut self, a: f64, b: f64) -> f64 { a + (b - a) * self.f() } }
#[derive(Clone, Debug)]
struct Prob { a: [[f64; 2]; 2], w: [f64; 2], ph: [f64; 2], nl: [f64; 2], fa: [f64; 2], l: f64 }
impl Prob {
    // y' = A y + nl_i * sin(y_j) + fa_i * cos(w_i t + ph_i)
    fn f(&self, t: f64, y: &[f64]) -> V {
        V::new(self.a[0][0]*y[0] + self.a[0][1]*y[1] + self.nl[0]*y[1].sin() + self.fa[0]*(self.w[0]*t + self.ph[0]).cos(),
               self.a[1][0]*y[0] + self.a[1][1]*y[1] + self.nl[1]*y[0].sin() + self.fa[1]*(self.w[1]*t + self.ph[1]).cos())
    }
    fn gen(rng: &mut Rng) -> Prob {
        let s = rng.r(0.3, 2.0);
        // A = -D + S : dissipative linear part
        let d0 = rng.r(0.0, 1.0) * s; let d1 = rng.r(0.0, 1.0) * s; let sk = rng.r(-1.0, 1.0) * s; let off = rng.r(-0.5, 0.5) * d0.min(d1);
        let a = [[-d0, sk + off], [-sk + off, -d1]];
        let nl = [rng.r(-0.5,0.5)*s, rng.r(-0.5,0.5)*s];
        let l = ((a[0][0].powi(2)+a[0][1].powi(2)+a[1][0].powi(2)+a[1][1].powi(2)).sqrt() + nl[0].abs().max(nl[1].abs())).max(0.2);
        Prob { a, w: [rng.r(0.2,2.0)*s, rng.r(0.2,2.0)*s], ph: [rng.r(0.0,6.28), rng.r(0.0,6.28)], nl, fa: [rng.r(-1.0,1.0), rng.r(-1.0,1.0)], l: l.max(2.0*s) }
    }
}
fn rk4(p: &Prob, t: f64, y: V, h: f64, m: usize) -> V { let hh = h / m as f64; let mut y = y; let mut t = t; for _ in 0..m { let k1 = p.f(t, y.as_slice()); let k2 = p.f(t+hh/2.0, (y + k1*(hh/2.0)).as_slice()); let k3 = p.f(t+hh/2.0, (y + k2*(hh/2.0)).as_slice()); let k4 = p.f(t+hh, (y + k3*hh).as_slice()); y += (k1 + k2*2.0 + k3*2.0 + k4)*(hh/6.0); t += hh; } y }
fn flow(p: &Prob, t: f64, y: V, h: f64) -> (V, f64) { let mut m = ((h * p.l * 20.0).ceil() as usize).max(4); loop { let a = rk4(p, t, y, h, m); let b = rk4(p, t, y, h, 2*m); let r = b + (b - a)/15.0; let e = (b - a).norm()/15.0; if e <= 1e-15 * (1.0 + r.norm()) || m > 4096 { return (r, e); } m *= 2; } }
fn rkf45_ref(p: &Prob, t: f64, y: V, h: f64) -> (V, f64) {
    let k1 = p.f(t, y.as_slice())*h;
    let k2 = p.f(t+h/4.0, (y + k1/4.0).as_slice())*h;
    let k3 = p.f(t+3.0*h/8.0, (y + k1*(3.0/32.0) + k2*(9.0/32.0)).as_slice())*h;
    let k4 = p.f(t+12.0*h/13.0, (y + k1*(1932.0/2197.0) - k2*(7200.0/2197.0) + k3*(7296.0/2197.0)).as_slice())*h;
    let k5 = p.f(t+h, (y + k1*(439.0/216.0) - k2*8.0 + k3*(3680.0/513.0) - k4*(845.0/4104.0)).as_slice())*h;
    let k6 = p.f(t+h/2.0, (y - k1*(8.0/27.0) + k2*2.0 - k3*(3544.0/2565.0) + k4*(1859.0/4104.0) - k5*(11.0/40.0)).as_slice())*h;
    let y4 = y + k1*(25.0/216.0) + k3*(1408.0/2565.0) + k4*(2197.0/4104.0) - k5/5.0;
    let y5 = y + k1*(16.0/135.0) + k3*(6656.0/12825.0) + k4*(28561.0/56430.0) - k5*(9.0/50.0) + k6*(2.0/55.0);
    (y4, (y5 - y4).norm()/h)
}
fn bs23_ref(p: &Prob, t: f64, y: V, h: f64) -> (V, f64) {
    let k1 = p.f(t, y.as_slice())*h;
    let k2 = p.f(t+h/2.0, (y + k1/2.0).as_slice())*h;
    let k3 = p.f(t+3.0*h/4.0, (y + k2*0.75).as_slice())*h;
    let y3 = y + k1*(2.0/9.0) + k2/3.0 + k3*(4.0/9.0);
    let k4 = p.f(t+h, y3.as_slice())*h;
    let y2 = y + k1*(7.0/24.0) + k2/4.0 + k3/3.0 + k4/8.0;
    (y3, (y3 - y2).norm()/h)
}
macro_rules! run {
    ($ty:ident, $p:expr, $t0:expr, $t1:expr, $y0:expr, $dtmin:expr, $dtmax:expr, $tol:expr) => {{
        let cnt = Rc::new(Cell::new(0usize)); let c2 = cnt.clone(); let p2 = $p.clone();
        let deriv = move |t: f64, y: &[f64], _: &mut ()| -> Result<V, UserError> { c2.set(c2.get() + 1); if c2.get() > 2_000_000 { return Err("budget".into()); } Ok(p2.f(t, y)) };
        let r = (|| -> Result<_, IVPError> { $ty::new()?.with_minimum_dt($dtmin)?.with_maximum_dt($dtmax)?.with_tolerance($tol)?.with_initial_time($t0)?.with_ending_time($t1)?.with_initial_conditions($y0)?.with_derivative(deriv).solve(())?.collect_vec() })();
        (r, cnt.get())
    }};
}

#[derive(Default, Debug)]
struct St { points: usize, rk: usize, ms: usize, neither: usize, worst_ms_slackunits: f64, worst_est: f64, worst_rk_units: f64, runs: usize, errs: usize }
fn rk4step(p: &Prob, t: f64, y: V, h: f64) -> V { rk4(p, t, y, h, 1) }
fn analyse7(name: &str, st: &mut St, p: &Prob, t0: f64, y0: V, tol: f64, kind: u8, order: usize, res: Result<Vec<(f64, V)>, IVPError>) {
    st.runs += 1;
    let path = match res { Ok(p) => p, Err(_) => { st.errs += 1; return; } };
    let mut pts = vec![(t0, y0)]; pts.extend(path.iter().cloned());
    for i in 1..pts.len() {
        let (t, y) = pts[i]; let (tp, yp) = pts[i - 1]; let h = t - tp; st.points += 1;
        let yr = rk4step(p, tp, yp, h); let drk = (y - yr).norm() / (1e-16 * (1.0 + y.norm()));
        let is_rk = drk < 1e4;
        // multistep check
        let need = order; // number of previous points incl. prev: adams O-1 (=order), bdf: steps
        let mut ms_ok = false; let mut dev_units = f64::NAN; let mut est = f64::NAN;
        if i >= need { let eq = (1..need).all(|j| { let hj = pts[i - j].0 - pts[i - j - 1].0; (hj - h).abs() <= 1e-9 * h.abs().max(1e-300) + 4.0 * 2.2e-16 * t.abs() });
            if eq { match kind {
                0 | 1 => { // adams: kind 0 = Adams5 (AB4/AM4), 1 = Adams3 (AB2/AM2)
                    let f = |j: usize| p.f(pts[i - j].0, pts[i - j].1.as_slice());
                    let (pred, corr) = if kind == 0 { let pr = yp + (f(1) * 55.0 - f(2) * 59.0 + f(3) * 37.0 - f(4) * 9.0) * (h / 24.0); let fp = p.f(t, pr.as_slice()); (pr, yp + (fp * 251.0 + f(1) * 646.0 - f(2) * 264.0 + f(3) * 106.0 - f(4) * 19.0) * (h / 720.0)) } else { let pr = yp + (f(1) * 3.0 - f(2)) * (h / 2.0); let fp = p.f(t, pr.as_slice()); (pr, yp + (fp * 5.0 + f(1) * 8.0 - f(2)) * (h / 12.0)) };
                    let slack = p.l * h * h * tol + 64.0 * 2.2e-16 * (1.0 + y.norm());
                    dev_units = (y - corr).norm() / slack; est = (19.0 / 270.0) * (corr - pred).norm() / h / tol; ms_ok = dev_units <= 100.0; }
                _ => { let (beta, a): (f64, Vec<f64>) = if kind == 2 { (60.0 / 147.0, vec![-360.0 / 147.0, 450.0 / 147.0, -400.0 / 147.0, 225.0 / 147.0, -72.0 / 147.0, 10.0 / 147.0]) } else { (2.0 / 3.0, vec![-4.0 / 3.0, 1.0 / 3.0]) };
                    let mut r = y - p.f(t, y.as_slice()) * (beta * h); for (j, aj) in a.iter().enumerate() { r += pts[i - 1 - j].1 * *aj; }
                    let unit = (1.0 + beta * h * p.l) * tol + 64.0 * 2.2e-16 * (1.0 + y.norm()); dev_units = r.norm() / unit; ms_ok = dev_units <= 4.0; }
            } } }
        if is_rk && !ms_ok { st.rk += 1; st.worst_rk_units = st.worst_rk_units.max(drk); }
        else if ms_ok { st.ms += 1; st.worst_ms_slackunits = st.worst_ms_slackunits.max(dev_units); if est.is_finite() { st.worst_est = st.worst_est.max(est); } }
        else { st.neither += 1; if st.neither <= 3 { println!("{} NEITHER i={} h={:.3e} tol={:.1e} drk={:.3e} dev_units={:.3e}", name, i, h, tol, drk, dev_units); } }
    }
}
fn main() {
    let seed: u64 = std::env::args().nth(1).map(|s| s.parse().unwrap()).unwrap_or(1);
    let n: usize = std::env::args().nth(2).map(|s| s.parse().unwrap()).unwrap_or(200);
    let mut rng = Rng(seed);
    let mut st: Vec<St> = (0..4).map(|_| St::default()).collect();
    for _ in 0..n {
        let p = Prob::gen(&mut rng);
        let tol = 10f64.powf(rng.r(-10.0, -6.0));
        let t0 = rng.r(-2.0, 2.0); let y0 = V::new(rng.r(-1.0, 1.0), rng.r(-1.0, 1.0));
        for k in 0..4 {
            let hi = k == 0 || k == 2;
            let cap = if hi { 2.0 * tol.powf(0.2) } else { tol.powf(1.0 / 3.0) };
            let dtmax = cap / p.l * rng.r(0.5, 1.0); let t1 = t0 + dtmax * 10f64.powf(rng.r(0.3, 2.0)); let dtmin = dtmax * 1e-7;
            match k {
                0 => { let r = run!(Adams5, p, t0, t1, y0, dtmin, dtmax, tol); analyse7("Adams5", &mut st[0], &p, t0, y0, tol, 0, 4, r.0); }
                1 => { let r = run!(Adams3, p, t0, t1, y0, dtmin, dtmax, tol); analyse7("Adams3", &mut st[1], &p, t0, y0, tol, 1, 2, r.0); }
                2 => { let r = run!(BDF6, p, t0, t1, y0, dtmin, dtmax, tol); analyse7("BDF6", &mut st[2], &p, t0, y0, tol, 2, 6, r.0); }
                _ => { let r = run!(BDF2, p, t0, t1, y0, dtmin, dtmax, tol); analyse7("BDF2", &mut st[3], &p, t0, y0, tol, 3, 2, r.0); }
            }
        }
    }
    for (k, name) in ["Adams5", "Adams3", "BDF6", "BDF2"].iter().enumerate() { println!("{:7} {:?}", name, st[k]); }
}
