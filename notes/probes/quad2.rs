#[path = "/repo/src/integrate/tables.rs"]
#[allow(dead_code)]
mod tables;
use bacon_sci::integrate::*;
use std::cell::RefCell;
fn hashf(x: f64) -> f64 { let mut z = x.to_bits().wrapping_mul(0x9E3779B97F4A7C15); z ^= z >> 29; z = z.wrapping_mul(0xBF58476D1CE4E5B9); z ^= z >> 32; (z >> 11) as f64 / (1u64 << 53) as f64 * 2.0 - 1.0 }
fn main() {
    // walk: never converging integrand
    let log = RefCell::new(Vec::<f64>::new());
    let r = integrate_hermite(|x: f64| { log.borrow_mut().push(x); hashf(x) * 1e3 }, 1e-9);
    let l = log.borrow();
    let expect: Vec<f64> = tables::WEIGHTS_HERMITE.iter().flat_map(|row| row.iter().flat_map(|(x, _)| if *x == 0.0 { vec![0.0] } else { vec![*x, -*x] })).collect();
    println!("hermite walk: result {:?}, calls {}, expected {}, identical sequence: {}", r.map_err(|e| e.len()), l.len(), expect.len(), *l == expect);
    drop(l); log.borrow_mut().clear();
    let r = integrate_laguerre(|x: f64| { log.borrow_mut().push(x); hashf(x) * 1e3 }, 1e-9);
    let l = log.borrow();
    let expect: Vec<f64> = tables::WEIGHTS_LAGUERRE.iter().flat_map(|row| row.iter().map(|(x, _)| *x)).collect();
    println!("laguerre walk: result {:?}, calls {}, identical sequence: {}", r.map_err(|e| e.len()), l.len(), *l == expect);
    drop(l); log.borrow_mut().clear();
    let r = integrate_chebyshev(|x: f64| { log.borrow_mut().push(x); hashf(x) * 1e3 }, 1e-9);
    println!("cheb walk: result {:?}, calls {} expected {}", r.map_err(|e| e.len()), log.borrow().len(), 100 * 101 / 2);
    log.borrow_mut().clear();
    let r = integrate_gaussian(-1.0, 1.0, |x: f64| { log.borrow_mut().push(x); hashf(x) * 1e3 }, 1e-9);
    println!("legendre walk: result {:?}, calls {} expected {}", r.map_err(|e| e.len()), log.borrow().len(), 12 * 13 / 2);
    // accuracy of weighted integrators on entire functions
    let sp = std::f64::consts::PI.sqrt();
    for tol in [1e-4, 1e-8, 1e-11] {
        for k in [0.1, 0.3, 0.5, 1.0, 2.0] {
            let lg = integrate_laguerre(|x: f64| (-k * x).exp() , tol).map(|v| (v - 1.0 / (1.0 + k)).abs() / tol); // int e^-x e^-kx
            let lg2 = integrate_laguerre(|x: f64| (k * x).sin(), tol).map(|v| (v - k / (1.0 + k * k)).abs() / tol);
            let he = integrate_hermite(|x: f64| (k * x).exp(), tol).map(|v| (v - sp * (k * k / 4.0).exp()).abs() / tol);
            let he2 = integrate_hermite(|x: f64| (k * x).cos(), tol).map(|v| (v - sp * (-k * k / 4.0).exp()).abs() / tol);
            println!("tol {:e} k {}: laguerre exp {:?} sin {:?} | hermite exp {:?} cos {:?}", tol, k, lg.map_err(|_| "Err"), lg2.map_err(|_| "Err"), he.map_err(|_| "Err"), he2.map_err(|_| "Err"));
        }
    }
}
