// C01 boundary sweep prototype
use bacon_sci::ivp::{adams::*, bdf::*, rk::*, Euler, IVPSolver, IVPError, UserError};
use bacon_sci::BSVector;
type V = BSVector<f64, 2>;
fn f(t: f64, y: &[f64]) -> V { V::new(-0.4 * y[0] + 1.1 * y[1] + 0.3 * (0.9 * t).cos(), -1.1 * y[0] - 0.2 * y[1] + 0.2 * y[0].sin()) }
fn nextup(x: f64, k: i64) -> f64 { f64::from_bits((x.to_bits() as i64 + k) as u64) }
fn main() {
    let mut total = 0usize; let mut bad = 0usize; let mut empty_ok = 0usize;
    let mut shown = std::collections::BTreeMap::<String, usize>::new();
    for &tol in &[1e-3, 1e-6, 1e-9] { for &dtmax in &[0.1, 0.013, 0.37] { for &t0 in &[0.0, -1.7, 3.3] {
        let dtmin = dtmax * 1e-7; let dt0 = (dtmax + dtmin) / 2.0;
        for m in 0..=16 { for &delta in &[0.0, 1e-12, -1e-12, 1e-6, -1e-6, 0.01, -0.01, 0.3, -0.3, 0.5] { for ulp in [-1i64, 0, 1] {
            let mut tt = (m as f64 + delta) * dt0; if tt <= 0.0 { continue; }
            tt = nextup(tt, ulp);
            let t1 = t0 + tt; if !(t1 > t0) { continue; }
            macro_rules! go { ($name:expr, $ty:ident, $euler:expr) => {{
                let d = |t: f64, y: &[f64], _: &mut ()| -> Result<V, UserError> { Ok(f(t, y)) };
                let r = (|| -> Result<_, IVPError> { $ty::new()?.with_minimum_dt(dtmin)?.with_maximum_dt(dtmax)?.with_tolerance(tol)?.with_initial_time(t0)?.with_ending_time(t1)?.with_initial_conditions_slice(&[1.0, 0.5])?.with_derivative(d).solve(())?.collect_vec() })();
                total += 1;
                let mut why = String::new();
                match r { Err(e) => { why = format!("Err {:?}", e); }
                  Ok(p) => {
                    if p.is_empty() { why = "empty".into(); empty_ok += 1; }
                    let mut prev = t0; let first = true;
                    for (i, (t, y)) in p.iter().enumerate() {
                        let start_ok = $euler && i == 0 && *t == t0;
                        if !start_ok && !(*t > prev) { why = format!("non-increasing at {}", i); }
                        if *t > t1 || *t < t0 { why = format!("outside at {} t={} t1={}", i, t, t1); }
                        if *t - prev > dtmax * (1.0 + 1e-12) { why = format!("gap {} at {}", *t - prev, i); }
                        if !y.iter().all(|v| v.is_finite()) { why = "nonfinite".into(); }
                        prev = *t;
                    }
                    let _ = first;
                    if !$euler && p.last().map(|x| x.0) != Some(t1) { why = format!("last {:?} != {}", p.last().map(|x| x.0), t1); }
                  } }
                if !why.is_empty() { bad += 1; let k = format!("{}: {}", $name, why.split(' ').next().unwrap()); let c = shown.entry(k).or_insert(0); *c += 1; if *c <= 2 { println!("{} tol {:e} dtmax {} t0 {} T {:e} (m={} delta={} ulp={}): {}", $name, tol, dtmax, t0, tt, m, delta, ulp, why); } }
            }}; }
            go!("RK45", RungeKutta45, false); go!("RK23", RungeKutta23, false); go!("Adams5", Adams5, false); go!("Adams3", Adams3, false); go!("BDF6", BDF6, false); go!("BDF2", BDF2, false); go!("Euler", Euler, true);
        } } }
    } } }
    println!("total {} bad {} empty {} ; kinds {:?}", total, bad, empty_ok, shown);
}
