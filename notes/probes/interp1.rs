use bacon_sci::interp::*;
use bacon_sci::polynomial::Polynomial;
use nalgebra::DMatrix;
struct Rng(u64);
impl Rng { fn next(&mut self) -> u64 { self.0 = self.0.wrapping_add(0x9E3779B97F4A7C15); let mut z = self.0; z = (z ^ (z >> 30)).wrapping_mul(0xBF58476D1CE4E5B9); z = (z ^ (z >> 27)).wrapping_mul(0x94D049BB133111EB); z ^ (z >> 31) }
  fn f(&mut self) -> f64 { (self.next() >> 11) as f64 / (1u64 << 53) as f64 }
  fn r(&mut self, a: f64, b: f64) -> f64 { a + (b - a) * self.f() } }
fn main() {
    let mut rng = Rng(21); let mut w = [0.0f64; 4]; let mut maxk = 0.0f64; let mut degbad = 0;
    for _ in 0..5000 {
        let nn = 1 + (rng.next() % 8) as usize;
        let mut xs: Vec<f64> = vec![]; while xs.len() < nn { let x = rng.r(-2.0, 2.0); if xs.iter().all(|y| (y - x).abs() >= 0.2) { xs.push(x); } }
        let tolz = 10f64.powf(rng.r(-14.0, -6.0));
        // Lagrange
        let c: Vec<f64> = (0..nn).map(|_| rng.r(-1.0, 1.0)).collect(); // ascending coefficients of degree nn-1
        let q: Polynomial<f64> = c.iter().cloned().collect();
        let ys: Vec<f64> = xs.iter().map(|x| q.evaluate(*x)).collect();
        let v = DMatrix::<f64>::from_fn(nn, nn, |i, j| xs[i].powi(j as i32));
        let sv = v.clone().svd(false, false).singular_values; let kappa = sv.max() / sv.min(); maxk = maxk.max(kappa);
        let l = lagrange(&xs, &ys, tolz).unwrap(); if l.order() > nn - 1 { degbad += 1; }
        let cn = c.iter().map(|x| x.abs()).fold(0.0, f64::max);
        for k in 0..nn { w[0] = w[0].max(((l.get_coefficient(k) - c[k]).abs() - tolz).max(0.0) / (2.2e-16 * kappa * cn)); }
        let ymax = ys.iter().map(|y| y.abs()).fold(0.0, f64::max).max(1e-300);
        for (x, y) in xs.iter().zip(ys.iter()) { let s: f64 = (0..nn).map(|k| x.abs().powi(k as i32)).sum(); w[1] = w[1].max(((l.evaluate(*x) - y).abs() - tolz * s).max(0.0) / (2.2e-16 * kappa * ymax)); }
        // Hermite: degree 2nn-1
        let c2: Vec<f64> = (0..2 * nn).map(|_| rng.r(-1.0, 1.0)).collect(); let q2: Polynomial<f64> = c2.iter().cloned().collect();
        let ys2: Vec<f64> = xs.iter().map(|x| q2.evaluate(*x)).collect(); let ds: Vec<f64> = xs.iter().map(|x| q2.evaluate_derivative(*x).1).collect();
        let m = 2 * nn; let vh = DMatrix::<f64>::from_fn(m, m, |i, j| { let x = xs[i / 2]; if i % 2 == 0 { x.powi(j as i32) } else if j == 0 { 0.0 } else { j as f64 * x.powi(j as i32 - 1) } });
        let svh = vh.clone().svd(false, false).singular_values; let kh = svh.max() / svh.min(); maxk = maxk.max(kh);
        let h = hermite(&xs, &ys2, &ds, tolz).unwrap(); if h.order() > m - 1 { degbad += 1; }
        let cn2 = c2.iter().map(|x| x.abs()).fold(0.0, f64::max);
        for k in 0..m { w[2] = w[2].max(((h.get_coefficient(k) - c2[k]).abs() - tolz).max(0.0) / (2.2e-16 * kh * cn2)); }
        let ymax2 = ys2.iter().chain(ds.iter()).map(|y| y.abs()).fold(0.0, f64::max).max(1e-300);
        for i in 0..nn { let (vv, dd) = h.evaluate_derivative(xs[i]); let s: f64 = (0..m).map(|k| (k.max(1) as f64) * xs[i].abs().powi(k as i32 - 1).max(xs[i].abs().powi(k as i32))).sum(); w[3] = w[3].max((((vv - ys2[i]).abs()).max((dd - ds[i]).abs()) - tolz * s).max(0.0) / (2.2e-16 * kh * ymax2)); }
    }
    println!("C15: max kappa {:.2e}; worst (units eps*kappa*scale): lagrange coeff {:.3} node {:.3}; hermite coeff {:.3} node {:.3}; degbad {}", maxk, w[0], w[1], w[2], w[3], degbad);
}
