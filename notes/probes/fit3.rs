use bacon_sci::optimize::*;
use nalgebra::SVector;
use std::cell::Cell;
use std::panic;
struct Rng(u64);
impl Rng { fn next(&mut self) -> u64 { self.0 = self.0.wrapping_add(0x9E3779B97F4A7C15); let mut z = self.0; z = (z ^ (z >> 30)).wrapping_mul(0xBF58476D1CE4E5B9); z = (z ^ (z >> 27)).wrapping_mul(0x94D049BB133111EB); z ^ (z >> 31) }
  fn f(&mut self) -> f64 { (self.next() >> 11) as f64 / (1u64 << 53) as f64 }
  fn r(&mut self, a: f64, b: f64) -> f64 { a + (b - a) * self.f() } }
fn main() {
    panic::set_hook(Box::new(|_| {}));
    let mut rng = Rng(5);
    let mut tally = std::collections::BTreeMap::<String, usize>::new();
    for case in 0..300 {
        let npts = 3 + (rng.next() % 40) as usize;
        let xs: Vec<f64> = (0..npts).map(|_| rng.r(-2.0, 2.0)).collect();
        let kind = rng.next() % 3;
        let truth = [rng.r(0.5, 2.0), rng.r(0.2, 1.0)];
        let model = move |x: f64, p: &SVector<f64, 2>| -> f64 { match kind { 0 => p[0] + p[1] * x, 1 => p[0] * (p[1] * x).exp(), _ => p[0] / (1.0 + (-p[1] * x).exp()) } };
        let noise = if rng.next() % 2 == 0 { 0.0 } else { 0.01 };
        let ys: Vec<f64> = xs.iter().map(|&x| model(x, &SVector::<f64, 2>::new(truth[0], truth[1])) + noise * rng.r(-1.0, 1.0)).collect();
        let start = [truth[0] * rng.r(0.8, 1.2), truth[1] * rng.r(0.8, 1.2)];
        let tol = 10f64.powf(rng.r(-12.0, -6.0)); let h = 10f64.powf(rng.r(-5.0, -2.0));
        let prm = CurveFitParams::<f64> { damping: rng.r(0.5, 5.0), tolerance: tol, h, damping_mult: rng.r(1.2, 3.0) };
        let cnt = Cell::new(0usize);
        let m = |x: f64, p: &SVector<f64, 2>| { cnt.set(cnt.get() + 1); if cnt.get() > 300_000 { panic!("budget") }; model(x, p) };
        let fd = panic::catch_unwind(panic::AssertUnwindSafe(|| curve_fit(m, &xs, &ys, &start, &prm)));
        cnt.set(0);
        let jsum = |x: f64, p: &SVector<f64, 2>| -> SVector<f64, 2> { let mut out = SVector::<f64, 2>::zeros(); for c in 0..2 { let mut pp = *p; pp[c] += h; let a = model(x, &pp); pp[c] -= h; pp[c] -= h; let b = model(x, &pp); out[c] = (a + b) / (2.0 * h); } out };
        let em = panic::catch_unwind(panic::AssertUnwindSafe(|| curve_fit_jac(m, &xs, &ys, &start, jsum, &prm)));
        let ssr = |p: &SVector<f64, 2>| -> f64 { xs.iter().zip(ys.iter()).map(|(x, y)| (y - model(*x, p)).powi(2)).sum() };
        let key = match (&fd, &em) {
            (Err(_), Err(_)) => "both budget".to_string(),
            (Ok(Err(_)), Ok(Err(_))) => "both Err".to_string(),
            (Ok(Ok(a)), Ok(Ok(b))) => { if (a - b).norm() <= 1e-9 * (1.0 + a.norm()) { "same params".to_string() } else { format!("different params") } }
            (Ok(Err(_)), _) => "fd Err, emu other".to_string(),
            (Err(_), _) => "fd budget, emu other".to_string(),
            (Ok(Ok(_)), _) => "fd Ok, emu other".to_string(),
        };
        *tally.entry(key).or_insert(0) += 1;
        // harness optimum by Gauss-Newton from truth
        let mut popt = SVector::<f64, 2>::new(truth[0], truth[1]);
        for _ in 0..50 { let mut jtj = nalgebra::SMatrix::<f64, 2, 2>::zeros(); let mut jtr = SVector::<f64, 2>::zeros(); for (x, y) in xs.iter().zip(ys.iter()) { let mut g = SVector::<f64, 2>::zeros(); for c in 0..2 { let mut pp = popt; let hh = 1e-6; pp[c] += hh; let a = model(*x, &pp); pp[c] -= 2.0 * hh; let b = model(*x, &pp); g[c] = (a - b) / (2.0 * hh); } jtj += g * g.transpose(); jtr += g * (y - model(*x, &popt)); } if let Some(d) = jtj.lu().solve(&jtr) { popt += d; if d.norm() < 1e-14 { break; } } else { break; } }
        let sopt = ssr(&popt);
        for (nm, r) in [("fd", &fd)] { match r { Ok(Ok(a)) => { let ex = (ssr(a) - sopt) / tol; let e = tally.entry(format!("{} max (SSR-SSR*)/tol x1000", nm)).or_insert(0); let v = (ex.max(0.0) * 1000.0) as usize; if v > *e { *e = v; } } Ok(Err(_)) => { *tally.entry(format!("{} Err", nm)).or_insert(0) += 1; } Err(_) => { *tally.entry(format!("{} budget", nm)).or_insert(0) += 1; } } }
        cnt.set(0);
        let jtrue = |x: f64, p: &SVector<f64, 2>| -> SVector<f64, 2> { let mut out = SVector::<f64, 2>::zeros(); for c in 0..2 { let mut pp = *p; let hh = 1e-6; pp[c] += hh; let a = model(x, &pp); pp[c] -= 2.0 * hh; let b = model(x, &pp); out[c] = (a - b) / (2.0 * hh); } out };
        let ja = panic::catch_unwind(panic::AssertUnwindSafe(|| curve_fit_jac(m, &xs, &ys, &start, jtrue, &prm)));
        let e = tally.entry("jac max calls".to_string()).or_insert(0); if cnt.get() > *e { *e = cnt.get(); }
        match &ja { Ok(Ok(a)) => { let ex = (ssr(a) - sopt) / tol; let e = tally.entry("jac max (SSR-SSR*)/tol x1000".to_string()).or_insert(0); let v = (ex.max(0.0) * 1000.0) as usize; if v > *e { *e = v; } } Ok(Err(_)) => { *tally.entry("jac Err".to_string()).or_insert(0) += 1; } Err(_) => { *tally.entry("jac budget".to_string()).or_insert(0) += 1; } }
        let _ = case;
    }
    println!("{:#?}", tally);
}
