use bacon_sci::interp::*;
use nalgebra::{DMatrix, DVector};
struct Rng(u64);
impl Rng { fn next(&mut self) -> u64 { self.0 = self.0.wrapping_add(0x9E3779B97F4A7C15); let mut z = self.0; z = (z ^ (z >> 30)).wrapping_mul(0xBF58476D1CE4E5B9); z = (z ^ (z >> 27)).wrapping_mul(0x94D049BB133111EB); z ^ (z >> 31) }
  fn f(&mut self) -> f64 { (self.next() >> 11) as f64 / (1u64 << 53) as f64 }
  fn r(&mut self, a: f64, b: f64) -> f64 { a + (b - a) * self.f() } }
// reference: solve for second-derivative coefficients c_i (S'' = 2 c_i at knot i)
fn reference(xs: &[f64], ys: &[f64], clamp: Option<(f64, f64)>) -> Vec<[f64; 4]> {
    let n = xs.len(); let h: Vec<f64> = (0..n - 1).map(|i| xs[i + 1] - xs[i]).collect();
    let mut a = DMatrix::<f64>::zeros(n, n); let mut rhs = DVector::<f64>::zeros(n);
    for i in 1..n - 1 { a[(i, i - 1)] = h[i - 1]; a[(i, i)] = 2.0 * (h[i - 1] + h[i]); a[(i, i + 1)] = h[i]; rhs[i] = 3.0 * ((ys[i + 1] - ys[i]) / h[i] - (ys[i] - ys[i - 1]) / h[i - 1]); }
    match clamp { None => { a[(0, 0)] = 1.0; a[(n - 1, n - 1)] = 1.0; }
        Some((f0, fnn)) => { a[(0, 0)] = 2.0 * h[0]; a[(0, 1)] = h[0]; rhs[0] = 3.0 * ((ys[1] - ys[0]) / h[0] - f0); a[(n - 1, n - 2)] = h[n - 2]; a[(n - 1, n - 1)] = 2.0 * h[n - 2]; rhs[n - 1] = 3.0 * (fnn - (ys[n - 1] - ys[n - 2]) / h[n - 2]); } }
    let c = a.lu().solve(&rhs).unwrap();
    (0..n - 1).map(|i| { let b = (ys[i + 1] - ys[i]) / h[i] - h[i] * (c[i + 1] + 2.0 * c[i]) / 3.0; let d = (c[i + 1] - c[i]) / (3.0 * h[i]); [ys[i], b, c[i], d] }).collect()
}
fn main() {
    let mut rng = Rng(11); let mut worst_v = 0.0f64; let mut worst_d = 0.0f64; let mut n_eval = 0usize;
    for case in 0..3000 {
        let nn = 2 + (rng.next() % 39) as usize;
        let mut xs = vec![rng.r(-10.0, 5.0)]; let hmin = rng.r(0.02, 0.3); for _ in 1..nn { let e = rng.f(); let h = hmin * rng.r(1.0, 50.0f64.powf(e)); xs.push(xs.last().unwrap() + h); }
        let scale = 20.0 / (xs[nn - 1] - xs[0]).max(20.0); if scale < 1.0 { let x0 = xs[0]; for x in xs.iter_mut() { *x = x0 + (*x - x0) * scale; } }
        let ys: Vec<f64> = (0..nn).map(|_| rng.r(-1.0, 1.0)).collect();
        let clamp = if case % 2 == 0 { None } else { Some((rng.r(-1.0, 1.0), rng.r(-1.0, 1.0))) };
        let s = match clamp { None => spline_free(&xs, &ys, 1e-12).unwrap(), Some(c) => spline_clamped(&xs, &ys, c, 1e-12).unwrap() };
        let rf = reference(&xs, &ys, clamp);
        for i in 0..nn - 1 { let [a, b, c, d] = rf[i]; let xi = xs[i];
            for k in 0..=9 { let x = if k == 0 { xs[i] } else if k == 9 { xs[i + 1] } else { xs[i] + (xs[i + 1] - xs[i]) * k as f64 / 9.0 };
                // avoid ambiguity at interior knots: evaluate() picks the first matching piece; at x = xs[i] with i>0 that is piece i-1
                if k == 0 && i > 0 { continue; }
                let t = x - xi; let rv = a + t * (b + t * (c + t * d)); let rd = b + t * (2.0 * c + 3.0 * d * t);
                let (v, dv) = s.evaluate_derivative(x).unwrap();
                let u = x.abs() + xi.abs(); let m = a.abs() + b.abs() * u + c.abs() * u * u + d.abs() * u * u * u; let md = b.abs() + 2.0 * c.abs() * u + 3.0 * d.abs() * u * u;
                worst_v = worst_v.max((v - rv).abs() / (2.2e-16 * m)); worst_d = worst_d.max((dv - rd).abs() / (2.2e-16 * md)); n_eval += 1; } }
    }
    println!("spline: {} evaluations, worst value err {:.2} eps*M, worst derivative err {:.2} eps*M'", n_eval, worst_v, worst_d);
}
