use bacon_sci::optimize::*;
use nalgebra::SVector;
fn gaussian(x: f64, params: &SVector<f64, 2>) -> f64 { (-0.5 * ((x - params[0]) / params[1]).powi(2)).exp() / (params[1] * (2.0 * std::f64::consts::PI).sqrt()) }
fn main() {
    let xs: Vec<f64> = (-50..=50).map(|x| x as f64 / 50.0).collect();
    let ys: Vec<f64> = xs.iter().map(|&x| gaussian(x, &SVector::<f64, 2>::from_column_slice(&[5.0, 0.5]))).collect();
    let params = CurveFitParams::<f64> { tolerance: 1e-7, ..Default::default() };
    println!("{:?}", curve_fit(gaussian, &xs, &ys, &[5.5, 1.0], &params));
}
