use bacon_sci::polynomial::Polynomial;
use bacon_sci::integrate::*;
use bacon_sci::differentiate::*;
use num_complex::Complex;
type C = Complex<f64>;
struct Rng(u64);
impl Rng { fn next(&mut self) -> u64 { self.0 = self.0.wrapping_add(0x9E3779B97F4A7C15); let mut z = self.0; z = (z ^ (z >> 30)).wrapping_mul(0xBF58476D1CE4E5B9); z = (z ^ (z >> 27)).wrapping_mul(0x94D049BB133111EB); z ^ (z >> 31) }
  fn f(&mut self) -> f64 { (self.next() >> 11) as f64 / (1u64 << 53) as f64 }
  fn r(&mut self, a: f64, b: f64) -> f64 { a + (b - a) * self.f() } }
const EPS: f64 = 2.220446049250313e-16;
fn main() {
    let mut rng = Rng(5);
    // ---- C09 Simpson on polynomials deg <= 5, Romberg exactness
    let (mut ws, mut wr, mut serr) = (0.0f64, 0.0f64, 0);
    for _ in 0..4000 {
        let deg = (rng.next() % 6) as usize; let c: Vec<f64> = (0..=deg).map(|_| rng.r(-1.0, 1.0)).collect(); let p: Polynomial<f64> = c.iter().cloned().collect();
        let len = rng.r(0.05, 4.0); let a = rng.r(-5.0, 5.0 - len); let b = a + len; let tol = 10f64.powf(rng.r(-11.0, -3.0));
        let exact = p.integrate(a, b); let x = a.abs().max(b.abs()); let pt: f64 = c.iter().enumerate().map(|(k, v)| v.abs() * x.powi(k as i32)).sum();
        match integrate_simpson(a, b, |t| p.evaluate(t), tol, 60) { Ok(v) => { ws = ws.max(((v - exact).abs() - 64.0 * EPS * pt * len).max(0.0) / tol); } Err(_) => serr += 1 }
        let n = 1 + (rng.next() % 8) as usize; let dg = (rng.next() as usize) % (2 * n); let c2: Vec<f64> = (0..=dg).map(|_| rng.r(-1.0, 1.0)).collect(); let p2: Polynomial<f64> = c2.iter().cloned().collect();
        let pt2: f64 = c2.iter().enumerate().map(|(k, v)| v.abs() * x.powi(k as i32)).sum();
        let v = integrate_fixed(a, b, |t| p2.evaluate(t), n).unwrap(); wr = wr.max((v - p2.integrate(a, b)).abs() / (EPS * pt2 * len * n as f64));
    }
    println!("C09 simpson on deg<=5 polys: worst (err-floor)/tol {:.3} (Err {}); romberg worst err/(eps*n*p~*len) {:.2}", ws, serr, wr);
    // tanh-sinh tight tolerances
    let mut wt = [0.0f64; 2]; let mut terr = 0;
    for _ in 0..4000 { let len = rng.r(0.05, 4.0); let a = rng.r(-5.0, 5.0 - len); let b = a + len; let k = rng.r(0.2, 1.0); let w = rng.r(0.3, 3.0); let ph = rng.r(0.0, 6.28); let (c0, c1) = (rng.r(-1.0, 1.0), rng.r(-1.0, 1.0));
        let f = |x: f64| c0 * (k * x).exp() + c1 * (w * x + ph).sin(); let anti = |x: f64| c0 / k * (k * x).exp() - c1 / w * (w * x + ph).cos(); let exact = anti(b) - anti(a);
        let tol = 10f64.powf(rng.r(-11.0, -8.0)); let mag = (c0.abs() * (k * 5.0).exp() + c1.abs()) * len;
        match integrate(a, b, f, tol) { Ok(v) => { let e = ((v - exact).abs() - 64.0 * EPS * mag).max(0.0); wt[0] = wt[0].max(e / tol); wt[1] = wt[1].max(e / tol.sqrt()); } Err(_) => terr += 1 } }
    println!("C09 tanh-sinh tol in [1e-14,1e-8]: worst err/tol {:.3e}, worst err/sqrt(tol) {:.3e}, Err {}", wt[0], wt[1], terr);
    // ---- C11 dft / idft
    let (mut wd, mut wi) = (0.0f64, 0.0f64);
    for _ in 0..500 { let n = 1 + (rng.next() % 300) as usize; let c: Vec<C> = (0..n).map(|_| C::new(rng.r(-1.0, 1.0), rng.r(-1.0, 1.0))).collect(); let p: Polynomial<C> = c.iter().cloned().collect();
        let size = n + (rng.next() % 200) as usize; let d = p.dft(size); let nn = d.len(); let l1: f64 = c.iter().map(|x| x.norm()).sum();
        for k in (0..nn).step_by((nn / 16).max(1)) { let w = C::from_polar(1.0, 2.0 * std::f64::consts::PI * k as f64 / nn as f64); let mut acc = C::new(0.0, 0.0); for x in c.iter().rev() { acc = acc * w + x; } wd = wd.max((d[k] - acc).norm() / (EPS * (nn as f64).log2().max(1.0) * l1)); }
        let back = Polynomial::<C>::idft(&d, 1e-300); for k in 0..n { wi = wi.max((back.get_coefficient(k) - c[k]).norm() / (EPS * (nn as f64).log2().max(1.0) * l1)); } }
    println!("C11 dft vs Horner worst {:.2} (units eps log2N |c|_1); idft(dft) roundtrip worst {:.2}", wd, wi);
    // ---- C13 evaluate / derivative / integrate additivity
    let (mut we, mut wdv, mut wa) = (0.0f64, 0.0f64, 0.0f64);
    for _ in 0..5000 { let deg = (rng.next() % 31) as usize; let c: Vec<C> = (0..=deg).map(|_| C::new(rng.r(-1.0, 1.0), rng.r(-1.0, 1.0))).collect(); let p: Polynomial<C> = c.iter().cloned().collect();
        let x = C::from_polar(2.0 * rng.f().sqrt(), rng.r(0.0, 6.28)); let ax = x.norm();
        // reference via explicit powers (different order of operations)
        let mut pw = C::new(1.0, 0.0); let mut v = C::new(0.0, 0.0); let mut dv = C::new(0.0, 0.0); let mut ppw = C::new(0.0, 0.0); for (k, ck) in c.iter().enumerate() { v += ck * pw; if k > 0 { dv += ck * ppw * k as f64; } ppw = pw; pw *= x; }
        let pt: f64 = c.iter().enumerate().map(|(k, ck)| ck.norm() * ax.powi(k as i32)).sum(); let dpt: f64 = c.iter().enumerate().skip(1).map(|(k, ck)| k as f64 * ck.norm() * ax.powi(k as i32 - 1)).sum();
        we = we.max((p.evaluate(x) - v).norm() / (EPS * (deg as f64 + 1.0) * pt)); let (_, d1) = p.evaluate_derivative(x); let d2 = p.derivative().evaluate(x);
        if deg > 0 { wdv = wdv.max((d1 - dv).norm().max((d2 - dv).norm()) / (EPS * (deg as f64 + 1.0) * dpt.max(1e-300))); }
        let (a, b, cc) = (C::new(rng.r(-2.0, 0.0), 0.0), C::new(rng.r(-0.5, 0.5), 0.0), C::new(rng.r(0.0, 2.0), 0.0)); let apt: f64 = c.iter().enumerate().map(|(k, ck)| ck.norm() / (k as f64 + 1.0) * 2f64.powi(k as i32 + 1)).sum();
        wa = wa.max((p.integrate(a, b) + p.integrate(b, cc) - p.integrate(a, cc)).norm() / (EPS * (deg as f64 + 2.0) * apt)); }
    println!("C13 evaluate worst {:.2}, derivative worst {:.2}, additivity worst {:.2} (units eps*(n+1)*cond-sum)", we, wdv, wa);
    // ---- C19 leading error term
    let (mut w5, mut w4) = (0.0f64, 0.0f64);
    for _ in 0..5000 { let c: Vec<f64> = (0..7).map(|_| rng.r(-1.0, 1.0)).collect(); let p: Polynomial<f64> = c.iter().cloned().collect(); let x = rng.r(-3.0, 3.0); let h = 10f64.powf(rng.r(-3.0, -0.3));
        let d = derivative(|t| p.evaluate(t), x, h); let p1 = p.derivative(); let p5 = p1.derivative().derivative().derivative().derivative(); let pt: f64 = c.iter().enumerate().map(|(k, v)| v.abs() * (x.abs() + 2.0 * h).powi(k as i32)).sum();
        let pred = p1.evaluate(x) - h.powi(4) * p5.evaluate(x) / 30.0; w5 = w5.max((d - pred).abs() / (EPS * pt / h));
        let c4: Vec<f64> = (0..6).map(|_| rng.r(-1.0, 1.0)).collect(); let q: Polynomial<f64> = c4.iter().cloned().collect(); let q2 = q.derivative().derivative(); let q4 = q2.derivative().derivative(); let qt: f64 = c4.iter().enumerate().map(|(k, v)| v.abs() * (x.abs() + h).powi(k as i32)).sum();
        let d2 = second_derivative(|t| q.evaluate(t), x, h); let pred2 = q2.evaluate(x) + h * h * q4.evaluate(x) / 12.0; w4 = w4.max((d2 - pred2).abs() / (EPS * qt / (h * h))); }
    println!("C19 degree-6 first-derivative vs f' - h^4 f5/30: worst {:.2} (units eps p~/h); degree-5 second derivative vs f'' + h^2 f4/12: worst {:.2} (units eps p~/h^2)", w5, w4);
}
