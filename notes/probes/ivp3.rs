use bacon_sci::ivp::{adams::*, bdf::*, rk::*, Euler, IVPSolver, IVPError, UserError};
use bacon_sci::{BSVector, BVector};
use nalgebra::{Dyn, U1, Const, Dim};
use num_complex::Complex;
type C = Complex<f64>;
macro_rules! go { ($name:expr, $ty:ident) => {{
    let lam = C::new(-0.3, 2.0);
    let fc = move |_t: f64, y: &[C], _: &mut ()| -> Result<BSVector<C, 1>, UserError> { Ok(BSVector::<C,1>::new(lam * y[0])) };
    let fr = move |_t: f64, y: &[f64], _: &mut ()| -> Result<BSVector<f64, 2>, UserError> { Ok(BSVector::<f64,2>::new(-0.3*y[0] - 2.0*y[1], 2.0*y[0] - 0.3*y[1])) };
    let fd = move |_t: f64, y: &[f64], _: &mut ()| -> Result<BVector<f64, Dyn>, UserError> { Ok(BVector::<f64, Dyn>::from_column_slice_generic(Dyn::from_usize(2), U1::from_usize(1), &[-0.3*y[0] - 2.0*y[1], 2.0*y[0] - 0.3*y[1]])) };
    let pc = (|| -> Result<_, IVPError> { $ty::new()?.with_minimum_dt(1e-8)?.with_maximum_dt(0.05)?.with_tolerance(1e-7)?.with_initial_time(0.0)?.with_ending_time(3.0)?.with_initial_conditions_slice(&[C::new(1.0, 0.5)])?.with_derivative(fc).solve(())?.collect_vec() })();
    let pr = (|| -> Result<_, IVPError> { $ty::new()?.with_minimum_dt(1e-8)?.with_maximum_dt(0.05)?.with_tolerance(1e-7)?.with_initial_time(0.0)?.with_ending_time(3.0)?.with_initial_conditions_slice(&[1.0, 0.5])?.with_derivative(fr).solve(())?.collect_vec() })();
    let pd = (|| -> Result<_, IVPError> { $ty::new_dyn(2)?.with_minimum_dt(1e-8)?.with_maximum_dt(0.05)?.with_tolerance(1e-7)?.with_initial_time(0.0)?.with_ending_time(3.0)?.with_initial_conditions_slice(&[1.0, 0.5])?.with_derivative(fd).solve(())?.collect_vec() })();
    match (pc, pr, pd) { (Ok(pc), Ok(pr), Ok(pd)) => {
        let ec = pc.iter().map(|(t, y)| (y[0] - C::new(1.0,0.5) * (lam * *t).exp()).norm()).fold(0.0, f64::max);
        let er = pr.iter().map(|(t, y)| { let z = C::new(1.0,0.5) * (lam * *t).exp(); ((y[0]-z.re).powi(2) + (y[1]-z.im).powi(2)).sqrt() }).fold(0.0, f64::max);
        let same = pr.len() == pd.len() && pr.iter().zip(pd.iter()).all(|(a, b)| a.0 == b.0 && a.1[0] == b.1[0] && a.1[1] == b.1[1]);
        let samec = pr.len() == pc.len() && pr.iter().zip(pc.iter()).map(|(a, b)| (a.0 - b.0).abs() + (a.1[0] - b.1[0].re).abs() + (a.1[1] - b.1[0].im).abs()).fold(0.0, f64::max) < 1e-12;
        println!("{:7} complex n={} maxerr {:.3e} | real n={} maxerr {:.3e} | dyn identical to static: {} | complex path == real path: {}", $name, pc.len(), ec, pr.len(), er, same, samec);
    } (a, b, c) => println!("{:7} ERR complex {:?} real {:?} dyn {:?}", $name, a.err(), b.err(), c.err()) }
}}; }
fn main() {
    go!("RK45", RungeKutta45); go!("RK23", RungeKutta23); go!("Adams5", Adams5); go!("Adams3", Adams3); go!("BDF6", BDF6); go!("BDF2", BDF2); go!("Euler", Euler);
    let _ = Const::<1>::from_usize(1);
}
