use bacon_sci::integrate::*;
use std::cell::Cell;
struct Rng(u64);
impl Rng { fn next(&mut self) -> u64 { self.0 = self.0.wrapping_add(0x9E3779B97F4A7C15); let mut z = self.0; z = (z ^ (z >> 30)).wrapping_mul(0xBF58476D1CE4E5B9); z = (z ^ (z >> 27)).wrapping_mul(0x94D049BB133111EB); z ^ (z >> 31) }
  fn f(&mut self) -> f64 { (self.next() >> 11) as f64 / (1u64 << 53) as f64 }
  fn r(&mut self, a: f64, b: f64) -> f64 { a + (b - a) * self.f() } }
// f(x) = c0 * exp(k x) + c1 sin(w x + p) + poly
#[derive(Debug, Clone)]
struct F { c0: f64, k: f64, c1: f64, w: f64, p: f64, poly: Vec<f64> }
impl F {
  fn eval(&self, x: f64) -> f64 { self.c0 * (self.k * x).exp() + self.c1 * (self.w * x + self.p).sin() + self.poly.iter().rev().fold(0.0, |a, c| a * x + c) }
  fn anti(&self, x: f64) -> f64 { self.c0 / self.k * (self.k * x).exp() - self.c1 / self.w * (self.w * x + self.p).cos() + self.poly.iter().enumerate().rev().fold(0.0, |a, (i, c)| a * x + c / (i as f64 + 1.0)) * x }
}
fn main() {
    let mut rng = Rng(12345);
    let mut worst = [0.0f64; 3]; let mut fails = [0usize; 3]; let mut n = 0;
    let mut evals_s = vec![];
    for _ in 0..4000 {
        let len = rng.r(0.05, 4.0); let a = rng.r(-5.0, 5.0 - len); let b = a + len;
        let deg = (rng.next() % 5) as usize;
        let f = F { c0: rng.r(-1.0, 1.0), k: rng.r(0.2, 1.0) * if rng.next() % 2 == 0 { 1.0 } else { -1.0 }, c1: rng.r(-1.0, 1.0), w: rng.r(0.3, 3.0), p: rng.r(0.0, 6.28), poly: (0..=deg).map(|_| rng.r(-1.0, 1.0)).collect() };
        let exact = f.anti(b) - f.anti(a);
        let tol = 10f64.powf(rng.r(-11.0, -3.0));
        n += 1;
        let cnt = Cell::new(0usize);
        let r0 = integrate(a, b, |x| { cnt.set(cnt.get() + 1); f.eval(x) }, tol);
        match r0 { Ok(v) => { let q = (v - exact).abs() / tol; if q > worst[0] { worst[0] = q; if q > 1.0 { println!("tanhsinh ratio {:.3e} tol {:.2e} len {:.2} evals {}", q, tol, len, cnt.get()); } } } Err(_) => { fails[0] += 1; } }
        let r1 = integrate_gaussian(a, b, |x| f.eval(x), tol);
        match r1 { Ok(v) => { let q = (v - exact).abs() / tol; if q > worst[1] { worst[1] = q; if q > 1.0 { println!("gauss ratio {:.3e} tol {:.2e} len {:.2}", q, tol, len); } } } Err(_) => { fails[1] += 1; } }
        cnt.set(0);
        let r2 = integrate_simpson(a, b, |x| { cnt.set(cnt.get() + 1); f.eval(x) }, tol, 60);
        match r2 { Ok(v) => { let q = (v - exact).abs() / tol; evals_s.push((cnt.get() as f64, tol, len)); if q > worst[2] { worst[2] = q; if q > 1.0 { println!("simpson ratio {:.3e} tol {:.2e} len {:.2} evals {}", q, tol, len, cnt.get()); } } } Err(_) => { fails[2] += 1; } }
    }
    println!("n={} worst ratios tanh-sinh {:.3e} gauss {:.3e} simpson {:.3e}; fails {:?}", n, worst[0], worst[1], worst[2], fails);
    let mx = evals_s.iter().map(|(e, t, l)| e / (l * t.powf(-0.25))).fold(0.0, f64::max);
    println!("simpson max evals/(len*tol^-1/4) = {:.3e}; max evals {}", mx, evals_s.iter().map(|x| x.0).fold(0.0, f64::max));
}
