use bacon_sci::integrate::*;
struct Rng(u64);
impl Rng { fn next(&mut self) -> u64 { self.0 = self.0.wrapping_add(0x9E3779B97F4A7C15); let mut z = self.0; z = (z ^ (z >> 30)).wrapping_mul(0xBF58476D1CE4E5B9); z = (z ^ (z >> 27)).wrapping_mul(0x94D049BB133111EB); z ^ (z >> 31) }
  fn f(&mut self) -> f64 { (self.next() >> 11) as f64 / (1u64 << 53) as f64 }
  fn r(&mut self, a: f64, b: f64) -> f64 { a + (b - a) * self.f() } }
#[derive(Debug, Clone)]
struct F { c0: f64, k: f64, c1: f64, w: f64, p: f64, poly: Vec<f64> }
impl F {
  fn eval(&self, x: f64) -> f64 { self.c0 * (self.k * x).exp() + self.c1 * (self.w * x + self.p).sin() + self.poly.iter().rev().fold(0.0, |a, c| a * x + c) }
  fn anti(&self, x: f64) -> f64 { self.c0 / self.k * (self.k * x).exp() - self.c1 / self.w * (self.w * x + self.p).cos() + self.poly.iter().enumerate().rev().fold(0.0, |a, (i, c)| a * x + c / (i as f64 + 1.0)) * x }
  fn dbound(&self, m: usize, lo: f64, hi: f64) -> f64 { let xm = if self.k > 0.0 { hi } else { lo }; let pb = if m > self.poly.len() - 1 { 0.0 } else { f64::INFINITY }; self.c0.abs() * self.k.abs().powi(m as i32) * (self.k * xm).exp() + self.c1.abs() * self.w.abs().powi(m as i32) + pb }
}
fn lnfact(n: usize) -> f64 { (1..=n).map(|i| (i as f64).ln()).sum() }
fn gauss_err_bound(n: usize, len: f64, m2n: f64) -> f64 { // (b-a)^{2n+1} (n!)^4 / ((2n+1) ((2n)!)^3) * M
    ((2 * n + 1) as f64 * len.ln() + 4.0 * lnfact(n) - ((2 * n + 1) as f64).ln() - 3.0 * lnfact(2 * n)).exp() * m2n }
fn main() {
    let mut rng = Rng(99);
    let (mut inclass, mut total, mut worst, mut err_in_class, mut ok_out, mut err_out) = (0, 0, 0.0f64, 0, 0, 0);
    for _ in 0..20000 {
        let len = rng.r(0.05, 4.0); let a = rng.r(-5.0, 5.0 - len); let b = a + len;
        let deg = (rng.next() % 5) as usize;
        let f = F { c0: rng.r(-1.0, 1.0), k: rng.r(0.2, 1.0) * if rng.next() % 2 == 0 { 1.0 } else { -1.0 }, c1: rng.r(-1.0, 1.0), w: rng.r(0.3, 3.0), p: rng.r(0.0, 6.28), poly: (0..=deg).map(|_| rng.r(-1.0, 1.0)).collect() };
        let exact = f.anti(b) - f.anti(a); let tol = 10f64.powf(rng.r(-11.0, -3.0));
        let tol_core = 0.25 * tol / (0.5 * len); // what the core sees, on [-1,1] the integrand is f(scale x + shift): rule error scales the same as on [a,b] / scale
        // errors of n-point rule for integral over [a,b]: E_n; core area = I/scale, so core error = E_n/scale
        let scale = 0.5 * len;
        let e: Vec<f64> = (1..=12).map(|n| gauss_err_bound(n, len, f.dbound(2 * n, a, b)) / scale).collect();
        let mut member = false;
        for n in 1..=10 { if e[n - 1] <= tol_core / 8.0 && (n..12).all(|m| e[m] <= e[m - 1] / 4.0 || e[m] < 1e-300) { member = true; break; } }
        // rounding floor: areas ~ |I|/scale * eps*12 must be < tol_core
        let mag = (0..=20).map(|i| f.eval(a + len * i as f64 / 20.0).abs()).fold(0.0, f64::max) * 2.0;
        if 64.0 * 2.2e-16 * mag > tol_core / 8.0 { member = false; }
        total += 1;
        let r = integrate_gaussian(a, b, |x| f.eval(x), tol);
        if member { inclass += 1; match r { Ok(v) => { worst = worst.max((v - exact).abs() / tol); } Err(_) => { err_in_class += 1; if err_in_class < 4 { println!("in-class Err: len {} tol {:e} k {} w {} e={:?}", len, tol, f.k, f.w, &e[8..12]); } } } }
        else { match r { Ok(_) => ok_out += 1, Err(_) => err_out += 1 } }
    }
    println!("total {} in-class {} (Err in class {}), worst ratio {:.3}; out-of-class Ok {} Err {}", total, inclass, err_in_class, worst, ok_out, err_out);
}
