use bacon_sci::ivp::{adams::*, bdf::*, rk::*, IVPSolver, IVPError, UserError};
use bacon_sci::BSVector;
use std::cell::Cell;
use std::rc::Rc;
type V = BSVector<f64, 2>;
struct Rng(u64);
impl Rng { fn next(&mut self) -> u64 { self.0 = self.0.wrapping_add(0x9E3779B97F4A7C15); let mut z = self.0; z = (z ^ (z >> 30)).wrapping_mul(0xBF58476D1CE4E5B9); z = (z ^ (z >> 27)).wrapping_mul(0x94D049BB133111EB); z ^ (z >> 31) }
  fn f(&mut self) -> f64 { (self.next() >> 11) as f64 / (1u64 << 53) as f64 }
  fn r(&mut self, a: f64, b: f64) -> f64 { a + (b - a) * self.f() } }
#[derive(Clone, Debug)]
struct Prob { a: [[f64; 2]; 2], w: [f64; 2], ph: [f64; 2], nl: [f64; 2], fa: [f64; 2], l: f64 }
impl Prob {
    // y' = A y + nl_i * sin(y_j) + fa_i * cos(w_i t + ph_i)
    fn f(&self, t: f64, y: &[f64]) -> V {
        V::new(self.a[0][0]*y[0] + self.a[0][1]*y[1] + self.nl[0]*y[1].sin() + self.fa[0]*(self.w[0]*t + self.ph[0]).cos(),
               self.a[1][0]*y[0] + self.a[1][1]*y[1] + self.nl[1]*y[0].sin() + self.fa[1]*(self.w[1]*t + self.ph[1]).cos())
    }
    fn gen(rng: &mut Rng) -> Prob {
        let s = rng.r(0.3, 2.0);
        // A = -D + S : dissipative linear part
        let d0 = rng.r(0.0, 1.0) * s; let d1 = rng.r(0.0, 1.0) * s; let sk = rng.r(-1.0, 1.0) * s; let off = rng.r(-0.5, 0.5) * d0.min(d1);
        let a = [[-d0, sk + off], [-sk + off, -d1]];
        let nl = [rng.r(-0.5,0.5)*s, rng.r(-0.5,0.5)*s];
        let l = ((a[0][0].powi(2)+a[0][1].powi(2)+a[1][0].powi(2)+a[1][1].powi(2)).sqrt() + nl[0].abs().max(nl[1].abs())).max(0.2);
        Prob { a, w: [rng.r(0.2,2.0)*s, rng.r(0.2,2.0)*s], ph: [rng.r(0.0,6.28), rng.r(0.0,6.28)], nl, fa: [rng.r(-1.0,1.0), rng.r(-1.0,1.0)], l: l.max(2.0*s) }
    }
}
fn rk4(p: &Prob, t: f64, y: V, h: f64, m: usize) -> V { let hh = h / m as f64; let mut y = y; let mut t = t; for _ in 0..m { let k1 = p.f(t, y.as_slice()); let k2 = p.f(t+hh/2.0, (y + k1*(hh/2.0)).as_slice()); let k3 = p.f(t+hh/2.0, (y + k2*(hh/2.0)).as_slice()); let k4 = p.f(t+hh, (y + k3*hh).as_slice()); y += (k1 + k2*2.0 + k3*2.0 + k4)*(hh/6.0); t += hh; } y }
fn flow(p: &Prob, t: f64, y: V, h: f64) -> (V, f64) { let mut m = ((h * p.l * 20.0).ceil() as usize).max(4); loop { let a = rk4(p, t, y, h, m); let b = rk4(p, t, y, h, 2*m); let r = b + (b - a)/15.0; let e = (b - a).norm()/15.0; if e <= 1e-15 * (1.0 + r.norm()) || m > 4096 { return (r, e); } m *= 2; } }
fn rkf45_ref(p: &Prob, t: f64, y: V, h: f64) -> (V, f64) {
    let k1 = p.f(t, y.as_slice())*h;
    let k2 = p.f(t+h/4.0, (y + k1/4.0).as_slice())*h;
    let k3 = p.f(t+3.0*h/8.0, (y + k1*(3.0/32.0) + k2*(9.0/32.0)).as_slice())*h;
    let k4 = p.f(t+12.0*h/13.0, (y + k1*(1932.0/2197.0) - k2*(7200.0/2197.0) + k3*(7296.0/2197.0)).as_slice())*h;
    let k5 = p.f(t+h, (y + k1*(439.0/216.0) - k2*8.0 + k3*(3680.0/513.0) - k4*(845.0/4104.0)).as_slice())*h;
    let k6 = p.f(t+h/2.0, (y - k1*(8.0/27.0) + k2*2.0 - k3*(3544.0/2565.0) + k4*(1859.0/4104.0) - k5*(11.0/40.0)).as_slice())*h;
    let y4 = y + k1*(25.0/216.0) + k3*(1408.0/2565.0) + k4*(2197.0/4104.0) - k5/5.0;
    let y5 = y + k1*(16.0/135.0) + k3*(6656.0/12825.0) + k4*(28561.0/56430.0) - k5*(9.0/50.0) + k6*(2.0/55.0);
    (y4, (y5 - y4).norm()/h)
}
fn bs23_ref(p: &Prob, t: f64, y: V, h: f64) -> (V, f64) {
    let k1 = p.f(t, y.as_slice())*h;
    let k2 = p.f(t+h/2.0, (y + k1/2.0).as_slice())*h;
    let k3 = p.f(t+3.0*h/4.0, (y + k2*0.75).as_slice())*h;
    let y3 = y + k1*(2.0/9.0) + k2/3.0 + k3*(4.0/9.0);
    let k4 = p.f(t+h, y3.as_slice())*h;
    let y2 = y + k1*(7.0/24.0) + k2/4.0 + k3/3.0 + k4/8.0;
    (y3, (y3 - y2).norm()/h)
}
#[derive(Default, Debug)]
struct Stat { runs: usize, errs: usize, steps: usize, c01: usize, c02max: f64, c03max: f64, c03err: f64, c05max: f64, c05min: f64, refbad: usize }
macro_rules! run {
    ($ty:ident, $p:expr, $t0:expr, $t1:expr, $y0:expr, $dtmin:expr, $dtmax:expr, $tol:expr) => {{
        let cnt = Rc::new(Cell::new(0usize)); let c2 = cnt.clone(); let p2 = $p.clone();
        let deriv = move |t: f64, y: &[f64], _: &mut ()| -> Result<V, UserError> { c2.set(c2.get() + 1); if c2.get() > 2_000_000 { return Err("budget".into()); } Ok(p2.f(t, y)) };
        let r = (|| -> Result<_, IVPError> { $ty::new()?.with_minimum_dt($dtmin)?.with_maximum_dt($dtmax)?.with_tolerance($tol)?.with_initial_time($t0)?.with_ending_time($t1)?.with_initial_conditions($y0)?.with_derivative(deriv).solve(())?.collect_vec() })();
        (r, cnt.get())
    }};
}
fn analyse(name: &str, st: &mut Stat, p: &Prob, t0: f64, t1: f64, y0: V, dtmax: f64, tol: f64, pexp: f64, bdf: bool, res: (Result<Vec<(f64, V)>, IVPError>, usize)) {
    st.runs += 1;
    let (r, evals) = res;
    let path = match r { Ok(p) => p, Err(e) => { st.errs += 1; if st.errs < 4 { println!("{} ERR {:?} tol {:e} dtmax {} T {}", name, e, tol, dtmax, t1 - t0); } return; } };
    let mut prev = (t0, y0); let mut bad = false;
    for (i, (t, y)) in path.iter().enumerate() {
        if !(*t > prev.0) || *t > t1 || (*t - prev.0) > dtmax * (1.0 + 1e-12) || !y.iter().all(|v| v.is_finite()) { bad = true; if st.c01 < 3 { println!("{} C01 viol at i={} t={} prev={} dtmax={} t1={}", name, i, t, prev.0, dtmax, t1); } }
        let h = *t - prev.0;
        if h > 0.0 {
            let (yr, e) = flow(p, prev.0, prev.1, h);
            if e > 1e-13 * (1.0 + yr.norm()) { st.refbad += 1; } else {
                let floor = 64.0 * 2.2e-16 * (y.norm() + 1.0); let le = ((y - yr).norm() - floor).max(0.0); let ratio = if bdf { le / tol } else { le / (tol * h) }; if ratio > 2.0 && st.c02max < ratio { println!("{} C02 ratio {:.3} i={} h={:.3e} tol={:.2e} le={:.3e} |y|={:.2}", name, ratio, i, h, tol, le, y.norm()); }
                if ratio > st.c02max { st.c02max = ratio; }
            }
            if name == "RK45" { let (ys, er) = rkf45_ref(p, prev.0, prev.1, h); let d = (y - ys).norm() / (1e-16 * (1.0 + y.norm())); st.c03max = st.c03max.max(d); st.c03err = st.c03err.max((er - 64.0*2.2e-16*(1.0+y.norm())/h).max(0.0) / tol); }
            if name == "RK23" { let (ys, er) = bs23_ref(p, prev.0, prev.1, h); let d = (y - ys).norm() / (1e-16 * (1.0 + y.norm())); st.c03max = st.c03max.max(d); let q = (er - 64.0*2.2e-16*(1.0+y.norm())/h).max(0.0) / tol; if q > 1.0001 { println!("RK23 c03err {:.4} i={} h={:.3e} tol={:.2e} er={:.3e}", q, i, h, tol, er); } st.c03err = st.c03err.max(q); }
        }
        prev = (*t, *y); st.steps += 1;
    }
    if path.last().map(|x| x.0) != Some(t1) { bad = true; if st.c01 < 3 { println!("{} C01 last {:?} != {}", name, path.last().map(|x| x.0), t1); } }
    if bad { st.c01 += 1; }
    let w = evals as f64 / ((t1 - t0) * p.l * tol.powf(-1.0 / pexp) + (t1 - t0) / dtmax + 1.0);
    st.c05max = st.c05max.max(w); if st.c05min == 0.0 || w < st.c05min { st.c05min = w; }
}
fn main() {
    let seed: u64 = std::env::args().nth(1).map(|s| s.parse().unwrap()).unwrap_or(1);
    let n: usize = std::env::args().nth(2).map(|s| s.parse().unwrap()).unwrap_or(200);
    let mut rng = Rng(seed);
    let mut st: Vec<Stat> = (0..6).map(|_| Stat::default()).collect();
    for _ in 0..n {
        let p = Prob::gen(&mut rng);
        let tol = 10f64.powf(rng.r(-10.0, -9.0));
        let t0 = rng.r(-2.0, 2.0);
        let y0 = V::new(rng.r(-1.0, 1.0), rng.r(-1.0, 1.0));
        for (k, name) in ["RK45", "RK23", "Adams5", "Adams3", "BDF6", "BDF2"].iter().enumerate() {
            if k < 4 { continue; }
            let hi = matches!(k, 0 | 2 | 4);
            let cap = if hi { 2.0 * tol.powf(0.2) } else { tol.powf(1.0 / 3.0) };
            let dtmax = cap / p.l * rng.r(0.5, 1.0);
            let nsteps = 10f64.powf(rng.r(1.0, 2.0));
            let t1 = t0 + dtmax * nsteps;
            let dtmin = dtmax * 1e-7;
            match k {
                0 => { let r = run!(RungeKutta45, p, t0, t1, y0, dtmin, dtmax, tol); analyse(name, &mut st[k], &p, t0, t1, y0, dtmax, tol, 4.0, false, r); }
                1 => { let r = run!(RungeKutta23, p, t0, t1, y0, dtmin, dtmax, tol); analyse(name, &mut st[k], &p, t0, t1, y0, dtmax, tol, 2.0, false, r); }
                2 => { let r = run!(Adams5, p, t0, t1, y0, dtmin, dtmax, tol); analyse(name, &mut st[k], &p, t0, t1, y0, dtmax, tol, 4.0, false, r); }
                3 => { let r = run!(Adams3, p, t0, t1, y0, dtmin, dtmax, tol); analyse(name, &mut st[k], &p, t0, t1, y0, dtmax, tol, 2.0, false, r); }
                4 => { let r = run!(BDF6, p, t0, t1, y0, dtmin, dtmax, tol); analyse(name, &mut st[k], &p, t0, t1, y0, dtmax, tol, 5.0, true, r); }
                _ => { let r = run!(BDF2, p, t0, t1, y0, dtmin, dtmax, tol); analyse(name, &mut st[k], &p, t0, t1, y0, dtmax, tol, 2.0, true, r); }
            }
        }
    }
    for (k, name) in ["RK45", "RK23", "Adams5", "Adams3", "BDF6", "BDF2"].iter().enumerate() { println!("{:7} {:?}", name, st[k]); }
}
