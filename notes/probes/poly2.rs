use bacon_sci::polynomial::Polynomial;
use bacon_sci::special::*;
fn main() {
    for n in 3..=8 {
        let mut c = vec![0.0; n + 1]; c[0] = 1.0; c[n] = -2.0;
        let p: Polynomial<f64> = Polynomial::from_slice(&c);
        println!("x^{} - 2: {:?}", n, p.roots(1e-10, 200).map(|r| r.len()));
    }
    let p: Polynomial<f64> = Polynomial::from_slice(&[1.0, 0.0, 0.0, -3.0, 0.0, 1.0]);
    println!("x^5-3x^2+1: {:?}", p.roots(1e-10, 200));
    for n in 0..=16u32 {
        let l = legendre_zeros::<f64>(n, 1e-10, 1e-14, 500); let h = hermite_zeros::<f64>(n, 1e-10, 1e-14, 500); let g = laguerre_zeros::<f64>(n, 1e-10, 1e-14, 500);
        let fmt = |r: &Result<Vec<f64>, String>| match r { Ok(v) => { let mut s = v.clone(); s.sort_by(|a, b| a.partial_cmp(b).unwrap()); let distinct = s.windows(2).all(|w| (w[1] - w[0]).abs() > 1e-6); format!("Ok(n={}, distinct={}, range=[{:.3},{:.3}])", s.len(), distinct, s.first().cloned().unwrap_or(0.0), s.last().cloned().unwrap_or(0.0)) } Err(e) => format!("Err({})", e) };
        println!("n={:2} legendre {} | hermite {} | laguerre {}", n, fmt(&l), fmt(&h), fmt(&g));
    }
}
