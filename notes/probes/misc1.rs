use bacon_sci::polynomial::Polynomial;
use bacon_sci::interp::*;
use bacon_sci::differentiate::*;
use num_complex::Complex;
use std::panic;
struct Rng(u64);
impl Rng { fn next(&mut self) -> u64 { self.0 = self.0.wrapping_add(0x9E3779B97F4A7C15); let mut z = self.0; z = (z ^ (z >> 30)).wrapping_mul(0xBF58476D1CE4E5B9); z = (z ^ (z >> 27)).wrapping_mul(0x94D049BB133111EB); z ^ (z >> 31) }
  fn f(&mut self) -> f64 { (self.next() >> 11) as f64 / (1u64 << 53) as f64 }
  fn r(&mut self, a: f64, b: f64) -> f64 { a + (b - a) * self.f() } }
fn mulc(a: &[Complex<f64>], b: &[Complex<f64>]) -> Vec<Complex<f64>> { let mut e = vec![Complex::new(0.0,0.0); a.len()+b.len()-1]; for i in 0..a.len() { for j in 0..b.len() { e[i+j] += a[i]*b[j]; } } e }
fn main() {
    panic::set_hook(Box::new(|_| {}));
    let mut rng = Rng(7);
    // C14 roots: random separated roots
    let mut worst_root = 0.0f64; let mut errs = 0; let mut n = 0; let mut wrongcount = 0;
    for _ in 0..2000 {
        let deg = 1 + (rng.next() % 10) as usize;
        let mut roots: Vec<Complex<f64>> = vec![];
        let real_coeffs = rng.next() % 2 == 0;
        while roots.len() < deg {
            let z = if real_coeffs && (deg - roots.len() < 2 || rng.next() % 2 == 0) { Complex::new(rng.r(-3.0, 3.0), 0.0) } else { let th = rng.r(0.0, 6.283); let r = 3.0 * rng.f().sqrt(); Complex::from_polar(r, th) };
            let cand: Vec<Complex<f64>> = if real_coeffs && z.im != 0.0 { vec![z, z.conj()] } else { vec![z] };
            if real_coeffs && z.im != 0.0 && z.im.abs() < 0.15 { continue; }
            if cand.iter().all(|c| roots.iter().all(|r| (r - c).norm() >= 0.3)) { roots.extend(cand); }
        }
        // expand (ascending)
        let mut co = vec![Complex::new(1.0, 0.0)];
        for r in &roots { co = mulc(&co, &[-*r, Complex::new(1.0, 0.0)]); }
        let lead = rng.r(0.5, 2.0);
        let desc: Vec<Complex<f64>> = co.iter().rev().map(|c| c * lead).collect();
        let tol = 1e-9;
        let res = if real_coeffs { let p: Polynomial<f64> = Polynomial::from_slice(&desc.iter().map(|c| c.re).collect::<Vec<_>>()); panic::catch_unwind(|| p.roots(tol, 500)) } else { let p: Polynomial<Complex<f64>> = Polynomial::from_slice(&desc); panic::catch_unwind(|| p.roots(tol, 500)) };
        n += 1;
        match res { Ok(Ok(found)) => {
            if found.len() != roots.len() { wrongcount += 1; continue; }
            // greedy match
            let mut used = vec![false; roots.len()]; let mut w = 0.0f64;
            for f in found.iter() { let mut best = (f64::MAX, 0); for (i, r) in roots.iter().enumerate() { if !used[i] { let d = (r - f).norm(); if d < best.0 { best = (d, i); } } } used[best.1] = true; w = w.max(best.0); }
            if w > worst_root { worst_root = w; if w > 1e-6 { println!("roots: deg {} real {} worst match dist {:.3e}", deg, real_coeffs, w); } }
        } _ => { errs += 1; } }
    }
    println!("C14: n={} errs={} wrongcount={} worst match {:.3e}", n, errs, wrongcount, worst_root);
    // C12 division
    let mut worst_div = 0.0f64; let mut baddeg = 0;
    for _ in 0..3000 {
        let dn = (rng.next() % 41) as usize; let dd = (rng.next() % 21) as usize;
        let a: Vec<f64> = (0..=dn).map(|i| if i == 0 { rng.r(0.1, 1.0) } else { rng.r(-1.0, 1.0) }).collect();
        let b: Vec<f64> = (0..=dd).map(|i| if i == 0 { rng.r(0.1, 1.0) * if rng.next()%2==0 {1.0} else {-1.0} } else { rng.r(-1.0, 1.0) }).collect();
        let pa: Polynomial<f64> = Polynomial::from_slice(&a); let pb: Polynomial<f64> = Polynomial::from_slice(&b);
        if let Ok((q, r)) = pa.divide(&pb) {
            if dd > 0 && r.order() >= dd && !(r.order() == 0) { baddeg += 1; }
            // reconstruct naive
            let qc: Vec<f64> = q.get_coefficients().into_iter().rev().collect(); let bc: Vec<f64> = b.iter().rev().cloned().collect();
            let mut rec = vec![0.0; qc.len() + bc.len() - 1]; for i in 0..qc.len() { for j in 0..bc.len() { rec[i+j] += qc[i]*bc[j]; } }
            let rc: Vec<f64> = r.get_coefficients().into_iter().rev().collect();
            for (i, v) in rc.iter().enumerate() { if i < rec.len() { rec[i] += v; } else { rec.push(*v); } }
            let ac: Vec<f64> = a.iter().rev().cloned().collect();
            let qn: f64 = qc.iter().map(|x| x.abs()).sum(); let bn: f64 = bc.iter().map(|x| x.abs()).sum(); let an: f64 = ac.iter().map(|x| x.abs()).sum();
            let mut e = 0.0f64; for i in 0..rec.len().max(ac.len()) { let x = rec.get(i).cloned().unwrap_or(0.0) - ac.get(i).cloned().unwrap_or(0.0); e = e.max(x.abs()); }
            let ratio = e / (2.2e-16 * (qn * bn + an) + 1e-10);
            if ratio > worst_div { worst_div = ratio; }
        }
    }
    println!("C12: worst backward err ratio {:.3e} bad remainder degree {}", worst_div, baddeg);
    // C15 lagrange/hermite
    let mut worst_l = 0.0f64; let mut worst_h = 0.0f64; let mut degbad = 0;
    for _ in 0..2000 {
        let nn = 1 + (rng.next() % 8) as usize;
        let mut xs: Vec<f64> = vec![]; while xs.len() < nn { let x = rng.r(-2.0, 2.0); if xs.iter().all(|y| (y - x).abs() >= 0.2) { xs.push(x); } }
        let pc: Vec<f64> = (0..nn).map(|_| rng.r(-1.0, 1.0)).collect(); // degree nn-1 poly (desc)
        let p: Polynomial<f64> = Polynomial::from_slice(&pc);
        let ys: Vec<f64> = xs.iter().map(|x| p.evaluate(*x)).collect();
        let l = lagrange(&xs, &ys, 1e-12).unwrap();
        if l.order() > nn - 1 { degbad += 1; }
        for (x, y) in xs.iter().zip(ys.iter()) { worst_l = worst_l.max((l.evaluate(*x) - y).abs()); }
        let pc2: Vec<f64> = (0..2*nn).map(|_| rng.r(-1.0, 1.0)).collect();
        let p2: Polynomial<f64> = Polynomial::from_slice(&pc2);
        let ys2: Vec<f64> = xs.iter().map(|x| p2.evaluate(*x)).collect(); let ds: Vec<f64> = xs.iter().map(|x| p2.evaluate_derivative(*x).1).collect();
        let h = hermite(&xs, &ys2, &ds, 1e-12).unwrap();
        if h.order() > 2*nn - 1 { degbad += 1; }
        for i in 0..nn { let (v, d) = h.evaluate_derivative(xs[i]); worst_h = worst_h.max((v - ys2[i]).abs()).max((d - ds[i]).abs()); }
    }
    println!("C15: worst lagrange node err {:.3e} hermite {:.3e} degbad {}", worst_l, worst_h, degbad);
    // C16 spline quick: continuity
    let mut worst_c = [0.0f64; 3]; let mut endc = 0.0f64; let mut interp = 0.0f64;
    for _ in 0..1000 {
        let nn = 2 + (rng.next() % 39) as usize;
        let mut xs = vec![rng.r(-10.0, 0.0)]; for _ in 1..nn { let h = rng.r(0.02, 1.0); xs.push(xs.last().unwrap() + h); }
        let ys: Vec<f64> = (0..nn).map(|_| rng.r(-1.0, 1.0)).collect();
        let (f0, fnn) = (rng.r(-1.0, 1.0), rng.r(-1.0, 1.0));
        let s = spline_clamped(&xs, &ys, (f0, fnn), 1e-14).unwrap();
        let sf = spline_free(&xs, &ys, 1e-14).unwrap();
        for sp in [&s, &sf] { for i in 0..nn { interp = interp.max((sp.evaluate(xs[i]).unwrap() - ys[i]).abs()); } }
        let d0 = s.evaluate_derivative(xs[0]).unwrap().1; let dn = s.evaluate_derivative(xs[nn-1]).unwrap().1;
        endc = endc.max((d0 - f0).abs()).max((dn - fnn).abs());
        for i in 1..nn-1 { let e = 1e-9; let (vl, dl) = s.evaluate_derivative(xs[i] - e).unwrap(); let (vr, dr) = s.evaluate_derivative(xs[i] + e).unwrap(); worst_c[0] = worst_c[0].max((vl - vr).abs()); worst_c[1] = worst_c[1].max((dl - dr).abs()); }
    }
    println!("C16: interp err {:.3e} clamped end err {:.3e} C0 jump {:.3e} C1 jump {:.3e}", interp, endc, worst_c[0], worst_c[1]);
    // C19
    let mut w1 = 0.0f64; let mut w2 = 0.0f64;
    for _ in 0..5000 {
        let pc: Vec<f64> = (0..5).map(|_| rng.r(-1.0, 1.0)).collect(); let p: Polynomial<f64> = Polynomial::from_slice(&pc);
        let x = rng.r(-3.0, 3.0); let h = 10f64.powf(rng.r(-3.0, -0.3));
        let d = derivative(|t| p.evaluate(t), x, h); let ex = p.evaluate_derivative(x).1;
        let fmax = (0..5).map(|k| p.evaluate(x + (k as f64 - 2.0) * h).abs()).fold(0.0, f64::max);
        w1 = w1.max((d - ex).abs() / (2.2e-16 * fmax / h));
        let pc3: Vec<f64> = (0..4).map(|_| rng.r(-1.0, 1.0)).collect(); let p3: Polynomial<f64> = Polynomial::from_slice(&pc3);
        let d2 = second_derivative(|t| p3.evaluate(t), x, h); let ex2 = p3.derivative().evaluate_derivative(x).1;
        let fmax3 = (0..3).map(|k| p3.evaluate(x + (k as f64 - 1.0) * h).abs()).fold(0.0, f64::max);
        w2 = w2.max((d2 - ex2).abs() / (2.2e-16 * fmax3 / (h * h)));
    }
    println!("C19: worst first-deriv err in units eps*|f|/h: {:.2} ; second in eps|f|/h^2: {:.2}", w1, w2);
}
