use bacon_sci::polynomial::Polynomial;
use num_complex::Complex;
type C = Complex<f64>;
fn mulc(a: &[C], b: &[C]) -> Vec<C> { let mut e = vec![C::new(0.0,0.0); a.len()+b.len()-1]; for i in 0..a.len() { for j in 0..b.len() { e[i+j] += a[i]*b[j]; } } e }
fn main() {
    let lead = 0.9644912187584845; let r0 = C::new(1.134781110575188, 0.0);
    let roots: Vec<C> = (0..5).map(|k| r0 * C::from_polar(1.0, 6.283185307179586 * k as f64 / 5.0)).collect();
    let mut co = vec![C::new(1.0, 0.0)]; for r in &roots { co = mulc(&co, &[-*r, C::new(1.0, 0.0)]); }
    let asc: Vec<f64> = co.iter().map(|c| c.re * lead).collect();
    println!("coeffs {:?}", asc);
    let p: Polynomial<f64> = asc.iter().cloned().collect();
    println!("roots: {:?}", p.roots(7.985671560423754e-9, 1000).map(|v| v.len()));
    // recursion trace
    { let mut cur = p.make_complex(); let tol = 7.985671560423754e-9; while cur.order() >= 3 { match trace(&cur, tol) { Some(r) => { let div: Polynomial<C> = vec![-r, C::new(1.0, 0.0)].into_iter().collect(); let (q, rem) = cur.divide(&div).unwrap(); println!("  deflated: order {} remainder {:?}", q.order(), rem.get_coefficients()); cur = q; } None => { println!("  FAILED at degree {}", cur.order()); break; } } } }
    // trace
    let pc = p.make_complex(); let d = pc.derivative(); let n = C::new(5.0, 0.0);
    let mut g = C::new(0.0, 0.0);
    for k in 0..40 { let val = pc.evaluate(g); let (d1, d2) = d.evaluate_derivative(g); let gq = d1 / val; let g2 = gq * gq; let h = g2 - d2 / val; let sq = ((n - 1.0) * (n * h - g2)).sqrt(); let (pl, mi) = (gq + sq, gq - sq); let a = if pl.norm() > mi.norm() { n / pl } else { n / mi };
        println!("k {} guess {:.6e} |p| {:.3e} a {:.4e} finite {}", k, g, val.norm(), a, a.is_finite());
        let a = if a.is_finite() { a } else { C::from_polar(1.0 + g.norm(), (k + 1) as f64) };
        let a = if (k + 1) % 10 == 0 { a * [0.5, 0.25, 0.75, 0.13][((k + 1) / 10 - 1) % 4] } else { a };
        g -= a; if val.norm() < 1e-8 { break; } }
}
#[allow(dead_code)]
fn trace(pc: &Polynomial<C>, tol: f64) -> Option<C> {
    let d = pc.derivative(); let n = C::new(pc.order() as f64, 0.0); let mut g = C::new(0.0, 0.0);
    for k in 0..1000 { let val = pc.evaluate(g); if val.norm() < tol { println!("  deg {} converged k={} root {:.6}", pc.order(), k, g); return Some(g); }
        let (d1, d2) = d.evaluate_derivative(g); let gq = d1 / val; let g2 = gq * gq; let h = g2 - d2 / val; let sq = ((n - 1.0) * (n * h - g2)).sqrt(); let (pl, mi) = (gq + sq, gq - sq); let a = if pl.norm() > mi.norm() { n / pl } else { n / mi };
        let a = if a.is_finite() { a } else { C::from_polar(1.0 + g.norm(), (k + 1) as f64) };
        let a = if (k + 1) % 10 == 0 { a * [0.5, 0.25, 0.75, 0.13, 0.38, 0.62, 0.88, 1.0][((k + 1) / 10 - 1) % 8] } else { a };
        if k < 30 || k % 100 == 0 { println!("  deg {} k {} guess {:.4e} |p| {:.3e} a {:.3e}", pc.order(), k, g, val.norm(), a); }
        g -= a; }
    None
}
