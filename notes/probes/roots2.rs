use bacon_sci::roots::*;
use bacon_sci::polynomial::Polynomial;
use nalgebra::{SMatrix, SVector};
use num_complex::Complex;
use std::cell::Cell;
use std::panic;

thread_local! { static CNT: Cell<usize> = Cell::new(0); }
fn tick() { CNT.with(|c| { c.set(c.get()+1); if c.get() > 200000 { panic!("budget"); } }); }
fn reset() { CNT.with(|c| c.set(0)); }
fn cnt() -> usize { CNT.with(|c| c.get()) }

fn main() {
    panic::set_hook(Box::new(|_| {}));
    // affine system A(x - r), dim 2
    let a = SMatrix::<f64,2,2>::new(2.0, 1.0, -1.0, 3.0);
    let r = SVector::<f64,2>::new(1.5, -0.7);
    for start in [[0.0,0.0],[1.0,1.0],[1.5,-0.7],[10.0,-20.0]] {
        reset();
        let res = panic::catch_unwind(|| newton(&start, |x: &[f64]| { tick(); a * (SVector::<f64,2>::from_column_slice(x) - r) }, |_x: &[f64]| a, 1e-8, 100));
        println!("newton affine start={:?} -> {:?} calls={}", start, res.map_err(|_|"PANIC"), cnt());
        reset();
        let res = panic::catch_unwind(|| secant(&start, |x: &[f64]| { tick(); a * (SVector::<f64,2>::from_column_slice(x) - r) }, 1e-3, 1e-8, 100));
        println!("secant affine start={:?} -> {:?} calls={}", start, res.map_err(|_|"PANIC"), cnt());
    }
    // nonlinear: A(x-r) + 0.1*sin-ish
    let f = move |x: &[f64]| { tick(); let d = SVector::<f64,2>::from_column_slice(x) - r; a*d + SVector::<f64,2>::new(0.3*d[0]*d[1], 0.2*d[0]*d[0]) };
    let j = move |x: &[f64]| { let d = SVector::<f64,2>::from_column_slice(x) - r; a + SMatrix::<f64,2,2>::new(0.3*d[1], 0.3*d[0], 0.4*d[0], 0.0) };
    for start in [[1.0,-1.0],[2.0,0.0],[0.0,0.0]] {
        reset();
        println!("newton nl start={:?} -> {:?} calls={}", start, panic::catch_unwind(|| newton(&start, f, j, 1e-10, 100)).map_err(|_|"PANIC"), cnt());
        reset();
        println!("secant nl start={:?} -> {:?} calls={}", start, panic::catch_unwind(|| secant(&start, f, 1e-4, 1e-10, 100)).map_err(|_|"PANIC"), cnt());
    }
    // singular
    let s = SMatrix::<f64,2,2>::new(1.0, 2.0, 2.0, 4.0);
    println!("newton singular -> {:?}", panic::catch_unwind(|| newton(&[1.0,1.0], |x: &[f64]| s * SVector::<f64,2>::from_column_slice(x), |_x: &[f64]| s, 1e-8, 100)).map_err(|_|"PANIC"));
    println!("secant singular -> {:?}", panic::catch_unwind(|| secant(&[1.0,1.0], |x: &[f64]| s * SVector::<f64,2>::from_column_slice(x), 1e-3, 1e-8, 100)).map_err(|_|"PANIC"));
    // 1-d newton with root far from origin where norm doesn't change
    // rotation: root r with start such that iterates keep norm? skip
    // steffensen
    fn g1(x: f64) -> f64 { tick(); x.cos() }
    fn g2(x: f64) -> f64 { tick(); 0.5*x + 1.0 }
    fn g3(x: f64) -> f64 { tick(); (-x).exp() }
    for tol in [1e-4, 1e-8, 1e-12, 1e-13, 1e-15] {
        reset(); let a1 = steffensen(0.5, g1, tol, 100); let c1 = cnt();
        reset(); let a2 = steffensen(0.5, g2, tol, 100); let c2 = cnt();
        reset(); let a3 = steffensen(0.5, g3, tol, 100); let c3 = cnt();
        println!("steffensen tol={:e}: cos {:?} ({}) lin {:?} ({}) exp {:?} ({})", tol, a1, c1, a2, c2, a3, c3);
    }
    // newton_polynomial / muller
    let p: Polynomial<f64> = Polynomial::from_slice(&[1.0, -6.0, 11.0, -6.0]); // roots 1,2,3
    for st in [0.9, 1.6, 2.9, 0.0, 10.0] {
        println!("newton_poly start={} -> {:?}", st, newton_polynomial(st, &p, 1e-10, 100));
    }
    let pc = p.make_complex();
    println!("newton_poly complex start -> {:?}", newton_polynomial(Complex::new(0.9, 0.3), &pc, 1e-10, 100));
    println!("muller -> {:?}", muller_polynomial((0.0, 0.5, 0.8), &p, 1e-10, 100));
    println!("muller -> {:?}", muller_polynomial((Complex::new(0.0,1.0), Complex::new(0.5,0.2), Complex::new(0.8,-0.5)), &pc, 1e-10, 100));
    let q: Polynomial<f64> = Polynomial::from_slice(&[1.0, 0.0, 1.0]); // x^2+1
    println!("muller x^2+1 -> {:?}", muller_polynomial((0.0, 0.5, 1.0), &q, 1e-10, 100));
    println!("newton_poly x^2+1 real start -> {:?}", newton_polynomial(0.5, &q, 1e-10, 100));
}
