use bacon_sci::constants::*;
fn main() {
    let text = std::fs::read_to_string("/repo/codata.txt").unwrap();
    let mut n = 0; let mut bad = 0;
    let mut names = std::collections::BTreeSet::new();
    for line in text.lines().skip(11) {
        let parts: Vec<&str> = line.trim_end().split("  ").map(|s| s.trim()).filter(|s| !s.is_empty()).collect();
        assert!(parts.len() == 3 || parts.len() == 4, "{:?}", parts);
        let name = parts[0]; let val: f64 = parts[1].replace(' ', "").replace("...", "").parse().unwrap();
        let unc: f64 = if parts[2] == "(exact)" { 0.0 } else { parts[2].replace(' ', "").parse().unwrap() };
        let unit = if parts.len() == 4 { parts[3] } else { "" };
        n += 1; names.insert(name.to_string());
        match CODATA.get(name) { Some((v, u, un)) => { if *v != val || *u != unc || *un != unit { bad += 1; println!("MISMATCH {}: table ({}, {}, {:?}) parsed ({}, {}, {:?})", name, v, u, un, val, unc, unit); } } None => { bad += 1; println!("MISSING {}", name); } }
    }
    let extra = CODATA.keys().filter(|k| !names.contains(**k)).count();
    println!("rows {} map len {} mismatches {} extra keys {}", n, CODATA.len(), bad, extra);
    let tv = |k: &str| CODATA.get(k).map(|x| x.0).unwrap_or(f64::NAN);
    let gu = |k: &str| CODATA.get(k).map(|x| x.1).unwrap_or(f64::NAN);
    let checks: Vec<(&str, f64, f64)> = vec![
        ("c", c, tv("speed of light in vacuum")), ("permittivity", permittivity, tv("vacuum electric permittivity")), ("permittivity_unc", permittivity_uncertainty, gu("vacuum electric permittivity")),
        ("permeability", permeability, tv("vacuum mag. permeability")), ("permeability_unc", permeability_uncertainty, gu("vacuum mag. permeability")),
        ("h", h, tv("Planck constant")), ("h_bar", h_bar, tv("reduced Planck constant")), ("G", G, tv("Newtonian constant of gravitation")), ("G_unc", G_uncertainty, gu("Newtonian constant of gravitation")),
        ("g", bacon_sci::constants::g, tv("standard acceleration of gravity")), ("e", e_charge, tv("elementary charge")), ("R", R, tv("molar gas constant")), ("alpha", fine_structure, tv("fine-structure constant")), ("alpha_unc", fine_structure_uncertainty, gu("fine-structure constant")),
        ("N_A", avogadro, tv("Avogadro constant")), ("k", boltzmann, tv("Boltzmann constant")), ("sigma", stefan_boltzmann, tv("Stefan-Boltzmann constant")), ("wien", wien, tv("Wien wavelength displacement law constant")), ("wien_f", wien_frequency, tv("Wien frequency displacement law constant")),
        ("rydberg", rydberg, tv("Rydberg constant")), ("rydberg_unc", rydberg_uncertainty, gu("Rydberg constant")), ("m_e", electron_mass, tv("electron mass")), ("m_e_unc", electron_mass_uncertainty, gu("electron mass")), ("m_p", proton_mass, tv("proton mass")), ("m_p_unc", proton_mass_uncertainty, gu("proton mass")), ("m_n", neutron_mass, tv("neutron mass")), ("m_n_unc", neutron_mass_uncertainty, gu("neutron mass")),
    ];
    for (nm, a, b) in checks { println!("{:16} const {:e} table {:e} equal {} rel {:.2e}", nm, a, b, a == b, ((a - b) / b).abs()); }
    let pi = std::f64::consts::PI;
    println!("h/2pi rel {:.2e}; N_A k rel {:.2e}; sigma rel {:.2e}", (h_bar - h / (2.0 * pi)).abs() / h_bar, (R - avogadro * boltzmann).abs() / R, (stefan_boltzmann - 2.0 * pi.powi(5) * boltzmann.powi(4) / (15.0 * h.powi(3) * c * c)).abs() / stefan_boltzmann);
}
