use bacon_sci::polynomial::Polynomial;
use num_complex::Complex;
use std::panic;
struct Rng(u64);
impl Rng { fn next(&mut self) -> u64 { self.0 = self.0.wrapping_add(0x9E3779B97F4A7C15); let mut z = self.0; z = (z ^ (z >> 30)).wrapping_mul(0xBF58476D1CE4E5B9); z = (z ^ (z >> 27)).wrapping_mul(0x94D049BB133111EB); z ^ (z >> 31) }
  fn f(&mut self) -> f64 { (self.next() >> 11) as f64 / (1u64 << 53) as f64 }
  fn r(&mut self, a: f64, b: f64) -> f64 { a + (b - a) * self.f() } }
fn mulc(a: &[Complex<f64>], b: &[Complex<f64>]) -> Vec<Complex<f64>> { let mut e = vec![Complex::new(0.0,0.0); a.len()+b.len()-1]; for i in 0..a.len() { for j in 0..b.len() { e[i+j] += a[i]*b[j]; } } e }
fn main() {
    panic::set_hook(Box::new(|_| {}));
    let mut rng = Rng(17);
    for &cmul in &[2.0, 8.0, 32.0, 128.0, 1e3, 1e6] {
        let (mut n, mut errs, mut badcount, mut worst_res, mut worst_match) = (0, 0, 0, 0.0f64, 0.0f64);
        for _ in 0..3000 {
            let deg = 1 + (rng.next() % 10) as usize; let real_coeffs = rng.next() % 2 == 0; let sparse = rng.next() % 6 == 0;
            let mut roots: Vec<Complex<f64>> = vec![];
            if sparse { let c = Complex::from_polar(rng.r(0.3, 3.0).powi(deg as i32), if real_coeffs { 0.0 } else { rng.r(0.0, 6.28) }); let r0 = c.powf(1.0 / deg as f64); for k in 0..deg { roots.push(r0 * Complex::from_polar(1.0, 6.283185307179586 * k as f64 / deg as f64)); } if deg >= 2 && (roots[0] - roots[1]).norm() < 0.3 { continue; } }
            else { while roots.len() < deg { let z = if real_coeffs && (deg - roots.len() < 2 || rng.next() % 2 == 0) { Complex::new(rng.r(-3.0, 3.0), 0.0) } else { Complex::from_polar(3.0 * rng.f().sqrt(), rng.r(0.0, 6.283)) }; if real_coeffs && z.im != 0.0 && z.im.abs() < 0.15 { continue; } let cand: Vec<Complex<f64>> = if real_coeffs && z.im != 0.0 { vec![z, z.conj()] } else { vec![z] }; if cand.iter().all(|c| roots.iter().all(|r| (r - c).norm() >= 0.3)) { roots.extend(cand); } } }
            let mut co = vec![Complex::new(1.0, 0.0)]; for r in &roots { co = mulc(&co, &[-*r, Complex::new(1.0, 0.0)]); }
            let lead = rng.r(0.5, 2.0); let asc: Vec<Complex<f64>> = co.iter().map(|c| c * lead).collect();
            let ptilde = |z: f64| -> f64 { asc.iter().enumerate().map(|(k, c)| c.norm() * z.powi(k as i32)).sum() };
            let rmax = roots.iter().map(|r| r.norm()).fold(0.0, f64::max);
            let noise = 2.2e-16 * ptilde(rmax.max(1.0)) * (2 * deg) as f64;
            let tol = if rng.next() % 2 == 0 { cmul * noise } else { 10f64.powf(rng.r(-9.0, -6.0)).max(cmul * noise) };
            let pc: Polynomial<Complex<f64>> = asc.iter().cloned().collect();
            let res = if real_coeffs && !sparse || (real_coeffs && asc.iter().all(|c| c.im.abs() < 1e-14)) { let p: Polynomial<f64> = asc.iter().map(|c| c.re).collect(); panic::catch_unwind(|| p.roots(tol, 1000)) } else { let p = pc.clone(); panic::catch_unwind(move || p.roots(tol, 1000)) };
            n += 1;
            match res { Ok(Ok(found)) => { if found.len() != deg { badcount += 1; continue; }
                let dp = pc.derivative(); let mut used = vec![false; deg];
                for f in found.iter() { worst_res = worst_res.max(pc.evaluate(*f).norm() / (tol + 2.2e-16 * ptilde(f.norm()))); let mut best = (f64::MAX, 0); for (i, r) in roots.iter().enumerate() { if !used[i] { let d = (r - f).norm(); if d < best.0 { best = (d, i); } } } used[best.1] = true; let r = roots[best.1]; let bound = (tol + 2.2e-16 * ptilde(r.norm())) / dp.evaluate(r).norm(); worst_match = worst_match.max(best.0 / bound); } }
                Ok(Err(e)) => { errs += 1; if cmul >= 1000.0 { println!("ERR {} deg {} real {} sparse {} tol {:e} lead {} roots {:?}", e, deg, real_coeffs, sparse, tol, lead, roots); } }
                _ => { errs += 1; println!("PANIC"); } }
        }
        println!("tol >= {:>8} x noise: n {} errs {} wrongcount {} worst residual/(tol+eps p~) {:.2} worst match/(bound unit) {:.2}", cmul, n, errs, badcount, worst_res, worst_match);
    }
}
