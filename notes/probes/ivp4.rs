use bacon_sci::ivp::{adams::*, bdf::*, rk::*, Euler, IVPSolver, IVPError, UserError};
use bacon_sci::BSVector;
use std::cell::Cell; use std::rc::Rc;
#[derive(Debug)] struct Boom(usize);
impl std::fmt::Display for Boom { fn fmt(&self, f: &mut std::fmt::Formatter) -> std::fmt::Result { write!(f, "boom {}", self.0) } }
impl std::error::Error for Boom {}
macro_rules! go { ($name:expr, $ty:ident) => {{
    // reference run
    let cnt = Rc::new(Cell::new(0usize)); let c2 = cnt.clone();
    let d = move |_t: f64, y: &[f64], _: &mut ()| -> Result<BSVector<f64,1>, UserError> { c2.set(c2.get()+1); Ok(BSVector::<f64,1>::new(-y[0])) };
    let n_ok = $ty::new().unwrap().with_minimum_dt(1e-6).unwrap().with_maximum_dt(0.1).unwrap().with_tolerance(1e-3).unwrap().with_initial_time(0.0).unwrap().with_ending_time(1.0).unwrap().with_initial_conditions_slice(&[1.0]).unwrap().with_derivative(d).solve(()).unwrap().count();
    let total = cnt.get();
    let mut bad = 0; let mut checked = 0;
    for k in 1..=total {
        let cnt = Rc::new(Cell::new(0usize)); let c2 = cnt.clone();
        let d = move |_t: f64, y: &[f64], _: &mut ()| -> Result<BSVector<f64,1>, UserError> { c2.set(c2.get()+1); if c2.get() == k { return Err(Box::new(Boom(k))); } Ok(BSVector::<f64,1>::new(-y[0])) };
        let mut it = $ty::new().unwrap().with_minimum_dt(1e-6).unwrap().with_maximum_dt(0.1).unwrap().with_tolerance(1e-3).unwrap().with_initial_time(0.0).unwrap().with_ending_time(1.0).unwrap().with_initial_conditions_slice(&[1.0]).unwrap().with_derivative(d).solve(()).unwrap();
        let mut errs = 0; let mut after = 0; let mut payload_ok = false; let mut oks = 0;
        for _ in 0..(n_ok + 10) { match it.next() { Some(Ok(_)) => { if errs > 0 { after += 1; } else { oks += 1; } } Some(Err(e)) => { errs += 1; if let IVPError::UserError(b) = &e { if let Some(bm) = b.downcast_ref::<Boom>() { payload_ok = bm.0 == k; } } } None => {} } }
        checked += 1;
        if errs != 1 || after != 0 || !payload_ok || cnt.get() != k { bad += 1; if bad < 3 { println!("{} k={} errs={} after={} payload={} calls={} oks={}", $name, k, errs, after, payload_ok, cnt.get(), oks); } }
    }
    println!("{:7} total calls {} items {} fault points {} bad {}", $name, total, n_ok, checked, bad);
}}; }
fn main() {
    go!("RK45", RungeKutta45); go!("RK23", RungeKutta23); go!("Adams5", Adams5); go!("Adams3", Adams3); go!("BDF6", BDF6); go!("BDF2", BDF2); go!("Euler", Euler);
    type E<'a> = Euler<'a, f64, nalgebra::Const<1>, (), fn(f64,&[f64],&mut ())->Result<BSVector<f64,1>,UserError>>;
    println!("euler tol -1: {:?}", E::new().unwrap().with_tolerance(-1.0).is_ok());
    println!("euler dt 0: {:?}", E::new().unwrap().with_maximum_dt(0.0).err());
    println!("euler end<start: {:?}", E::new().unwrap().with_initial_time(1.0).unwrap().with_ending_time(1.0).err());
    println!("euler missing: {:?}", E::new().unwrap().with_initial_time(1.0).unwrap().solve(()).err());
    type ED<'a> = Euler<'a, f64, nalgebra::Dyn, (), fn(f64,&[f64],&mut ())->Result<bacon_sci::BVector<f64,nalgebra::Dyn>,UserError>>;
    println!("dyn new(): {:?}; static new_dyn: {:?}", ED::new().err(), E::new_dyn(1).err());
}
