use bacon_sci::polynomial::Polynomial;
use bacon_sci::special::*;
use num_complex::Complex;
type C = Complex<f64>;
fn main() {
    let a: Polynomial<C> = Polynomial::from_slice(&[C::new(1.0,1.0), C::new(0.0,2.0), C::new(3.0,0.0)]);
    let b: Polynomial<C> = Polynomial::from_slice(&[C::new(2.0,-1.0), C::new(1.0,0.0), C::new(0.0,1.0)]);
    let c = &a * &b;
    println!("complex product {:?}", c.get_coefficients());
    // exact: convolution
    let ac = a.get_coefficients(); let bc = b.get_coefficients();
    let mut e = vec![C::new(0.0,0.0); 5];
    for i in 0..3 { for j in 0..3 { e[i+j] += ac[i]*bc[j]; } }
    println!("exact           {:?}", e);
    // dft check
    let p: Polynomial<f64> = Polynomial::from_slice(&[1.0, 2.0, 3.0, 4.0]); // x^3+2x^2+3x+4
    let d = p.dft(4);
    for (k, v) in d.iter().enumerate() {
        let w = C::from_polar(1.0, 2.0*std::f64::consts::PI*k as f64/4.0);
        println!("dft[{}]={:?} p(w^k)={:?}", k, v, p.make_complex().evaluate(w));
    }
    let back = Polynomial::<f64>::idft(&d, 1e-10);
    println!("idft {:?}", back.get_coefficients());
    // purge
    let mut q: Polynomial<f64> = Polynomial::from_slice(&[1.0, 2.0, 3.0]);
    q.purge_coefficient(3);
    println!("purge(3) of degree-2 poly -> {:?}", q.get_coefficients());
    let r = std::panic::catch_unwind(|| { let mut q: Polynomial<f64> = Polynomial::from_slice(&[1.0, 2.0, 3.0]); q.purge_coefficient(5); q.get_coefficients() });
    println!("purge(5) -> {:?}", r.is_err());
    for tol in [1e-14, 1e-12, 1e-10, 1e-8, 1e-6] {
        let t: Vec<usize> = (0..=20).map(|n| chebyshev::<f64>(n, tol).unwrap().order()).collect();
        println!("cheb orders tol={:e}: {:?}", tol, t);
        let t: Vec<usize> = (0..=20).map(|n| chebyshev_second::<f64>(n, tol).unwrap().order()).collect();
        println!("cheb2 orders tol={:e}: {:?}", tol, t);
        let t: Vec<usize> = (0..=20).map(|n| legendre::<f64>(n, tol).unwrap().order()).collect();
        println!("legendre orders: {:?}", t);
        let t: Vec<usize> = (0..=20).map(|n| hermite::<f64>(n, tol).unwrap().order()).collect();
        println!("hermite orders: {:?}", t);
    }
    let t15 = chebyshev::<f64>(15, 1e-8).unwrap();
    println!("T15 {:?}", t15.get_coefficients());
    let h10 = hermite::<f64>(10, 1e-8).unwrap();
    println!("H10 {:?}", h10.get_coefficients());
    println!("zeros leg5 {:?}", legendre_zeros::<f64>(5, 1e-10, 1e-12, 200));
    println!("zeros herm5 {:?}", hermite_zeros::<f64>(5, 1e-10, 1e-12, 200));
    println!("zeros lag5 {:?}", laguerre_zeros::<f64>(5, 1e-10, 1e-12, 200));
    // division
    let n: Polynomial<f64> = Polynomial::from_slice(&[1.0, -6.0, 11.0, -6.0]);
    let dd: Polynomial<f64> = Polynomial::from_slice(&[1.0, -1.0]);
    let (qq, rr) = n.divide(&dd).unwrap();
    println!("div {:?} rem {:?}", qq.get_coefficients(), rr.get_coefficients());
    println!("roots {:?}", n.roots(1e-10, 100));
    let z: Polynomial<f64> = Polynomial::from_slice(&[0.0]);
    println!("div by zero {:?}", n.divide(&z).is_err());
}
