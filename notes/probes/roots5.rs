// C08 prototype: random regular systems for newton / secant
use bacon_sci::roots::*;
use nalgebra::{SMatrix, SVector};
use std::cell::Cell;
use std::panic;
struct Rng(u64);
impl Rng { fn next(&mut self) -> u64 { self.0 = self.0.wrapping_add(0x9E3779B97F4A7C15); let mut z = self.0; z = (z ^ (z >> 30)).wrapping_mul(0xBF58476D1CE4E5B9); z = (z ^ (z >> 27)).wrapping_mul(0x94D049BB133111EB); z ^ (z >> 31) }
  fn f(&mut self) -> f64 { (self.next() >> 11) as f64 / (1u64 << 53) as f64 }
  fn r(&mut self, a: f64, b: f64) -> f64 { a + (b - a) * self.f() } }
type M = SMatrix<f64, 3, 3>; type V = SVector<f64, 3>;
fn main() {
    panic::set_hook(Box::new(|_| {}));
    let mut rng = Rng(std::env::args().nth(1).map(|s| s.parse().unwrap()).unwrap_or(1));
    let mut tally = std::collections::BTreeMap::<String, usize>::new();
    let mut worst = [0.0f64; 2];
    for _ in 0..5000 {
        // A = U diag(s) V^T with random rotations
        let rot = |rng: &mut Rng| -> M { let mut q = M::identity(); for (i, j) in [(0, 1), (0, 2), (1, 2)] { let th = rng.r(0.0, 6.283); let mut g = M::identity(); g[(i, i)] = th.cos(); g[(j, j)] = th.cos(); g[(i, j)] = -th.sin(); g[(j, i)] = th.sin(); q = q * g; } q };
        let cond = 10f64.powf(rng.r(0.0, 3.0)); let s0 = rng.r(0.5, 2.0);
        let a = rot(&mut rng) * M::from_diagonal(&V::new(s0, s0 / cond.sqrt(), s0 / cond)) * rot(&mut rng).transpose();
        let ainv_norm = cond / s0;
        let rootscale = match rng.next() % 4 { 0 => 0.0, 1 => 1.0, 2 => 100.0, _ => 0.01 };
        let r = V::new(rng.r(-1.0, 1.0), rng.r(-1.0, 1.0), rng.r(-1.0, 1.0)) * rootscale;
        let eps = if rng.next() % 4 == 0 { 0.0 } else { rng.r(0.05, 1.0) };
        let qc = [rng.r(-1.0, 1.0), rng.r(-1.0, 1.0), rng.r(-1.0, 1.0), rng.r(-1.0, 1.0), rng.r(-1.0, 1.0), rng.r(-1.0, 1.0)];
        // Q(d) = (q0 d0 d1, q1 d1 d2 + q2 d0^2, q3 d2^2 + q4 d0 d2 + q5 d1^2); Lipschitz of Q' <= ~ 4
        let func = move |x: &[f64]| -> V { let d = V::from_column_slice(x) - r; a * d + V::new(qc[0] * d[0] * d[1], qc[1] * d[1] * d[2] + qc[2] * d[0] * d[0], qc[3] * d[2] * d[2] + qc[4] * d[0] * d[2] + qc[5] * d[1] * d[1]) * eps };
        let jac = move |x: &[f64]| -> M { let d = V::from_column_slice(x) - r; a + M::new(qc[0] * d[1], qc[0] * d[0], 0.0, 2.0 * qc[2] * d[0], qc[1] * d[2], qc[1] * d[1], qc[4] * d[2], 2.0 * qc[5] * d[1], 2.0 * qc[3] * d[2] + qc[4] * d[0]) * eps };
        let lip = 4.0 * eps;
        let tol = 10f64.powf(rng.r(-10.0, -3.0));
        for which in 0..2 {
            let hmax = if which == 0 { 0.25 } else { 0.02 };
            let rad = if lip == 0.0 { rng.r(0.0, 50.0) } else { hmax / (ainv_norm * lip) * rng.f() };
            let dir = V::new(rng.r(-1.0, 1.0), rng.r(-1.0, 1.0), rng.r(-1.0, 1.0)); let dir = if dir.norm() > 0.0 { dir / dir.norm() } else { V::new(1.0, 0.0, 0.0) };
            let start = match rng.next() % 10 { 0 => r, 1 if lip == 0.0 => V::zeros(), _ => r + dir * rad };
            let cnt = Cell::new(0usize);
            let fc = |x: &[f64]| { cnt.set(cnt.get() + 1); if cnt.get() > 100000 { panic!("budget") }; func(x) };
            let hfd = 10f64.powf(rng.r(-6.0, -3.0));
            let res = panic::catch_unwind(panic::AssertUnwindSafe(|| if which == 0 { newton(start.as_slice(), fc, jac, tol, 200) } else { secant(start.as_slice(), fc, hfd, tol, 200) }));
            let name = ["newton", "secant"][which];
            let key = match res { Err(_) => format!("{} panic/budget", name), Ok(Err(e)) => format!("{} Err {}", name, &e[..e.len().min(30)]),
                Ok(Ok(x)) => { let d = (x - r).norm(); let bound = 4.0 * tol * r.norm().max(1.0) + 64.0 * 2.2e-16 * cond * (1.0 + r.norm()); worst[which] = worst[which].max(d / bound); if x.iter().any(|v| v.is_nan()) { format!("{} NaN", name) } else if d <= bound { format!("{} ok", name) } else { if *tally.get(&format!("{} inaccurate", name)).unwrap_or(&0) < 3 { println!("{} inaccurate d {:.3e} bound {:.3e} tol {:.1e} cond {:.1e} |r| {:.2} eps {:.2} start-dist {:.2e} calls {}", name, d, bound, tol, cond, r.norm(), eps, (start - r).norm(), cnt.get()); } format!("{} inaccurate", name) } } };
            *tally.entry(key).or_insert(0) += 1;
        }
    }
    println!("{:#?}\nworst ratio newton {:.3} secant {:.3}", tally, worst[0], worst[1]);
}
