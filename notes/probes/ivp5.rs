use bacon_sci::ivp::{bdf::*, IVPSolver, UserError};
use bacon_sci::BSVector;
use std::cell::Cell; use std::rc::Rc;
type V = BSVector<f64, 3>;
fn main() {
    for (name, which) in [("BDF6", 0), ("BDF2", 1)] {
      for tol in [1e-4f64, 1e-7, 1e-10] {
        let cnt = Rc::new(Cell::new(0usize)); let c2 = cnt.clone();
        let d = move |t: f64, y: &[f64], _: &mut ()| -> Result<V, UserError> { c2.set(c2.get() + 1); Ok(V::new(-0.5 * y[0] + 1.3 * y[1] + 0.3 * y[2].sin(), -1.3 * y[0] - 0.2 * y[1] + (0.7 * t).cos(), -0.8 * y[2] + 0.2 * y[0] * y[1] / (1.0 + y[0] * y[0]))) };
        let dtmax = if which == 0 { 2.0 * tol.powf(0.2) / 2.0 } else { tol.powf(1.0 / 3.0) / 2.0 };
        let mut per_step: Vec<usize> = vec![]; let mut last = 0usize; let mut n = 0; let mut errs = 0;
        macro_rules! go { ($ty:ident) => {{ let it = $ty::new().unwrap().with_minimum_dt(dtmax * 1e-7).unwrap().with_maximum_dt(dtmax).unwrap().with_tolerance(tol).unwrap().with_initial_time(0.0).unwrap().with_ending_time(dtmax * 300.0).unwrap().with_initial_conditions_slice(&[1.0, 0.5, -0.3]).unwrap().with_derivative(d).solve(()).unwrap();
            for item in it { match item { Ok(_) => { n += 1; let c = cnt.get(); per_step.push(c - last); last = c; } Err(_) => { errs += 1; } } } }}; }
        if which == 0 { go!(BDF6) } else { go!(BDF2) }
        per_step.sort();
        let nz: Vec<usize> = per_step.iter().cloned().filter(|c| *c > 0).collect();
        println!("{} tol {:e}: items {} errs {} total calls {} calls/item mean {:.1} median(nonzero) {} p95 {} max {}", name, tol, n, errs, cnt.get(), cnt.get() as f64 / n.max(1) as f64, nz[nz.len() / 2], nz[nz.len() * 95 / 100], nz[nz.len() - 1]);
      }
    }
}
