use bacon_sci::polynomial::Polynomial;
use bacon_sci::special::*;
use num_complex::Complex;
type C = Complex<f64>;
struct Rng(u64);
impl Rng { fn next(&mut self) -> u64 { self.0 = self.0.wrapping_add(0x9E3779B97F4A7C15); let mut z = self.0; z = (z ^ (z >> 30)).wrapping_mul(0xBF58476D1CE4E5B9); z = (z ^ (z >> 27)).wrapping_mul(0x94D049BB133111EB); z ^ (z >> 31) }
  fn f(&mut self) -> f64 { (self.next() >> 11) as f64 / (1u64 << 53) as f64 }
  fn r(&mut self, a: f64, b: f64) -> f64 { a + (b - a) * self.f() } }
fn main() {
    let mut rng = Rng(3);
    let mut worst_r = 0.0f64; let mut worst_c = 0.0f64; let mut degbad = 0; let mut n = 0;
    for _ in 0..3000 {
        let da = (rng.next() % 129) as usize; let db = (rng.next() % 129) as usize;
        let mag = 10f64.powf(rng.r(-3.0, 3.0));
        let a: Vec<f64> = (0..=da).map(|_| rng.r(-1.0, 1.0) * mag).collect(); let b: Vec<f64> = (0..=db).map(|_| rng.r(-1.0, 1.0) / mag.sqrt()).collect();
        let pa: Polynomial<f64> = a.iter().cloned().collect(); let pb: Polynomial<f64> = b.iter().cloned().collect();
        let prod = &pa * &pb;
        let mut ex = vec![0.0; da + db + 1]; for i in 0..=da { for j in 0..=db { ex[i + j] += a[i] * b[j]; } }
        let na = a.iter().map(|x| x * x).sum::<f64>().sqrt(); let nb = b.iter().map(|x| x * x).sum::<f64>().sqrt();
        let mut nn = 1usize; while nn < 2 * (da + 1).max(db + 1) { nn <<= 1; }
        let mut e = 0.0f64; for k in 0..=da + db { e = e.max((prod.get_coefficient(k) - ex[k]).abs()); }
        if da >= 2 && db >= 2 { worst_r = worst_r.max(e / (2.2e-16 * (nn as f64).log2() * na * nb)); n += 1; }
        if prod.order() != da + db && ex[da + db].abs() > 1e-9 { degbad += 1; }
        // complex
        let ac: Vec<C> = (0..=da).map(|_| C::new(rng.r(-1.0, 1.0), rng.r(-1.0, 1.0))).collect(); let bc: Vec<C> = (0..=db).map(|_| C::new(rng.r(-1.0, 1.0), rng.r(-1.0, 1.0))).collect();
        let pac: Polynomial<C> = ac.iter().cloned().collect(); let pbc: Polynomial<C> = bc.iter().cloned().collect();
        let prodc = &pac * &pbc;
        let mut exc = vec![C::new(0.0, 0.0); da + db + 1]; for i in 0..=da { for j in 0..=db { exc[i + j] += ac[i] * bc[j]; } }
        let nac = ac.iter().map(|x| x.norm_sqr()).sum::<f64>().sqrt(); let nbc = bc.iter().map(|x| x.norm_sqr()).sum::<f64>().sqrt();
        let mut ec = 0.0f64; for k in 0..=da + db { ec = ec.max((prodc.get_coefficient(k) - exc[k]).norm()); }
        if da >= 2 && db >= 2 { worst_c = worst_c.max(ec / (2.2e-16 * (nn as f64).log2() * nac * nbc)); }
    }
    println!("C11: fft products {} worst err/(eps log2N |a||b|): real {:.3} complex {:.3e}; degree mismatches {}", n, worst_r, worst_c, degbad);
    // C18 exact coefficient check
    fn binom(n: u128, k: u128) -> u128 { let mut r = 1u128; for i in 0..k { r = r * (n - i) / (i + 1); } r }
    let mut worst = [0.0f64; 5];
    for n in 0..=20u32 { for tol in [1e-14, 1e-10, 1e-6] {
        let nn = n as u128;
        // Legendre
        let p = legendre::<f64>(n, tol).unwrap(); let mut mx = 0.0f64; let mut ex = vec![0.0f64; n as usize + 1];
        for k in 0..=(n / 2) as u128 { let c = (binom(nn, k) * binom(2 * nn - 2 * k, nn)) as f64 / 2f64.powi(n as i32) * if k % 2 == 0 { 1.0 } else { -1.0 }; ex[(nn - 2 * k) as usize] = c; mx = mx.max(c.abs()); }
        for k in 0..=n as usize { worst[0] = worst[0].max((p.get_coefficient(k) - ex[k]).abs() / (2.2e-16 * mx)); }
        if p.order() != n as usize { println!("legendre order {} != {}", p.order(), n); }
        // Chebyshev T via integer recurrence
        let mut t0 = vec![1i128]; let mut t1 = vec![0i128, 1];
        let tn = if n == 0 { t0.clone() } else { for _ in 1..n { let mut t2 = vec![0i128; t1.len() + 1]; for (i, c) in t1.iter().enumerate() { t2[i + 1] += 2 * c; } for (i, c) in t0.iter().enumerate() { t2[i] -= c; } t0 = t1; t1 = t2; } t1.clone() };
        let p = chebyshev::<f64>(n, tol).unwrap(); let mx = tn.iter().map(|c| c.abs()).max().unwrap() as f64;
        for k in 0..=n as usize { worst[1] = worst[1].max((p.get_coefficient(k) - tn[k] as f64).abs() / (2.2e-16 * mx)); }
        if p.order() != n as usize { println!("cheb order {} != {} tol {:e}", p.order(), n, tol); }
        // Hermite
        let p = hermite::<f64>(n, tol).unwrap(); let mut ex = vec![0.0f64; n as usize + 1]; let mut mx = 0.0f64;
        let fact = |m: u128| -> u128 { (1..=m).product::<u128>().max(1) };
        for k in 0..=(n / 2) as u128 { let c = (fact(nn) / (fact(k) * fact(nn - 2 * k))) as f64 * 2f64.powi((nn - 2 * k) as i32) * if k % 2 == 0 { 1.0 } else { -1.0 }; ex[(nn - 2 * k) as usize] = c; mx = mx.max(c.abs()); }
        for k in 0..=n as usize { worst[2] = worst[2].max((p.get_coefficient(k) - ex[k]).abs() / (2.2e-16 * mx)); }
        // Laguerre
        let p = laguerre::<f64>(n, tol).unwrap(); let mut mx = 0.0f64; let ex: Vec<f64> = (0..=nn).map(|k| binom(nn, k) as f64 / fact(k) as f64 * if k % 2 == 0 { 1.0 } else { -1.0 }).collect(); for c in &ex { mx = mx.max(c.abs()); }
        for k in 0..=n as usize { worst[3] = worst[3].max((p.get_coefficient(k) - ex[k]).abs() / (2.2e-16 * ex[k].abs().max(1e-300))); }
        if p.order() != n as usize { println!("laguerre order {} != {} tol {:e}", p.order(), n, tol); }
        let _ = mx;
    } }
    println!("C18 worst coefficient error in units of eps*max|coef|: legendre {:.2} chebyshev {:.2} hermite {:.2}; laguerre (relative per coefficient) {:.2}", worst[0], worst[1], worst[2], worst[3]);
}
