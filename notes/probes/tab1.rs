#[path = "/repo/src/integrate/tables.rs"]
#[allow(dead_code)]
mod tables;
use tables::*;
fn main() {
    println!("legendre rows {} hermite {} laguerre {} cheb {} cheb2 {} de {}", WEIGHTS_LEGENDRE.len(), WEIGHTS_HERMITE.len(), WEIGHTS_LAGUERRE.len(), WEIGHTS_CHEBYSHEV.len(), WEIGHTS_CHEBYSHEV_SECOND.len(), WEIGHTS_DE.len());
    for (name, t) in [("leg", WEIGHTS_LEGENDRE), ("herm", WEIGHTS_HERMITE), ("cheb", WEIGHTS_CHEBYSHEV), ("cheb2", WEIGHTS_CHEBYSHEV_SECOND)] {
        let mut bad = vec![];
        for (i, row) in t.iter().enumerate() {
            let n: usize = row.iter().map(|(x, _)| if *x == 0.0 {1} else {2}).sum();
            if n != i + 1 { bad.push((i+1, n)); }
        }
        println!("{} rows with wrong point count (expected, got): {:?}", name, bad);
    }
    let bad: Vec<_> = WEIGHTS_LAGUERRE.iter().enumerate().filter(|(i, r)| r.len() != i + 1).map(|(i, r)| (i+1, r.len())).collect();
    println!("laguerre wrong count {:?}", bad);
    for (l, row) in WEIGHTS_DE.iter().enumerate() {
        println!("DE level {} n={} first={:?} last={:?}", l, row.len(), row[0], row[row.len()-1]);
    }
    // moment check hermite deg 0 and 2
    for (i, row) in WEIGHTS_HERMITE.iter().enumerate() {
        let m0: f64 = row.iter().map(|(x,w)| if *x==0.0 {*w} else {2.0*w}).sum();
        let m2: f64 = row.iter().map(|(x,w)| if *x==0.0 {0.0} else {2.0*w*x*x}).sum();
        let spi = std::f64::consts::PI.sqrt();
        if (m0/spi - 1.0).abs() > 1e-12 || (i>0 && (m2/(spi/2.0) - 1.0).abs() > 1e-12) { println!("hermite n={} m0 rel err {:.3e} m2 rel err {:.3e}", i+1, m0/spi-1.0, m2/(spi/2.0)-1.0); }
    }
}
