use bacon_sci::roots::*;
use std::cell::RefCell;
use std::panic;

fn run_b(name: &str, which: &str, lo: f64, hi: f64, tol: f64, f: &dyn Fn(f64)->f64) {
    let log = RefCell::new(Vec::<f64>::new());
    let g = |x: f64| { let mut l = log.borrow_mut(); l.push(x); if l.len() > 5000 { panic!("budget"); } f(x) };
    let r = panic::catch_unwind(panic::AssertUnwindSafe(|| match which {
        "bis" => bisection((lo, hi), g, tol, 200),
        "brent" => brent((lo, hi), g, tol),
        _ => itp((lo, hi), g, 0.1, 2.0, 0.99, tol),
    }));
    let l = log.borrow();
    let (a, b) = (lo.min(hi), lo.max(hi));
    let outside = l.iter().filter(|x| **x < a || **x > b).count();
    println!("{:6} {:18} [{},{}] tol={:e} -> {:?} evals={} outside={}", which, name, lo, hi, tol, r.map_err(|_| "PANIC/budget"), l.len(), outside);
}

fn main() {
    panic::set_hook(Box::new(|_| {}));
    let fs: Vec<(&str, Box<dyn Fn(f64)->f64>, f64, f64)> = vec![
        ("x-0.9", Box::new(|x| x - 0.9), -1.0, 3.0),
        ("x-1.5 [1,2]", Box::new(|x| x - 1.5), 1.0, 2.0),
        ("1.5-x [1,2]", Box::new(|x| 1.5 - x), 1.0, 2.0),
        ("x^3", Box::new(|x| x*x*x), -1.0, 2.0),
        ("cos", Box::new(|x: f64| x.cos()), 0.0, 3.0),
        ("x-100.3 [100,101]", Box::new(|x| x - 100.3), 100.0, 101.0),
        ("exp(x)-5", Box::new(|x: f64| x.exp() - 5.0), 0.0, 4.0),
        ("5-exp(x)", Box::new(|x: f64| 5.0 - x.exp()), 0.0, 4.0),
        ("x-0.5 [0,1] dec", Box::new(|x: f64| 0.5 - x), 0.0, 1.0),
        ("same sign", Box::new(|x: f64| x*x + 1.0), -1.0, 1.0),
        ("(x-.3)^3", Box::new(|x: f64| (x-0.3).powi(3)), -1.0, 1.0),
    ];
    for (n, f, lo, hi) in fs.iter() {
        for w in ["bis", "brent", "itp"] {
            run_b(n, w, *lo, *hi, 1e-8, f.as_ref());
        }
        run_b(n, "brent", *hi, *lo, 1e-8, f.as_ref());
        run_b(n, "itp", *hi, *lo, 1e-8, f.as_ref());
    }
    println!("neg tol: {:?} {:?} {:?}", bisection((0.0,1.0), |x| x-0.5, -1e-3, 100), brent((0.0,1.0), |x| x-0.5, -1e-3), itp((0.0,1.0), |x| x-0.5, 0.1, 2.0, 0.99, -1e-3));
    println!("zero tol: {:?} {:?}", brent((0.0,1.0), |x| x-0.3, 0.0), 0);
    println!("itp bad k: {:?} {:?} {:?}", itp((0.0,1.0), |x| x-0.5, -0.1, 2.0, 0.99, 1e-3), itp((0.0,1.0), |x| x-0.5, 0.1, 1.0, 0.99, 1e-3), itp((0.0,1.0), |x| x-0.5, 0.1, 2.0, -1.0, 1e-3));
}
