use bacon_sci::polynomial::Polynomial;
fn main() {
    let lead = 1.6340953512844187f64; let r = 0.8866234521683605f64;
    let mut c = vec![0.0; 6]; c[0] = -lead * r.powi(5); c[5] = lead;
    let p: Polynomial<f64> = c.iter().cloned().collect();
    for tol in [1e-3, 1e-5, 1.9e-7, 1e-9, 1e-12] { println!("tol {:e}: {:?}", tol, p.roots(tol, 1000).map(|v| v.len())); }
    // coefficients as produced by expansion (with rounding noise in the zero coefficients)
    let noisy: Polynomial<f64> = vec![c[0], 1e-17, -2e-17, 3e-17, 1e-16, lead].into_iter().collect();
    for tol in [1e-3, 1.9e-7, 1e-12] { println!("noisy tol {:e}: {:?}", tol, noisy.roots(tol, 1000).map(|v| v.len())); }
}
