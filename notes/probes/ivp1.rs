use bacon_sci::ivp::{adams::*, bdf::*, rk::*, Euler, IVPSolver, IVPError, UserError};
use bacon_sci::{BSVector};
use std::cell::Cell;
use std::rc::Rc;

macro_rules! run {
    ($name:expr, $ty:ident, $f:expr, $t0:expr, $t1:expr, $y0:expr, $dtmin:expr, $dtmax:expr, $tol:expr) => {{
        let cnt = Rc::new(Cell::new(0usize));
        let c2 = cnt.clone();
        let f = $f;
        let deriv = move |t: f64, y: &[f64], _: &mut ()| -> Result<BSVector<f64, 1>, UserError> {
            c2.set(c2.get() + 1);
            if c2.get() > 3_000_000 { return Err("budget".into()); }
            Ok(BSVector::<f64,1>::new(f(t, y[0])))
        };
        let r = (|| -> Result<_, IVPError> {
            let s = $ty::new()?.with_minimum_dt($dtmin)?.with_maximum_dt($dtmax)?.with_tolerance($tol)?
                .with_initial_time($t0)?.with_ending_time($t1)?.with_initial_conditions_slice(&[$y0])?
                .with_derivative(deriv).solve(())?;
            s.collect_vec()
        })();
        match r {
            Ok(p) => {
                let n = p.len();
                let first = p.first().map(|x| x.0);
                let last = p.last().map(|x| (x.0, x.1[0]));
                let mut maxgap: f64 = 0.0; let mut prev = $t0; let mut mono = true;
                for (t, _) in &p { if *t <= prev { mono = false; } maxgap = maxgap.max(*t - prev); prev = *t; }
                println!("{:8} OK n={} evals={} first={:?} last={:?} maxgap={:.4e} mono={}", $name, n, cnt.get(), first, last, maxgap, mono);
            }
            Err(e) => println!("{:8} ERR {:?} evals={}", $name, e, cnt.get()),
        }
    }};
}

fn main() {
    let probs: Vec<(&str, Box<dyn Fn(f64,f64)->f64>, f64, f64, f64)> = vec![
        ("y'=y", Box::new(|_t, y| y), 0.0, 2.0, 1.0),
        ("y'=-y", Box::new(|_t, y| -y), 0.0, 2.0, 1.0),
        ("y'=cos t", Box::new(|t, _y| t.cos()), 0.0, 2.0, 0.0),
        ("y'=-2ty", Box::new(|t, y| -2.0*t*y), 0.0, 2.0, 1.0),
        ("y'=0", Box::new(|_t, _y| 0.0), 0.0, 2.0, 1.0),
    ];
    for (name, f, t0, t1, y0) in probs.iter() {
        println!("=== {} tol=1e-5 dtmax=0.1 dtmin=1e-7", name);
        run!("RK45", RungeKutta45, |t,y| f(t,y), *t0, *t1, *y0, 1e-7, 0.1, 1e-5);
        run!("RK23", RungeKutta23, |t,y| f(t,y), *t0, *t1, *y0, 1e-7, 0.1, 1e-5);
        run!("Adams5", Adams5, |t,y| f(t,y), *t0, *t1, *y0, 1e-7, 0.1, 1e-5);
        run!("Adams3", Adams3, |t,y| f(t,y), *t0, *t1, *y0, 1e-7, 0.1, 1e-5);
        run!("BDF6", BDF6, |t,y| f(t,y), *t0, *t1, *y0, 1e-7, 0.1, 1e-5);
        run!("BDF2", BDF2, |t,y| f(t,y), *t0, *t1, *y0, 1e-7, 0.1, 1e-5);
    }
    let _ = Euler::<f64, nalgebra::Const<1>, (), fn(f64,&[f64],&mut ())->Result<BSVector<f64,1>,UserError>>::new();
}
