#[path = "/repo/src/integrate/tables.rs"]
#[allow(dead_code)]
mod tables;
use tables::*;
// orthonormal polynomials via three-term recurrence: returns p_0..p_n at x
fn ortho(family: u8, n: usize, x: f64) -> Vec<f64> {
    // monic recurrence: pi_{k+1} = (x - a_k) pi_k - b_k pi_{k-1}; orthonormal p_k = pi_k / sqrt(b_0 b_1 ... b_k)
    let (a, b): (Box<dyn Fn(usize) -> f64>, Box<dyn Fn(usize) -> f64>) = match family {
        0 => (Box::new(|_| 0.0), Box::new(|k| if k == 0 { 2.0 } else { (k * k) as f64 / (4.0 * (k * k) as f64 - 1.0) })), // Legendre
        1 => (Box::new(|_| 0.0), Box::new(|k| if k == 0 { std::f64::consts::PI.sqrt() } else { k as f64 / 2.0 })), // Hermite
        2 => (Box::new(|k| 2.0 * k as f64 + 1.0), Box::new(|k| if k == 0 { 1.0 } else { (k * k) as f64 })), // Laguerre
        3 => (Box::new(|_| 0.0), Box::new(|k| if k == 0 { std::f64::consts::PI } else if k == 1 { 0.5 } else { 0.25 })), // Chebyshev 1
        _ => (Box::new(|_| 0.0), Box::new(|k| if k == 0 { std::f64::consts::PI / 2.0 } else { 0.25 })), // Chebyshev 2
    };
    let mut p = vec![0.0; n + 1];
    p[0] = 1.0 / b(0).sqrt();
    let mut pm1 = 0.0;
    for k in 0..n { let pk = p[k]; let next = ((x - a(k)) * pk - b(k).sqrt() * pm1 * if k == 0 { 0.0 } else { 1.0 }) / b(k + 1).sqrt(); pm1 = pk; p[k + 1] = next; }
    p
}
fn expand(row: &[(f64, f64)], sym: bool) -> Vec<(f64, f64)> { let mut v = vec![]; for &(x, w) in row { if !sym || x == 0.0 { v.push((x, w)); } else { v.push((x, w)); v.push((-x, w)); } } v }
fn main() {
    let fams: [(&str, u8, &[&[(f64, f64)]], bool); 5] = [("legendre", 0, WEIGHTS_LEGENDRE, true), ("hermite", 1, WEIGHTS_HERMITE, true), ("laguerre", 2, WEIGHTS_LAGUERRE, false), ("cheb1", 3, WEIGHTS_CHEBYSHEV, true), ("cheb2", 4, WEIGHTS_CHEBYSHEV_SECOND, true)];
    for (name, fam, table, sym) in fams.iter() {
        let mut worst_zero = 0.0f64; let mut worst_w = 0.0f64; let mut worst_on = 0.0f64; let mut where_ = (0, 0, 0);
        for (i, row) in table.iter().enumerate() {
            let n = i + 1; let pts = expand(row, *sym);
            if pts.len() != n { println!("{} n={} skipped (count {})", name, n, pts.len()); continue; }
            for (x, w) in &pts {
                let p = ortho(*fam, n, *x);
                let s: f64 = p[..n].iter().map(|v| v * v).sum();
                let z = p[n].abs() / (s.sqrt() * (n as f64)); // normalised
                worst_zero = worst_zero.max(z);
                let cw = 1.0 / s; let rel = (cw - w).abs() / w; if rel > worst_w { worst_w = rel; where_ = (n, 0, 0); }
            }
            // discrete orthonormality for j+k <= 2n-1
            for j in 0..n { for k in j..n { if j + k > 2 * n - 1 { continue; } let mut s = 0.0; let mut sa = 0.0; for (x, w) in &pts { let p = ortho(*fam, n, *x); s += w * p[j] * p[k]; sa += (w * p[j] * p[k]).abs(); } let target = if j == k { 1.0 } else { 0.0 }; let e = (s - target).abs() / sa.max(1.0); worst_on = worst_on.max(e); } }
        }
        println!("{:9} worst |p_n(x_i)| normalised {:.3e}; worst Christoffel rel mismatch {:.3e} (row {}); worst orthonormality residual {:.3e}", name, worst_zero, worst_w, where_.0, worst_on);
    }
    // tanh-sinh
    let mut worst = (0.0f64, 0.0f64);
    for (l, row) in WEIGHTS_DE.iter().enumerate() {
        let h = 1.0 / (1u64 << l) as f64;
        for (j, (w, x)) in row.iter().enumerate() {
            let t = if l == 0 { (j + 1) as f64 } else { (2 * j + 1) as f64 * h };
            let s = std::f64::consts::FRAC_PI_2 * t.sinh();
            let xr = s.tanh(); let wr = h * std::f64::consts::FRAC_PI_2 * t.cosh() / (s.cosh() * s.cosh());
            worst.0 = worst.0.max((x - xr).abs()); worst.1 = worst.1.max((w - wr).abs() / wr);
        }
    }
    println!("tanh-sinh worst |x - formula| {:.3e}, worst rel weight diff {:.3e}", worst.0, worst.1);
}
