// The harness audits files of the repository under test directly (the private quadrature tables
// are compiled into it, codata.txt is parsed at run time). The repository is /repo unless the
// validation helpers point BACON_REPO at a scratch worktree (tools/ only; every command registered
// in MANIFEST.json uses /repo).
use std::io::Write;
fn main() {
    let repo = std::env::var("BACON_REPO").unwrap_or_else(|_| "/repo".to_string());
    let out = std::env::var("OUT_DIR").unwrap();
    let tables = format!("{}/src/integrate/tables.rs", repo);
    let mut f = std::fs::File::create(format!("{}/tables_include.rs", out)).unwrap();
    writeln!(f, "include!({:?});", tables).unwrap();
    println!("cargo:rustc-env=BACON_REPO_DIR={}", repo);
    println!("cargo:rerun-if-env-changed=BACON_REPO");
    println!("cargo:rerun-if-changed={}", tables);
    println!("cargo:rerun-if-changed=build.rs");
}
