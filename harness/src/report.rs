//! Verdicts, evidence, replay files, known findings and the parallel case runner.

use crate::json::{self, J};
use crate::probe;
use std::collections::{BTreeMap, HashSet};
use std::panic::{self, AssertUnwindSafe};
use std::sync::atomic::{AtomicU64, Ordering};
use std::sync::{mpsc, Arc};
use std::time::{Duration, Instant};

#[derive(Clone, Copy, PartialEq, Eq, Debug)]
pub enum Tier {
    Quick,
    Thorough,
}
impl Tier {
    pub fn name(self) -> &'static str {
        match self {
            Tier::Quick => "quick",
            Tier::Thorough => "thorough",
        }
    }
    /// pick by tier
    pub fn pick<T>(self, quick: T, thorough: T) -> T {
        match self {
            Tier::Quick => quick,
            Tier::Thorough => thorough,
        }
    }
}

#[derive(Clone)]
pub struct Ctx {
    pub tier: Tier,
    pub seed: u64,
    pub threads: usize,
    pub base: String,
    /// replay mode: run only this (stage, index)
    pub only: Option<(String, u64)>,
    /// 1 = every case; k > 1 = in stages of more than 64 cases only the cases with index % k == 0
    /// (used by the second pass in the build profile without debug assertions, see main.rs)
    pub stride: u64,
}

#[derive(Clone, Debug)]
pub struct Violation {
    pub signature: String,
    pub stage: String,
    pub index: u64,
    pub case: J,
    pub detail: String,
}

pub const MAX_SAMPLES: usize = 5;
pub const MAX_STORED_VIOLATIONS: usize = 40;

/// Per-thread accumulator; merged deterministically (order independent) at the end.
#[derive(Default)]
pub struct Report {
    pub evaluations: u64,
    pub nontrivial: HashSet<u64>,
    pub inconclusive: BTreeMap<String, u64>,
    pub counters: BTreeMap<String, i64>,
    pub maxima: BTreeMap<String, f64>,
    pub minima: BTreeMap<String, f64>,
    pub samples: Vec<(String, u64, J)>,
    pub violations: Vec<Violation>,
    pub violation_count: u64,
    pub harness_errors: Vec<String>,
    pub cur_stage: String,
    pub cur_index: u64,
}

impl Report {
    pub fn eval(&mut self) {
        self.evaluations += 1;
    }
    pub fn evals(&mut self, n: u64) {
        self.evaluations += n;
    }
    pub fn nontrivial(&mut self, h: u64) {
        self.nontrivial.insert(h);
    }
    pub fn count(&mut self, k: &str, n: i64) {
        *self.counters.entry(k.to_string()).or_insert(0) += n;
    }
    pub fn max(&mut self, k: &str, v: f64) {
        if v.is_nan() {
            return;
        }
        let e = self.maxima.entry(k.to_string()).or_insert(f64::NEG_INFINITY);
        if v > *e {
            *e = v;
        }
    }
    pub fn min(&mut self, k: &str, v: f64) {
        if v.is_nan() {
            return;
        }
        let e = self.minima.entry(k.to_string()).or_insert(f64::INFINITY);
        if v < *e {
            *e = v;
        }
    }
    pub fn inconclusive(&mut self, why: &str) {
        *self.inconclusive.entry(why.to_string()).or_insert(0) += 1;
    }
    pub fn wants_sample(&self) -> bool {
        self.samples.len() < MAX_SAMPLES
    }
    pub fn sample(&mut self, j: J) {
        if self.samples.len() < MAX_SAMPLES {
            self.samples.push((self.cur_stage.clone(), self.cur_index, j));
        }
    }
    pub fn violation(&mut self, signature: &str, case: J, detail: String) {
        self.violation_count += 1;
        *self.counters.entry(format!("violations/{}", signature)).or_insert(0) += 1;
        // keep at most a few per signature so that one noisy failure mode cannot hide another
        let same = self.violations.iter().filter(|v| v.signature == signature).count();
        if same < 6 && self.violations.len() < MAX_STORED_VIOLATIONS {
            self.violations.push(Violation {
                signature: signature.to_string(),
                stage: self.cur_stage.clone(),
                index: self.cur_index,
                case,
                detail,
            });
        }
    }
    pub fn merge(&mut self, o: Report) {
        self.evaluations += o.evaluations;
        self.nontrivial.extend(o.nontrivial);
        for (k, v) in o.inconclusive {
            *self.inconclusive.entry(k).or_insert(0) += v;
        }
        for (k, v) in o.counters {
            *self.counters.entry(k).or_insert(0) += v;
        }
        for (k, v) in o.maxima {
            let e = self.maxima.entry(k).or_insert(f64::NEG_INFINITY);
            if v > *e {
                *e = v;
            }
        }
        for (k, v) in o.minima {
            let e = self.minima.entry(k).or_insert(f64::INFINITY);
            if v < *e {
                *e = v;
            }
        }
        self.samples.extend(o.samples);
        self.violations.extend(o.violations);
        self.violation_count += o.violation_count;
        self.harness_errors.extend(o.harness_errors);
    }
    pub fn counter(&self, k: &str) -> i64 {
        *self.counters.get(k).unwrap_or(&0)
    }
}

pub type CaseFn = Arc<dyn Fn(u64, &mut Report) + Send + Sync>;

pub struct Stage {
    pub name: &'static str,
    pub n: u64,
    pub f: CaseFn,
}

impl Stage {
    pub fn new(name: &'static str, n: u64, f: impl Fn(u64, &mut Report) + Send + Sync + 'static) -> Stage {
        Stage { name, n, f: Arc::new(f) }
    }
}

/// Minimum-observation threshold: a run that observed less is INCONCLUSIVE (exit 2), never "held".
pub struct Threshold {
    pub what: String,
    pub required: f64,
    pub observed: f64,
}

pub struct CheckMeta {
    pub id: &'static str,
    pub level: &'static str,
    pub rule: String,
    pub assumptions: Vec<String>,
    pub exhaustive: bool,
    /// true when termination is part of the property: a case stuck without callback progress
    /// is then a violation, otherwise it is inconclusive
    pub stuck_is_violation: bool,
}

/// maximum that does not swallow NaN (f64::max returns the other operand when one is NaN, which would
/// hide a NaN result behind a finite companion)
pub fn nmax(a: f64, b: f64) -> f64 {
    if a.is_nan() || b.is_nan() {
        f64::NAN
    } else {
        a.max(b)
    }
}

pub struct StuckCase {
    pub stage: String,
    pub index: u64,
    pub secs: f64,
    pub ticks_moved: bool,
    /// CPU time the worker thread consumed while sitting in this case (from /proc/self/task/<tid>/stat,
    /// sampled by the watchdog); None when it could not be read
    pub cpu_secs: Option<f64>,
}

/// utime + stime of one thread of this process, in seconds (Linux: fields 14 and 15 of
/// /proc/self/task/<tid>/stat, clock ticks of 1/100 s)
fn thread_cpu_secs(tid: u64) -> Option<f64> {
    let s = std::fs::read_to_string(format!("/proc/self/task/{}/stat", tid)).ok()?;
    // the command name (field 2) is parenthesised and may contain spaces
    let rest = &s[s.rfind(')')? + 1..];
    let f: Vec<&str> = rest.split_whitespace().collect();
    // rest starts at field 3 (state): utime is field 14 -> index 11, stime field 15 -> index 12
    let ut: f64 = f.get(11)?.parse().ok()?;
    let st: f64 = f.get(12)?.parse().ok()?;
    Some((ut + st) / 100.0)
}

fn own_tid() -> u64 {
    std::fs::read_link("/proc/thread-self").ok().and_then(|p| p.file_name().and_then(|n| n.to_str().and_then(|t| t.parse().ok()))).unwrap_or(0)
}

/// Run all stages on `ctx.threads` workers. Returns the merged report and the stuck cases.
pub fn run_stages(ctx: &Ctx, stages: Vec<Stage>, watchdog: Duration) -> (Report, Vec<StuckCase>) {
    let mut total = Report::default();
    let mut stuck_all = vec![];
    for st in stages {
        if let Some((ref s, _)) = ctx.only {
            if s != st.name {
                continue;
            }
        }
        let (r, stuck) = run_stage(ctx, &st, watchdog);
        total.merge(r);
        stuck_all.extend(stuck);
        if !stuck_all.is_empty() {
            break; // worker threads are lost; stop here
        }
    }
    (total, stuck_all)
}

fn run_one(f: &CaseFn, stage: &str, idx: u64, rep: &mut Report) {
    rep.cur_stage = stage.to_string();
    rep.cur_index = idx;
    probe::begin(u64::MAX);
    let _ = probe::take_last_panic();
    let res = panic::catch_unwind(AssertUnwindSafe(|| (f)(idx, rep)));
    if let Err(payload) = res {
        let (msg, loc) = probe::take_last_panic().unwrap_or_else(|| {
            let m = if let Some(s) = payload.downcast_ref::<&str>() {
                s.to_string()
            } else if let Some(s) = payload.downcast_ref::<String>() {
                s.clone()
            } else {
                "panic".into()
            };
            (m, String::new())
        });
        // A panic that escaped the check's own guards. If it originates in the harness sources it
        // is a harness error (never a verdict about the code under test); otherwise the library
        // panicked on a path no monitor expected, which no property tolerates.
        if loc.starts_with("src/") || loc.is_empty() {
            rep.harness_errors.push(format!("stage {} case {}: harness panic '{}' at {}", stage, idx, msg, loc));
        } else {
            rep.violation(
                "unexpected-panic",
                J::obj().set("stage", stage).set("index", idx),
                format!("library panicked outside any guarded call: '{}' at {}", msg, loc),
            );
        }
    }
}

fn run_stage(ctx: &Ctx, st: &Stage, watchdog: Duration) -> (Report, Vec<StuckCase>) {
    if let Some((_, idx)) = ctx.only {
        let mut rep = Report::default();
        run_one(&st.f, st.name, idx, &mut rep);
        return (rep, vec![]);
    }
    let n = st.n;
    let stride = if n > 64 { ctx.stride.max(1) } else { 1 };
    let threads = ctx.threads.max(1).min(n.max(1) as usize);
    let next = Arc::new(AtomicU64::new(0));
    let (tx, rx) = mpsc::channel::<(usize, Report)>();
    // slots: current index (u64::MAX = idle), start millis, tick counter
    let t0 = Instant::now();
    let mut slots = vec![];
    let mut tids: Vec<Arc<AtomicU64>> = vec![];
    for w in 0..threads {
        let cur = Arc::new(AtomicU64::new(u64::MAX));
        let started = Arc::new(AtomicU64::new(0));
        let ticks = Arc::new(AtomicU64::new(0));
        let tid = Arc::new(AtomicU64::new(0));
        tids.push(tid.clone());
        slots.push((cur.clone(), started.clone(), ticks.clone()));
        let next = next.clone();
        let tx = tx.clone();
        let f = st.f.clone();
        let name = st.name.to_string();
        std::thread::Builder::new()
            .stack_size(64 << 20)
            .spawn(move || {
                probe::set_slot(ticks);
                tid.store(own_tid(), Ordering::SeqCst);
                let mut rep = Report::default();
                loop {
                    let i = next.fetch_add(stride, Ordering::SeqCst);
                    if i >= n {
                        break;
                    }
                    started.store(t0.elapsed().as_millis() as u64, Ordering::SeqCst);
                    cur.store(i, Ordering::SeqCst);
                    run_one(&f, &name, i, &mut rep);
                    cur.store(u64::MAX, Ordering::SeqCst);
                }
                let _ = tx.send((w, rep));
            })
            .expect("spawn worker");
    }
    drop(tx);
    let mut total = Report::default();
    let mut done = vec![false; threads];
    let mut last_ticks: Vec<(u64, u64)> = vec![(0, 0); threads]; // (ticks, at millis)
    // (case index, thread CPU seconds when the watchdog first saw the worker in that case)
    let mut cpu_seen: Vec<(u64, Option<f64>)> = vec![(u64::MAX, None); threads];
    let mut stuck = vec![];
    loop {
        match rx.recv_timeout(Duration::from_millis(250)) {
            Ok((w, rep)) => {
                done[w] = true;
                total.merge(rep);
            }
            Err(mpsc::RecvTimeoutError::Disconnected) => break,
            Err(mpsc::RecvTimeoutError::Timeout) => {}
        }
        if done.iter().all(|d| *d) {
            break;
        }
        // watchdog
        let now = t0.elapsed().as_millis() as u64;
        let mut all_rest_stuck = true;
        let mut any_stuck = false;
        for w in 0..threads {
            if done[w] {
                continue;
            }
            let (cur, started, ticks) = &slots[w];
            let c = cur.load(Ordering::SeqCst);
            let tk = ticks.load(Ordering::Relaxed);
            if tk != last_ticks[w].0 {
                last_ticks[w] = (tk, now);
            }
            let run_ms = now.saturating_sub(started.load(Ordering::SeqCst));
            // CPU accounting only for cases that have been running for a while (cheap: a few file reads per second)
            if c != u64::MAX && run_ms > 1_000 && cpu_seen[w].0 != c {
                cpu_seen[w] = (c, thread_cpu_secs(tids[w].load(Ordering::SeqCst)));
            }
            if c != u64::MAX && run_ms > watchdog.as_millis() as u64 {
                any_stuck = true;
            } else {
                all_rest_stuck = false;
            }
        }
        if any_stuck && all_rest_stuck {
            // every unfinished worker sits in a case beyond the watchdog. Before giving up on them, let
            // each one accumulate the CPU time on which "spinning" is decided (on a machine shared with
            // other work a thread may get a fraction of a core): wait on, up to five watchdog periods
            let need = 0.5 * (watchdog.as_millis() as f64 / 1000.0).min(90.0);
            let mut all_burnt = true;
            for w in 0..threads {
                if done[w] {
                    continue;
                }
                let c = slots[w].0.load(Ordering::SeqCst);
                let burnt = match (cpu_seen[w], thread_cpu_secs(tids[w].load(Ordering::SeqCst))) {
                    ((ci, Some(c0)), Some(c1)) if ci == c => c1 - c0 >= need,
                    _ => true, // CPU time not readable: nothing to wait for
                };
                if !burnt {
                    all_burnt = false;
                }
            }
            let longest = (0..threads).filter(|w| !done[*w]).map(|w| now.saturating_sub(slots[w].1.load(Ordering::SeqCst))).max().unwrap_or(0);
            if !all_burnt && longest < 5 * watchdog.as_millis() as u64 {
                continue;
            }
            for w in 0..threads {
                if done[w] {
                    continue;
                }
                let (cur, started, _) = &slots[w];
                let c = cur.load(Ordering::SeqCst);
                let run_ms = now.saturating_sub(started.load(Ordering::SeqCst));
                let moved = now.saturating_sub(last_ticks[w].1) < (watchdog.as_millis() as u64) / 2;
                let cpu = match (cpu_seen[w], thread_cpu_secs(tids[w].load(Ordering::SeqCst))) {
                    ((ci, Some(c0)), Some(c1)) if ci == c => Some(c1 - c0),
                    _ => None,
                };
                stuck.push(StuckCase { stage: st.name.to_string(), index: c, secs: run_ms as f64 / 1000.0, ticks_moved: moved, cpu_secs: cpu });
            }
            break;
        }
    }
    (total, stuck)
}

// ------------------------------------------------------------------ known findings

#[derive(Clone, Debug)]
pub struct KnownFinding {
    pub id: String,
    pub property: String,
    pub status: String,
    pub signature: String,
    pub what: String,
}

pub fn load_known(base: &str) -> Result<Vec<KnownFinding>, String> {
    let path = format!("{}/known_findings.json", base);
    let src = match std::fs::read_to_string(&path) {
        Ok(s) => s,
        Err(_) => return Ok(vec![]),
    };
    let j = json::parse(&src).map_err(|e| format!("{}: {}", path, e))?;
    let mut out = vec![];
    if let Some(arr) = j.get("findings").and_then(|a| a.as_arr()) {
        for e in arr {
            let g = |k: &str| e.get(k).and_then(|v| v.as_str()).unwrap_or("").to_string();
            out.push(KnownFinding { id: g("id"), property: g("property"), status: g("status"), signature: g("signature"), what: g("what") });
        }
    }
    Ok(out)
}

// ------------------------------------------------------------------ finalisation

pub fn finalize(ctx: &Ctx, meta: &CheckMeta, mut rep: Report, stuck: Vec<StuckCase>, thresholds: Vec<Threshold>, wall_s: f64, extra: J) -> i32 {
    let id = meta.id;
    // deterministic order
    rep.violations.sort_by(|a, b| (a.stage.as_str(), a.index, a.signature.as_str()).cmp(&(b.stage.as_str(), b.index, b.signature.as_str())));
    rep.samples.sort_by(|a, b| (a.0.as_str(), a.1).cmp(&(b.0.as_str(), b.1)));
    // spread samples across stages: take round-robin by stage
    let mut by_stage: BTreeMap<String, Vec<J>> = BTreeMap::new();
    for (s, i, j) in rep.samples.drain(..) {
        by_stage.entry(s.clone()).or_default().push(J::obj().set("stage", s).set("index", i).set("case", j));
    }
    let mut samples = vec![];
    let mut k = 0;
    while samples.len() < MAX_SAMPLES {
        let mut any = false;
        for v in by_stage.values() {
            if k < v.len() && samples.len() < MAX_SAMPLES {
                samples.push(v[k].clone());
                any = true;
            }
        }
        if !any {
            break;
        }
        k += 1;
    }

    let known = match load_known(&ctx.base) {
        Ok(k) => k,
        Err(e) => {
            rep.harness_errors.push(e);
            vec![]
        }
    };

    for s in &stuck {
        let case = J::obj().set("stage", s.stage.as_str()).set("index", s.index).set("seconds", s.secs).set("thread_cpu_seconds", s.cpu_secs.unwrap_or(-1.0));
        // "Spinning" is decided on work done, not on wall-clock time: the worker thread must have
        // burnt at least half the watchdog period of CPU time inside this one case (about 1e11
        // instructions on inputs of a few hundred numbers) without returning and without calling
        // back. A loaded or suspended machine leaves the CPU figure low: that stays inconclusive.
        let burnt = matches!(s.cpu_secs, Some(c) if c >= 45.0);
        if meta.stuck_is_violation && !s.ticks_moved && burnt {
            rep.cur_stage = s.stage.clone();
            rep.cur_index = s.index;
            rep.violation("no-termination", case, format!("case ran {:.0} s ({:.0} s of CPU time on its thread) without finishing and without calling back: the library is spinning", s.secs, s.cpu_secs.unwrap_or(0.0)));
        } else {
            rep.inconclusive("watchdog");
            println!("INCONCLUSIVE property={} watchdog fired on stage {} case {} after {:.0} s", id, s.stage, s.index, s.secs);
        }
    }

    // split violations into known findings and new ones
    let mut new_viol: Vec<&Violation> = vec![];
    let mut known_hits: BTreeMap<String, (u64, String)> = BTreeMap::new();
    for v in &rep.violations {
        if let Some(k) = known.iter().find(|k| k.status == "open" && k.property == id && k.signature == v.signature) {
            let e = known_hits.entry(k.id.clone()).or_insert((0, k.what.clone()));
            e.0 += 1;
        } else {
            new_viol.push(v);
        }
    }
    // the counters hold the complete counts per signature
    let mut new_total: u64 = 0;
    let mut known_total: u64 = 0;
    for (k, n) in rep.counters.iter() {
        if let Some(sig) = k.strip_prefix("violations/") {
            if known.iter().any(|kf| kf.status == "open" && kf.property == id && kf.signature == sig) {
                known_total += *n as u64;
            } else {
                new_total += *n as u64;
            }
        }
    }

    let _ = std::fs::create_dir_all(format!("{}/replay", ctx.base));
    let _ = std::fs::create_dir_all(format!("{}/evidence", ctx.base));
    for (kid, (n, what)) in &known_hits {
        println!("KNOWN-FINDING: property={} {} [{}; matched {} stored case(s) this run]", id, what, kid, n);
    }
    let mut printed = 0;
    for (n, v) in new_viol.iter().enumerate() {
        let path = format!("{}/replay/{}-{}-s{}-{}.json", ctx.base, id, ctx.tier.name(), ctx.seed, n);
        let j = J::obj()
            .set("property", id)
            .set("tier", ctx.tier.name())
            .set("seed", ctx.seed)
            .set("stage", v.stage.as_str())
            .set("index", v.index)
            .set("signature", v.signature.as_str())
            .set("detail", v.detail.as_str())
            .set("case", v.case.clone());
        let _ = std::fs::write(&path, j.to_string_pretty());
        if printed < 12 {
            println!("VIOLATION property={} replay={}", id, path);
            println!("  [{}] stage {} case {}: {}", v.signature, v.stage, v.index, v.detail);
            printed += 1;
        }
    }
    if new_viol.len() > printed {
        println!("  ... {} more stored violation(s), {} in total", new_viol.len() - printed, new_total);
    }

    let mut unmet = vec![];
    for t in &thresholds {
        if !(t.observed >= t.required) {
            unmet.push(format!("{} (required {}, observed {})", t.what, t.required, t.observed));
        }
    }

    // evidence
    let distinct = rep.nontrivial.len() as u64;
    let mut cov = J::obj()
        .set("evaluations", rep.evaluations)
        .set("distinct_nontrivial", distinct)
        .set("rule", meta.rule.as_str())
        .set("samples", J::Arr(samples))
        .set("exhaustive", meta.exhaustive);
    let mut counters = J::obj();
    for (k, v) in &rep.counters {
        counters.put(k, *v);
    }
    cov.put("counters", counters);
    let mut maxima = J::obj();
    for (k, v) in &rep.maxima {
        maxima.put(k, *v);
    }
    cov.put("observed_maxima", maxima);
    let mut minima = J::obj();
    for (k, v) in &rep.minima {
        minima.put(k, *v);
    }
    cov.put("observed_minima", minima);
    let mut inc = J::obj();
    for (k, v) in &rep.inconclusive {
        inc.put(k, *v);
    }
    cov.put("inconclusive", inc);
    cov.put(
        "thresholds",
        J::Arr(thresholds.iter().map(|t| J::obj().set("what", t.what.as_str()).set("required", t.required).set("observed", t.observed)).collect()),
    );
    cov.put("known_findings_matched", known_total);
    if let J::Obj(e) = extra {
        for (k, v) in e {
            cov.put(&k, v);
        }
    }
    let verdict = if new_total > 0 {
        "violated"
    } else if !rep.harness_errors.is_empty() {
        "harness-error"
    } else if (!unmet.is_empty() && ctx.only.is_none()) || (!stuck.is_empty() && new_total == 0) {
        "inconclusive"
    } else {
        "held-on-observed"
    };
    cov.put("verdict", verdict);
    let ev = J::obj()
        .set("property_id", id)
        .set("tier", ctx.tier.name())
        .set("seed", ctx.seed)
        .set("level", meta.level)
        .set("coverage", cov)
        .set("assumptions", J::Arr(meta.assumptions.iter().map(|s| J::from(s.as_str())).collect()))
        .set("wall_s", wall_s)
        .set("violations", new_total);
    if ctx.only.is_none() {
        let path = format!("{}/evidence/{}.json", ctx.base, id);
        if let Err(e) = std::fs::write(&path, ev.to_string_pretty()) {
            println!("HARNESS-ERROR property={} cannot write {}: {}", id, path, e);
            return 3;
        }
    }

    println!(
        "SUMMARY property={} tier={} seed={} verdict={} evaluations={} distinct_nontrivial={} violations={} known={} inconclusive_cases={} wall_s={:.1}",
        id,
        ctx.tier.name(),
        ctx.seed,
        verdict,
        rep.evaluations,
        distinct,
        new_total,
        known_total,
        rep.inconclusive.values().sum::<u64>(),
        wall_s
    );
    for (k, v) in &rep.maxima {
        println!("  max {} = {:.4e}", k, v);
    }
    if new_total > 0 {
        return 1;
    }
    if !rep.harness_errors.is_empty() {
        for e in rep.harness_errors.iter().take(10) {
            println!("HARNESS-ERROR property={} {}", id, e);
        }
        return 3;
    }
    if !unmet.is_empty() && ctx.only.is_none() {
        for u in &unmet {
            println!("INCONCLUSIVE property={} observation threshold not met: {}", id, u);
        }
        return 2;
    }
    if !stuck.is_empty() {
        return 2;
    }
    0
}
