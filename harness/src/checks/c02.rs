//! C02 — accepted IVP steps are locally accurate to the requested tolerance.
//! Every consecutive pair of points of every path is compared with a harness-side reference flow
//! of the same ODE restarted at the previous yielded point.

use crate::gen::ivp::*;
use crate::ivpdrv::*;
use crate::json::J;
use crate::refmodel::schemes::*;
use crate::report::*;
use crate::rng::{CaseHash, Rng};

const EPS: f64 = f64::EPSILON;

/// K_s: local error <= K_s tol h (RK, Adams) or K_s tol (BDF). Frozen values and the reasons are in
/// DESIGN.md §4 C02 (observed maxima are written to the evidence on every run).
pub fn k_const(s: Solver) -> f64 {
    match s {
        // observed maxima over 90 000 solves (thorough, seed 1) in the comment
        Solver::RK45 => 8.0,    // 0.94
        Solver::RK23 => 2.0,    // 0.052 (the propagated third-order value is far more accurate than its second-order estimate)
        Solver::Adams3 => 8.0,  // 0.48
        Solver::BDF2 => 4.0,    // 0.17
        Solver::Adams5 => 60.0, // 6.8 (RK4 start-up / final steps are not error controlled)
        Solver::BDF6 => 150.0,  // 6.9 (14.9 in the design prototype)
        Solver::Euler => f64::NAN,
    }
}

pub fn meta() -> CheckMeta {
    CheckMeta {
        id: "C02",
        level: "exploration",
        rule: "cases: 6 adaptive solvers x G-ivp problems (dim 1-4, general/linear/autonomous/relaxing) x tol 1e-10..1e-3 with L*dt_max placed as the property prescribes (x factor in [0.5,1]); every accepted step is judged against a Richardson-extrapolated RK4 reference flow restarted at the previous point (steps whose reference cannot certify 1e-13 are inconclusive). A solve is non-trivial when it is estimator-limited (median step < 0.9 dt_max, or for the Runge-Kutta solvers a rejected trial step was observed through the call count) and contains start-up/regular/final steps as available; distinct = hash of (solver, problem, configuration). Stage decoupled-closed-form: z_k' = -lam_k (1 + d sin(om t + ph)) z_k (d <= 0.1, slow) with its closed-form flow, in three strata — states of size 1..3000 (estimator-limited also for RK4(5) and at tol 1e-10), 30..20000 components (40 for BDF), complex states with quarter-turn or arbitrary phases — real and complex fields, static and run-time dimension".into(),
        assumptions: vec![
            "reference flow: classical RK4 with m and 2m sub-steps, Richardson extrapolated, m doubled until |y_2m - y_m|/15 <= 1e-15 (1+|y|)".into(),
            "bound K_s tol h + 64 eps (1+|y|) for RK/Adams, K_s tol + floor for BDF; K = 8 (RK45, Adams3), 2 (RK23), 4 (BDF2), 60 (Adams5), 150 (BDF6)".into(),
            "a solve ending in an Err item is C05's statement; its yielded steps are still judged".into(),
        ],
        exhaustive: false,
        stuck_is_violation: false,
    }
}

fn run_case(rep: &mut Report, solver: Solver, prob: &IvpProblem, cfg: &Cfg, mode: DimMode) {
    let sname = solver.name();
    let opts = Opts { budget: 4_000_000, max_items: 3_000, mode, order: ((cfg.t1.to_bits() >> 7) % 6) as u8, ..Default::default() };
    let out = solve_real(solver, cfg, &prob.y0, prob, &opts);
    rep.eval();
    rep.count(&format!("{}/solves", sname), 1);
    let case = || J::obj().set("solver", sname).set("mode", format!("{:?}", mode)).set("cfg", cfg.to_json()).set("problem", prob.to_json());
    if let Some((m, l)) = &out.panic {
        rep.violation(&format!("{}/panic", sname), case(), format!("solver panicked: '{}' at {}", m, l));
        return;
    }
    if out.build_err.is_some() {
        rep.violation(&format!("{}/valid-config-rejected", sname), case(), format!("{:?}", out.build_err));
        return;
    }
    if out.n_err() > 0 || out.budget_hit {
        rep.inconclusive("err-or-budget(C05)");
        rep.count(&format!("{}/err_solves", sname), 1);
    }
    let mut pts: Vec<(f64, Vec<f64>)> = vec![(cfg.t0, prob.y0.clone())];
    pts.extend(out.ok_points());
    let k = k_const(solver);
    let mut hs = vec![];
    let mut worst = 0.0f64;
    for i in 1..pts.len() {
        let (tp, yp) = (&pts[i - 1].0, &pts[i - 1].1);
        let (t, y) = (&pts[i].0, &pts[i].1);
        let h = *t - *tp;
        if !(h > 0.0) || y.len() != yp.len() || !y.iter().all(|v| v.is_finite()) {
            rep.inconclusive("malformed-path(C01)");
            return;
        }
        hs.push(h);
        let (yr, e) = flow(prob, prob.lip, *tp, yp, h);
        if !(e <= 1e-13 * (1.0 + norm2(&yr))) {
            rep.inconclusive("reference-flow-not-certified");
            continue;
        }
        let floor = 64.0 * EPS * (1.0 + norm2(y));
        let le = nmax(dist2(y, &yr) - floor, 0.0);
        let unit = if solver.is_bdf() { cfg.tol } else { cfg.tol * h };
        let ratio = le / unit;
        worst = worst.max(ratio);
        rep.count(&format!("{}/steps_judged", sname), 1);
        if !(ratio <= k) {
            rep.violation(
                &format!("{}/local-error", sname),
                case(),
                format!(
                    "step {} from t={:.9e} with h={:.4e}: distance to the exact flow {:e} = {:.2} x tol{} (bound {}), tol={:e}",
                    i,
                    tp,
                    h,
                    le,
                    ratio,
                    if solver.is_bdf() { "" } else { " x h" },
                    k,
                    cfg.tol
                ),
            );
            return;
        }
    }
    rep.max(&format!("{}/local_error_over_unit", sname), worst);
    rep.max(&format!("{}/local_error_over_bound", sname), worst / k);
    // non-trivial rule
    if hs.len() >= 3 && out.clean() {
        let mut sorted = hs.clone();
        sorted.sort_by(|a, b| a.partial_cmp(b).unwrap());
        let median = sorted[sorted.len() / 2];
        // RK solvers: a rejected trial step (seen through the call count) also shows the estimator at work
        let rejected = solver.is_rk() && out.calls / solver.stages() > hs.len() as u64;
        if rejected {
            rep.count(&format!("{}/solves_with_rejected_trials", sname), 1);
        }
        let est_limited = median < 0.9 * cfg.dt_max || rejected;
        if est_limited {
            rep.count(&format!("{}/estimator_limited_solves", sname), 1);
            let h = CaseHash::new("c02").u(solver.idx() as u64).fs(&prob.a).fs(&prob.y0).f(cfg.t0).f(cfg.t1).f(cfg.dt_max).f(cfg.tol);
            rep.nontrivial(h.0);
            if rep.wants_sample() {
                rep.sample(case().set("steps", hs.len()).set("median_step_over_dtmax", median / cfg.dt_max).set("worst_local_error_over_unit", worst));
            }
        }
    }
}

/// Decoupled linear family with a closed-form flow, real or complex:
///   z_k' = -lam_k g(t) z_k,  g(t) = 1 + d sin(om t + ph),  z_k(t) = z_k(s) exp(-lam_k (G(t) - G(s))),
///   G(t) = t + d (1 - cos(om t + ph)) / om,   0 <= d <= 0.1, om <= 0.3 min lam.
/// The modulation is kept weak and slow on purpose: every derivative of the solution is then within
/// a factor 2 of lam^k |z|, so the estimator is never blind (no zero crossing of the derivative it
/// measures) and the terms it cannot see are an O(lam h) fraction of those it sees, whatever the
/// size of the state. (With a strong modulation and a state of size 500, a cap-limited step taken
/// where the measured derivative crosses zero is 16 x tol h off on correct code: that is the
/// "terms the estimator cannot see" exclusion of the property, scaled by the state.)
/// It reaches what the reference-flow family does not: states far from O(1) (so that the estimator,
/// not the cap, limits the step also for RK4(5) and at the small tolerances), many components, and
/// complex states whose components carry different phases.
pub struct Decoupled {
    pub lam: Vec<f64>,
    pub om: f64,
    pub ph: f64,
    pub d: f64,
}
impl Decoupled {
    fn g(&self, t: f64) -> f64 {
        1.0 + self.d * (self.om * t + self.ph).sin()
    }
    fn big_g(&self, t: f64) -> f64 {
        t + self.d * (1.0 - (self.om * t + self.ph).cos()) / self.om
    }
    fn lip(&self) -> f64 {
        (1.0 + self.d) * self.lam.iter().fold(0.0f64, |m, l| m.max(*l))
    }
    fn to_json(&self) -> J {
        let show: Vec<f64> = self.lam.iter().take(8).cloned().collect();
        J::obj().set("family", "z_k' = -lam_k (1 + d sin(om t + ph)) z_k").set("d", self.d).set("n", self.lam.len()).set("lam_first8", J::fs(&show)).set("om", self.om).set("ph", self.ph)
    }
}
impl Rhs<f64> for Decoupled {
    fn dim(&self) -> usize {
        self.lam.len()
    }
    fn eval(&self, t: f64, y: &[f64], out: &mut [f64]) {
        let g = self.g(t);
        for k in 0..y.len() {
            out[k] = -self.lam[k] * g * y[k];
        }
    }
}
impl Rhs<C64> for Decoupled {
    fn dim(&self) -> usize {
        self.lam.len()
    }
    fn eval(&self, t: f64, y: &[C64], out: &mut [C64]) {
        let g = self.g(t);
        for k in 0..y.len() {
            out[k] = y[k] * (-self.lam[k] * g);
        }
    }
}

/// judge a path of the decoupled family; `re`/`im` views of the state so that one routine serves both fields
fn judge_decoupled(rep: &mut Report, tag: &str, solver: Solver, prob: &Decoupled, cfg: &Cfg, pts: &[(f64, Vec<C64>)], clean: bool, calls: u64, case: &dyn Fn() -> J) {
    let sname = solver.name();
    let k = k_const(solver);
    let mut hs = vec![];
    let mut worst = 0.0f64;
    for i in 1..pts.len() {
        let (tp, yp) = (&pts[i - 1].0, &pts[i - 1].1);
        let (t, y) = (&pts[i].0, &pts[i].1);
        let h = *t - *tp;
        if !(h > 0.0) || y.len() != yp.len() || !y.iter().all(|v| v.re.is_finite() && v.im.is_finite()) {
            rep.inconclusive("malformed-path(C01)");
            return;
        }
        hs.push(h);
        let dg = prob.big_g(*t) - prob.big_g(*tp);
        let mut d2 = 0.0;
        let mut n2 = 0.0;
        for c in 0..y.len() {
            let ex = yp[c] * (-prob.lam[c] * dg).exp();
            d2 += (y[c] - ex).norm_sqr();
            n2 += y[c].norm_sqr();
        }
        // rounding of the step itself and of the closed form, with cancellation in G(t) - G(s)
        let floor = 16.0 * EPS * (1.0 + n2.sqrt()) * (1.0 + prob.lip() * t.abs().max(tp.abs()));
        let le = (d2.sqrt() - floor).max(0.0);
        let unit = if solver.is_bdf() { cfg.tol } else { cfg.tol * h };
        let ratio = le / unit;
        worst = worst.max(ratio);
        rep.count(&format!("{}/steps_judged", sname), 1);
        rep.count(&format!("{}/{}_steps_judged", sname, tag), 1);
        if !(ratio <= k) {
            rep.violation(
                &format!("{}/local-error", sname),
                case(),
                format!("step {} from t={:.9e} with h={:.4e}: distance to the closed-form flow {:e} = {:.2} x tol{} (bound {}), tol={:e}", i, tp, h, le, ratio, if solver.is_bdf() { "" } else { " x h" }, k, cfg.tol),
            );
            return;
        }
    }
    rep.max(&format!("{}/{}_local_error_over_unit", sname, tag), worst);
    rep.max(&format!("{}/local_error_over_bound", sname), worst / k);
    if hs.len() >= 3 && clean {
        let mut sorted = hs.clone();
        sorted.sort_by(|a, b| a.partial_cmp(b).unwrap());
        let median = sorted[sorted.len() / 2];
        let rejected = solver.is_rk() && calls / solver.stages() > hs.len() as u64;
        if median < 0.9 * cfg.dt_max || rejected {
            rep.count(&format!("{}/estimator_limited_solves", sname), 1);
            rep.count(&format!("{}/{}_estimator_limited_solves", sname, tag), 1);
            rep.nontrivial(CaseHash::new("c02-dec").u(solver.idx() as u64).fs(&prob.lam[..prob.lam.len().min(8)]).f(cfg.t0).f(cfg.t1).f(cfg.dt_max).f(cfg.tol).f(pts[0].1[0].re).0);
        }
    }
}

fn decoupled_case(rep: &mut Report, solver: Solver, rng: &mut Rng) {
    let sname = solver.name();
    // what: 0 large state, few components; 1 many components; 2 complex with phases
    let what = rng.below(3);
    let nmax: f64 = if solver.is_bdf() { 40.0 } else { 20_000.0 };
    let n = match what {
        0 => 1 + rng.below(4),
        1 => (rng.log10(1.5, nmax.log10()) as usize).max(2),
        _ => 2 * (1 + rng.below(3)),
    };
    let lam0 = rng.log10(-0.5, 0.7);
    let same = rng.chance(0.5);
    let lam: Vec<f64> = (0..n).map(|_| if same { lam0 } else { lam0 * rng.r(0.6, 1.0) }).collect();
    let prob = Decoupled { lam, om: rng.r(0.05, 0.18) * lam0, ph: rng.r(0.0, 6.28), d: if rng.chance(0.3) { 0.0 } else { rng.r(0.0, 0.1) } };
    let tol = rng.log10(-10.0, -3.0);
    let dt_max = dtmax_for(solver, prob.lip(), tol, rng.r(0.5, 1.0));
    let t0 = rng.r(-2.0, 2.0);
    // Runge-Kutta solvers, a fifth of the cases: a sizeable minimum step (0.05-0.5 dt_max). Where the
    // estimator wants less the solve must end in the minimum-step error, and every step it does yield is
    // held to the bound. (Not for the multistep solvers: their RK4 start-up steps are not error
    // controlled, and with a large state and a step that cannot shrink a start-up step was 135 x tol h
    // off on the unchanged tree - the exclusion of the property again, not a defect.)
    let dt_min = if solver.is_rk() && rng.chance(0.3) { dt_max * rng.r(0.05, 0.5) } else { dt_max * rng.log10(-8.0, -6.0) };
    let cfg = Cfg { t0, t1: t0 + dt_max * rng.log10(0.5, 1.8), dt_min, dt_max, tol };
    // amplitude: large enough that the estimator limits the step, small enough that rounding does not hide tol x h
    let amp = rng.log10(0.0, 3.5).min(tol * dt_max / (2_000.0 * EPS)).max(1.0) / if what == 1 { (n as f64).sqrt().min(30.0) } else { 1.0 };
    let complex = what == 2 || rng.chance(0.2);
    let opts = Opts { budget: 4_000_000, max_items: 3_000, mode: if n <= 4 && rng.bool() { DimMode::Static } else { DimMode::Dynamic }, order: ((cfg.t1.to_bits() >> 7) % 6) as u8, ..Default::default() };
    // phases: quarter-turn pairs (the squares of equal-size errors cancel), or arbitrary
    let quarter = rng.chance(0.5);
    let y0c: Vec<C64> = (0..n)
        .map(|k| {
            let a = amp * if same { 1.0 } else { rng.r(0.5, 1.0) };
            if !complex {
                C64::new(a * rng.sign(), 0.0)
            } else if quarter {
                if k % 2 == 0 { C64::new(a, 0.0) } else { C64::new(0.0, a) }
            } else {
                C64::from_polar(a, rng.r(0.0, 6.28))
            }
        })
        .collect();
    let tag = ["large_state", "many_components", "complex_phases"][what];
    rep.eval();
    rep.count(&format!("{}/solves", sname), 1);
    rep.count(&format!("{}/{}_solves", sname, tag), 1);
    let case = || J::obj().set("solver", sname).set("field", if complex { "complex" } else { "real" }).set("mode", format!("{:?}", opts.mode)).set("cfg", cfg.to_json()).set("problem", prob.to_json()).set("y0_first8", J::Arr(y0c.iter().take(8).map(|z| J::fs(&[z.re, z.im])).collect())).set("amplitude", amp);
    let (pts, panic, build_err, errs, clean, calls) = if complex {
        let out = solve_complex(solver, &cfg, &y0c, &prob, &opts);
        let mut pts = vec![(cfg.t0, y0c.clone())];
        pts.extend(out.ok_points());
        (pts, out.panic.clone(), out.build_err.clone(), out.n_err() > 0 || out.budget_hit, out.clean(), out.calls)
    } else {
        let y0r: Vec<f64> = y0c.iter().map(|z| z.re).collect();
        let out = solve_real(solver, &cfg, &y0r, &prob, &opts);
        let mut pts = vec![(cfg.t0, y0c.clone())];
        pts.extend(out.ok_points().into_iter().map(|(t, y)| (t, y.iter().map(|v| C64::new(*v, 0.0)).collect::<Vec<_>>())));
        (pts, out.panic.clone(), out.build_err.clone(), out.n_err() > 0 || out.budget_hit, out.clean(), out.calls)
    };
    if let Some((m, l)) = &panic {
        rep.violation(&format!("{}/panic", sname), case(), format!("solver panicked: '{}' at {}", m, l));
        return;
    }
    if build_err.is_some() {
        rep.violation(&format!("{}/valid-config-rejected", sname), case(), format!("{:?}", build_err));
        return;
    }
    if errs {
        rep.inconclusive("err-or-budget(C05)");
        rep.count(&format!("{}/err_solves", sname), 1);
    }
    judge_decoupled(rep, tag, solver, &prob, &cfg, &pts, clean, calls, &case);
}

fn flavour_for(rng: &mut Rng) -> usize {
    // C02 is about smooth non-stiff problems: general, linear, autonomous, linear-autonomous, relaxing
    *rng.pick(&[0usize, 0, 1, 2, 3, 5])
}

pub fn stages(ctx: &Ctx) -> Vec<Stage> {
    let seed = ctx.seed;
    let mut st = vec![];
    st.push(Stage::new("anchors", 6 * 8, move |i, rep| {
        let solver = Solver::ADAPTIVE[(i % 6) as usize];
        let k = i / 6;
        let mut rng = Rng::for_case(4242, "c02-anchor", k);
        let prob = IvpProblem::gen(&mut rng, 1 + (k as usize) % 4, [0, 1, 2, 5][(k % 4) as usize]);
        let tol = [1e-4, 1e-6, 1e-8, 1e-10, 1e-3, 1e-5, 1e-7, 1e-9][k as usize];
        let dt_max = dtmax_for(solver, prob.lip, tol, 0.9);
        let cfg = Cfg { t0: 0.5, t1: 0.5 + dt_max * 45.0, dt_min: dt_max * 1e-7, dt_max, tol };
        run_case(rep, solver, &prob, &cfg, if k % 2 == 0 { DimMode::Dynamic } else { DimMode::Static });
    }));
    let n = ctx.tier.pick(6_000, 120_000);
    st.push(Stage::new("random", n, move |i, rep| {
        let mut rng = Rng::for_case(seed, "c02-random", i);
        let solver = Solver::ADAPTIVE[(i % 6) as usize];
        let n = 1 + rng.below(4);
        let fl = flavour_for(&mut rng);
        // (forcing amplitudes stay O(1): with amplitudes 3-20 the terms the estimator cannot see
        // grow with the amplitude and cap-limited steps reach 6-16 x tol h on correct code — that
        // is outside the class the property quantifies over, see DESIGN.md C02)
        let prob = IvpProblem::gen(&mut rng, n, fl);
        let mut cfg = gen_cfg(&mut rng, solver, prob.lip, (-10.0, -3.0), (0.5, 2.3));
        if rng.chance(0.15) {
            // a minimum step that is a sizeable fraction of the maximum: the last stretch before the
            // end is then often shorter than dt_min, and it must still be integrated
            cfg.dt_min = cfg.dt_max * rng.r(0.05, 0.4);
        }
        let mode = if rng.bool() { DimMode::Static } else { DimMode::Dynamic };
        run_case(rep, solver, &prob, &cfg, mode);
    }));
    let nd = ctx.tier.pick(3_000, 60_000);
    st.push(Stage::new("decoupled-closed-form", nd, move |i, rep| {
        let mut rng = Rng::for_case(seed, "c02-decoupled", i);
        let solver = Solver::ADAPTIVE[(i % 6) as usize];
        decoupled_case(rep, solver, &mut rng);
    }));
    st
}

pub fn thresholds(ctx: &Ctx, rep: &Report) -> Vec<Threshold> {
    let mut t = vec![];
    for s in Solver::ADAPTIVE {
        t.push(Threshold { what: format!("{}: accepted steps judged against the reference flow", s.name()), required: ctx.tier.pick(3_000.0, 150_000.0), observed: rep.counter(&format!("{}/steps_judged", s.name())) as f64 });
        // RK45 runs at the step cap on this family when dt_max obeys the property's rule (its
        // estimator is fourth order and the cap is tol^(1/5)): no minimum is demanded for it here;
        // its acceptance decisions are exercised by C03's enlarged-cap stratum instead
        if s != Solver::RK45 {
            t.push(Threshold { what: format!("{}: estimator-limited solves", s.name()), required: ctx.tier.pick(10.0, 500.0), observed: rep.counter(&format!("{}/estimator_limited_solves", s.name())) as f64 });
        }
    }
    for s in Solver::ADAPTIVE {
        for tag in ["large_state", "many_components", "complex_phases"] {
            t.push(Threshold { what: format!("{}: estimator-limited solves of the closed-form family, stratum {}", s.name(), tag), required: ctx.tier.pick(30.0, 600.0), observed: rep.counter(&format!("{}/{}_estimator_limited_solves", s.name(), tag)) as f64 });
        }
    }
    let solves: i64 = Solver::ADAPTIVE.iter().map(|s| rep.counter(&format!("{}/solves", s.name()))).sum();
    let errs: i64 = Solver::ADAPTIVE.iter().map(|s| rep.counter(&format!("{}/err_solves", s.name()))).sum();
    t.push(Threshold { what: "fraction of solves without Err item".into(), required: 0.9, observed: 1.0 - errs as f64 / solves.max(1) as f64 });
    let incon = *rep.inconclusive.get("reference-flow-not-certified").unwrap_or(&0) as f64;
    let judged: i64 = Solver::ADAPTIVE.iter().map(|s| rep.counter(&format!("{}/steps_judged", s.name()))).sum();
    t.push(Threshold { what: "fraction of steps whose reference flow was certified".into(), required: 0.99, observed: judged as f64 / (judged as f64 + incon).max(1.0) });
    t
}
