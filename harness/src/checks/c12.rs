//! C12 — polynomial division returns quotient and remainder of a valid Euclidean step.
//!
//! Oracle: `(q, r) = a.divide(&d)`; the harness reconstructs `a - (q·d + r)` in twice the working
//! precision (compensated convolution) and bounds it by the backward-error bound of the
//! property; `deg r < deg d`; exact multiples leave a zero remainder (up to the same bound times
//! the amplification of the remainder map, see `kappa`); constant divisors scale; the zero
//! polynomial is an `Err`; nothing panics.

#[path = "c11/polyref.rs"]
mod polyref;

use crate::json::J;
use crate::probe::{guard, Guarded};
use crate::report::*;
use crate::rng::{CaseHash, Rng};
use bacon_sci::polynomial::Polynomial;
use num_traits::Zero;
use polyref::*;

// ---- frozen constants
/// ||a - (q d + r)||_inf <= K·eps·(||q||_1 ||d||_1 + ||a||_1) + tolerance          (observed 2.01)
const K_RECON: f64 = 16.0;
/// constant divisor: |q_k - a_k/c| <= K·eps·|a_k/c| (+ tolerance/|c| for dropped leading terms) (observed 2.57)
const K_CONST: f64 = 16.0;
/// dividends are shortened so that the predicted quotient growth (1 + ||d_rest||_1/|d_lead|)^(deg q + 1) stays below this
const GROWTH_CAP: f64 = 1e40;

pub fn meta() -> CheckMeta {
    CheckMeta {
        id: "C12",
        level: "exploration",
        rule: "cases: real and complex dividends of degree 0..40 and divisors of degree 0..20 with |leading coefficient| >= 0.1 (G-poly shapes), kinds: general, exact multiple (a = d·s formed exactly and rounded once), divisor of higher degree, constant divisor, zero polynomial (9 constructions). Non-trivial: divisor degree >= 1 and quotient degree >= 1, or an exact multiple, or a zero-divisor (Err) case; distinct = hash of (field, dividend, divisor, tolerance)".into(),
        assumptions: vec![
            "the dividend's zero tolerance is strictly positive (default 1e-10, or 1e-13..1e-6): with tolerance 0 the library's elimination loop cannot discard an exactly-zero leading remainder term and never terminates; that input is outside the property's quantifier and is not generated".into(),
            "the zero polynomial is presented in its one-coefficient form only (new(), from_slice(&[0]), from_slice(&[]), zero(), default(), -0.0, p - p, with_tolerance, with_capacity); divisors with a zero *leading* coefficient are outside the property (|lead| >= 0.1)".into(),
            "remainder of an exact multiple: r = rem(backward error), so it is compared with kappa·bound where kappa = 1 + sum_k ||x^k mod d||_inf (k = deg d..deg a) is computed by the harness; kappa = 1 + small for divisors with roots inside the unit disc".into(),
            "dividends are shortened until the predicted growth of the quotient stays below 1e40, so that no intermediate overflows".into(),
        ],
        exhaustive: false,
        stuck_is_violation: true,
    }
}

#[derive(Clone, Copy, PartialEq, Debug)]
enum Kind {
    General,
    ExactMultiple,
    HigherDivisor,
    ConstDivisor,
    ZeroDivisor(usize),
}
impl Kind {
    fn name(self) -> &'static str {
        match self {
            Kind::General => "general",
            Kind::ExactMultiple => "exact-multiple",
            Kind::HigherDivisor => "divisor-of-higher-degree",
            Kind::ConstDivisor => "constant-divisor",
            Kind::ZeroDivisor(_) => "zero-polynomial",
        }
    }
}

const ZERO_FORMS: [&str; 9] = ["Polynomial::new()", "from_slice(&[0])", "from_slice(&[])", "Zero::zero()", "Default::default()", "from_slice(&[-0.0])", "with_tolerance(1e-3)", "p - p for a constant p", "with_capacity(4)"];

fn zero_poly<N: Sc>(form: usize) -> Polynomial<N> {
    match form {
        0 => Polynomial::new(),
        1 => Polynomial::from_slice(&[N::zero()]),
        2 => Polynomial::from_slice(&[]),
        3 => <Polynomial<N> as Zero>::zero(),
        4 => Default::default(),
        5 => Polynomial::from_slice(&[N::from_c(C64::new(-0.0, 0.0))]),
        6 => Polynomial::with_tolerance(1e-3).unwrap(),
        7 => {
            let p: Polynomial<N> = Polynomial::from_slice(&[N::from_c(C64::new(3.5, 0.0))]);
            &p - &p
        }
        _ => Polynomial::with_capacity(4),
    }
}

#[derive(Clone)]
struct DivCase {
    complex: bool,
    kind: Kind,
    a: Vec<C64>,
    d: Vec<C64>,
    /// for exact multiples: the cofactor a = d·s
    s: Vec<C64>,
    tol_a: Option<f64>,
    tol_d: Option<f64>,
    from_slice: bool,
    shape: String,
}
impl DivCase {
    fn to_json(&self) -> J {
        let mut j = J::obj()
            .set("field", field_name(self.complex))
            .set("kind", self.kind.name())
            .set("dividend", pj(self.complex, &self.a))
            .set("dividend_tolerance", tolj(self.tol_a))
            .set("built_with", if self.from_slice { "from_slice (coefficients reversed)" } else { "collect() (ascending)" })
            .set("shape", self.shape.as_str());
        match self.kind {
            Kind::ZeroDivisor(f) => j.put("divisor", format!("zero polynomial built as {}", ZERO_FORMS[f])),
            _ => {
                j.put("divisor", pj(self.complex, &self.d));
                j.put("divisor_tolerance", tolj(self.tol_d));
            }
        }
        if self.kind == Kind::ExactMultiple {
            j.put("cofactor (dividend = round(divisor x cofactor))", pj(self.complex, &self.s));
        }
        j
    }
    fn hash(&self) -> u64 {
        let h = CaseHash::new("c12").u(self.complex as u64).s(self.kind.name());
        let h = hash_poly(hash_poly(h, &self.a), &self.d).f(self.tol_a.unwrap_or(-1.0));
        match self.kind {
            Kind::ZeroDivisor(f) => h.u(f as u64).0,
            _ => h.0,
        }
    }
}

fn asc<N: Sc>(p: &Polynomial<N>) -> Vec<C64> {
    let mut v: Vec<C64> = p.get_coefficients().iter().map(|c| c.to_c()).collect();
    v.reverse();
    v
}

/// 1 + sum_{k = l}^{n} || x^k mod d ||_inf : amplification of a perturbation of the dividend
/// (max norm) into the remainder (max norm).
fn kappa(d: &[C64], n: usize) -> f64 {
    let l = d.len() - 1;
    if l == 0 {
        return 1.0;
    }
    // (x^k mod d does not depend on the scale of d: normalise, the complex division squares the modulus)
    let sc = d.iter().fold(0.0f64, |m, z| m.max(z.re.abs()).max(z.im.abs()));
    let d: Vec<C64> = d.iter().map(|z| C64::new(z.re / sc, z.im / sc)).collect();
    let dl = d[l];
    let mut cur = vec![C64::new(0.0, 0.0); l];
    cur[l - 1] = C64::new(1.0, 0.0);
    let mut k = 1.0;
    for _ in l..=n {
        let t = cur[l - 1] / dl;
        let mut next = vec![C64::new(0.0, 0.0); l];
        for j in 0..l {
            let shifted = if j == 0 { C64::new(0.0, 0.0) } else { cur[j - 1] };
            next[j] = shifted - t * d[j];
        }
        cur = next;
        k += norminf(&cur);
    }
    k
}

fn run_div<N: Sc>(rep: &mut Report, c: &DivCase) {
    let fld = N::NAME;
    let mut pa: Polynomial<N> = build(&c.a, c.tol_a, c.from_slice);
    // history on the dividend: a rejected call must leave it unchanged (every fifth case, decided by the data)
    if (c.a.len() + c.d.len()) % 5 == 0 {
        let r = pa.set_tolerance(-1.0);
        rep.count("dividends_after_a_rejected_set_tolerance", 1);
        if r.is_ok() {
            rep.violation("set_tolerance/negative-accepted", c.to_json(), "set_tolerance(-1.0) on the dividend returned Ok".into());
            return;
        }
    }
    let pa = pa;
    let pd: Polynomial<N> = match c.kind {
        Kind::ZeroDivisor(f) => zero_poly::<N>(f),
        _ => build(&c.d, c.tol_d, c.from_slice),
    };
    let ta = c.tol_a.unwrap_or(DEFAULT_TOL);
    let allow = tol_allow(c.complex, ta);
    if c.tol_a == Some(0.0) {
        rep.count("dividends_with_zero_tolerance_exactly_0", 1);
    }
    rep.eval();
    rep.count(&format!("{}/{}", c.kind.name(), fld), 1);
    let res = match guard(|| pa.divide(&pd)) {
        Guarded::Ok(r) => r,
        Guarded::Panic(m, l) => {
            rep.violation("divide/panic", c.to_json(), format!("divide ({}; {}) panicked: '{}' at {}", c.kind.name(), fld, m, l));
            return;
        }
        Guarded::Budget => return,
    };
    if let Kind::ZeroDivisor(f) = c.kind {
        match res {
            Err(_) => {
                rep.count("zero-divisor/err_returned", 1);
                rep.nontrivial(c.hash());
            }
            Ok((q, r)) => rep.violation("divide/zero-divisor-accepted", c.to_json(), format!("division by the zero polynomial ({}; {}) returned Ok: quotient {:?}, remainder {:?}", ZERO_FORMS[f], fld, asc(&q), asc(&r))),
        }
        return;
    }
    let (q, r) = match res {
        Ok(v) => v,
        Err(e) => {
            rep.violation("divide/unexpected-err", c.to_json(), format!("divide by a polynomial with leading coefficient {:e} ({}; {}) returned Err(\"{}\")", c.d.last().unwrap().norm(), c.kind.name(), fld, e));
            return;
        }
    };
    let (qa, ra) = (asc(&q), asc(&r));
    let (dq, dr, dd) = (q.order(), r.order(), c.d.len() - 1);
    // ---- reconstruction a - (q d + r), in twice the working precision
    let top = c.a.len().max(qa.len() + c.d.len() - 1).max(ra.len());
    let one = C64::new(1.0, 0.0);
    let mut resid: f64 = 0.0;
    let mut at = 0;
    for k in 0..top {
        let mut acc = CAcc::default();
        if k < c.a.len() {
            acc.add(c.a[k]);
        }
        if k < ra.len() {
            acc.add_prod(-ra[k], one);
        }
        let lo = if k + 1 > c.d.len() { k + 1 - c.d.len() } else { 0 };
        if lo < qa.len() {
            for i in lo..=k.min(qa.len() - 1) {
                acc.add_prod(-qa[i], c.d[k - i]);
            }
        }
        let v = acc.val().norm();
        if !(v <= resid) {
            resid = v;
            at = k;
        }
    }
    let unit = EPS * (norm1(&qa) * norm1(&c.d) + norm1(&c.a));
    let bound = K_RECON * unit + allow;
    if unit > 0.0 {
        rep.max(&format!("reconstruction_defect_over_eps(|q|1|d|1+|a|1)/{}", fld), (resid - allow).max(0.0) / unit);
    }
    rep.max("quotient_norm1", norm1(&qa));
    let mut ok = true;
    if !(resid <= bound) {
        ok = false;
        rep.violation("divide/reconstruction", c.to_json().set("quotient", pj(c.complex, &qa)).set("remainder", pj(c.complex, &ra)), format!("dividend - (quotient x divisor + remainder) has a coefficient of modulus {:e} at x^{} ({}; {}); bound {:e} = {}·eps·(|q|1|d|1+|a|1) + tolerance {:e}", resid, at, c.kind.name(), fld, bound, K_RECON, allow));
    }
    // ---- degree of the remainder
    if dd >= 1 {
        if dr >= dd {
            ok = false;
            rep.violation("divide/remainder-degree", c.to_json().set("quotient", pj(c.complex, &qa)).set("remainder", pj(c.complex, &ra)), format!("remainder has order {} but the divisor has order {} ({}; {})", dr, dd, c.kind.name(), fld));
        }
    } else {
        // constant divisor: remainder is the zero constant, quotient is a/c
        let cst = c.d[0];
        if dr != 0 || !(ra[0].norm() <= bound) {
            ok = false;
            rep.violation("divide/constant-divisor", c.to_json().set("quotient", pj(c.complex, &qa)).set("remainder", pj(c.complex, &ra)), format!("division by the constant {:e}{:+e}i left remainder {:?} (order {}), expected the zero constant ({})", cst.re, cst.im, ra, dr, fld));
        }
        let mut worst = 0.0f64;
        for k in 0..c.a.len().max(qa.len()) + 2 {
            let e = if k < c.a.len() { cdiv_ref(c.a[k], cst) } else { C64::new(0.0, 0.0) };
            let g = q.get_coefficient(k).to_c();
            let al = if k > dq { allow / cst.norm() } else { 0.0 };
            // (a quotient coefficient in the subnormal range is only accurate to the subnormal spacing)
            let u = (EPS * e.norm()).max(4.0 * f64::MIN_POSITIVE * EPS);
            let err = (g - e).norm();
            if u > 0.0 {
                worst = worst.max((err - al).max(0.0) / u);
            }
            if !(err <= K_CONST * u + al) {
                ok = false;
                rep.violation("divide/constant-divisor", c.to_json().set("quotient", pj(c.complex, &qa)), format!("division by the constant {:e}{:+e}i: quotient coefficient of x^{} is {:e}{:+e}i, a_k/c = {:e}{:+e}i ({}): difference {:e} > {:e}", cst.re, cst.im, k, g.re, g.im, e.re, e.im, fld, err, K_CONST * u + al));
                break;
            }
        }
        rep.max(&format!("constant_divisor_err_over_eps|a_k/c|/{}", fld), worst);
    }
    // ---- exact multiple: zero remainder
    if c.kind == Kind::ExactMultiple {
        let kap = kappa(&c.d, c.a.len() - 1);
        rep.max("exact_multiple/kappa", kap);
        let rn = norminf(&ra);
        if kap <= 10.0 {
            rep.count("exact_multiple/kappa<=10", 1);
            rep.max("exact_multiple_remainder_over_plain_bound(kappa<=10)", rn / (bound + EPS * norminf(&c.a)));
        }
        // the dividend itself is d·s rounded once: eps·|a_k| per coefficient
        let b = kap * (bound + EPS * norminf(&c.a));
        rep.max(&format!("exact_multiple_remainder_over_kappa.bound/{}", fld), rn / b);
        if !(rn <= b) {
            ok = false;
            rep.violation("divide/exact-multiple-remainder", c.to_json().set("quotient", pj(c.complex, &qa)).set("remainder", pj(c.complex, &ra)), format!("dividend is an exact multiple of the divisor but the remainder has max norm {:e} > {:e} = kappa {:.3} x ({:e}) ({})", rn, b, kap, bound, fld));
        }
        if dr == 0 {
            rep.count("exact_multiple/remainder_is_constant", 1);
        }
    }
    if c.kind == Kind::HigherDivisor && ok {
        rep.count("higher-divisor/ok", 1);
    }
    if ok {
        let nt = (dd >= 1 && dq >= 1) || c.kind == Kind::ExactMultiple;
        if nt {
            rep.nontrivial(c.hash());
            if dd >= 1 && dq >= 1 {
                rep.count(&format!("nontrivial_general(deg d>=1, deg q>=1)/{}", fld), 1);
            }
        }
        if rep.wants_sample() && c.a.len() <= 7 && dd >= 1 && dq >= 1 {
            rep.sample(c.to_json().set("quotient", pj(c.complex, &qa)).set("remainder", pj(c.complex, &ra)).set("reconstruction_defect", resid).set("bound", bound));
        }
    }
}

fn run_dyn(rep: &mut Report, c: &DivCase) {
    // (diagnosis of a case that never returns: the inputs are otherwise only reported afterwards)
    if std::env::var_os("VERIF_PRINT_CASE").is_some() {
        eprintln!("CASE {}", c.to_json().to_string_compact());
    }
    if c.complex {
        run_div::<C64>(rep, c)
    } else {
        run_div::<f64>(rep, c)
    }
}

fn pick_tol(rng: &mut Rng) -> Option<f64> {
    match rng.below(12) {
        0 => Some(1e-13),
        1 => Some(1e-12),
        2 => Some(1e-8),
        3 => Some(1e-6),
        // a zero tolerance so small that its square underflows
        // ... or exactly zero (accepted by set_tolerance/with_tolerance: "nothing but an exact zero is
        // negligible"; D41: an exactly cancelled leading term was then never dropped and divide did not return)
        4 => Some(*rng.pick(&[1e-170, 1e-200, 1e-300, 0.0, 0.0])),
        _ => None,
    }
}

/// tolerance carried by the DIVISOR object (set after construction, nothing is purged): it has no
/// bearing on the division, which works with the dividend's tolerance; values up to far above the
/// divisor's leading coefficient
fn pick_divisor_tol(rng: &mut Rng) -> Option<f64> {
    if rng.chance(0.75) {
        None
    } else if rng.bool() {
        pick_tol(rng)
    } else {
        Some(*rng.pick(&[0.5, 1.0, 10.0, 1e3, 1e6]))
    }
}

/// divisor from G-poly with |lead| >= 0.1
fn gen_divisor(rng: &mut Rng, complex: bool, deg: usize) -> (Vec<C64>, String) {
    let (mut d, shape) = gen_poly(rng, complex, deg);
    let mut shape = shape.to_string();
    if rng.chance(0.35) && deg >= 1 {
        // leading coefficient dominates: all roots in the unit disc, division is well conditioned
        let rest: f64 = d[..deg].iter().map(|c| c.norm()).sum();
        let lead = d[deg];
        let target = (rest * rng.r(1.05, 3.0)).max(0.1).min(1e3);
        d[deg] = if lead.norm() > 0.0 { lead / lead.norm() * target } else { C64::new(target, 0.0) };
        if rest > target {
            let f = target / (1.05 * rest);
            for v in d[..deg].iter_mut() {
                *v *= f;
            }
        }
        shape.push_str("+dominant-lead");
    }
    let lead = d[deg];
    if lead.norm() < 0.1 {
        let m = rng.log10(-1.0, 3.0);
        d[deg] = if lead.norm() > 0.0 { lead / lead.norm() * m } else { rand_unit(rng, complex) * m };
    }
    if deg >= 2 && rng.chance(0.06) {
        // one lower coefficient that is non-zero but below the default zero tolerance (1e-12..1e-10):
        // it still multiplies every quotient coefficient
        let k = rng.below(deg);
        d[k] = rand_unit(rng, complex) * rng.log10(-12.0, -10.0);
        shape.push_str("+tiny-lower-coefficient");
    }
    if deg >= 1 && rng.chance(0.06) {
        // one lower coefficient many orders of magnitude above the (non-negligible) leading one:
        // x^2 + 4e10 is as valid a divisor as any
        let k = rng.below(deg);
        d[k] = rand_unit(rng, complex) * rng.log10(9.0, 13.0);
        shape.push_str("+huge-lower-coefficient");
    }
    (d, shape)
}

fn growth(d: &[C64], qdeg: usize) -> f64 {
    let l = d.len() - 1;
    let rest: f64 = d[..l].iter().map(|c| c.norm()).sum();
    (1.0 + rest / d[l].norm()).powi(qdeg as i32 + 1)
}

fn gen_case(rng: &mut Rng, complex: bool, kind: Kind) -> DivCase {
    let tol_a = pick_tol(rng);
    let tol_d = pick_divisor_tol(rng);
    let from_slice = rng.bool();
    let zero = C64::new(0.0, 0.0);
    match kind {
        Kind::ZeroDivisor(_) => {
            let da = if rng.chance(0.1) { 0 } else { rng.below(41) };
            let (mut a, shape) = gen_poly(rng, complex, da);
            if rng.chance(0.1) {
                a = vec![zero];
            }
            DivCase { complex, kind, a, d: vec![zero], s: vec![], tol_a, tol_d: None, from_slice, shape: shape.into() }
        }
        Kind::ConstDivisor => {
            let da = rng.below(41);
            let (mut a, shape) = gen_poly(rng, complex, da);
            let mut shape = shape.to_string();
            shape.push_str(decorate(rng, complex, &mut a, tol_a.unwrap_or(DEFAULT_TOL)));
            // (a tenth of the constants are huge: the quotient's coefficients are then far below the
            // default zero tolerance and still have to be the scaled coefficients)
            let m = if rng.chance(0.1) { rng.log10(8.0, 13.0) } else { rng.log10(-1.0, 3.0) };
            let cst = match rng.below(6) {
                0 => C64::new(m, 0.0),
                1 => C64::new(-m, 0.0),
                2 if complex => C64::new(0.0, m),
                3 if complex => C64::new(0.0, -m),
                _ => rand_unit(rng, complex) * m,
            };
            DivCase { complex, kind, a, d: vec![cst], s: vec![], tol_a, tol_d, from_slice, shape }
        }
        Kind::HigherDivisor => {
            let dd = 1 + rng.below(20);
            let da = rng.below(dd);
            let (d, sd) = gen_divisor(rng, complex, dd);
            let (a, sa) = gen_poly(rng, complex, da);
            DivCase { complex, kind, a, d, s: vec![], tol_a, tol_d, from_slice, shape: format!("{} / {}", sa, sd) }
        }
        Kind::General => {
            let dd = if rng.chance(0.15) { 1 } else { 1 + rng.below(20) };
            let (d, sd) = gen_divisor(rng, complex, dd);
            let mut da = if rng.chance(0.1) { dd } else { dd + rng.below(41 - dd) };
            while da > dd && growth(&d, da - dd) > GROWTH_CAP {
                da -= 1;
            }
            let (mut a, sa) = gen_poly(rng, complex, da);
            let mut shape = format!("{} / {}", sa, sd);
            shape.push_str(decorate(rng, complex, &mut a, tol_a.unwrap_or(DEFAULT_TOL)));
            DivCase { complex, kind, a, d, s: vec![], tol_a, tol_d, from_slice, shape }
        }
        Kind::ExactMultiple => {
            let dd = 1 + rng.below(20);
            let (d, sd) = gen_divisor(rng, complex, dd);
            let mut ds = rng.below(41 - dd);
            while ds > 0 && growth(&d, ds) > GROWTH_CAP {
                ds -= 1;
            }
            let (s, ss) = gen_poly(rng, complex, ds);
            let a = conv_exact(&d, &s);
            DivCase { complex, kind, a, d, s, tol_a, tol_d, from_slice, shape: format!("({}) x ({})", sd, ss) }
        }
    }
}

fn fixed_cases() -> Vec<DivCase> {
    let c = |re: f64, im: f64| C64::new(re, im);
    let r = |v: &[f64]| -> Vec<C64> { v.iter().map(|x| C64::new(*x, 0.0)).collect() };
    let mk = |complex: bool, kind: Kind, a: Vec<C64>, d: Vec<C64>, s: Vec<C64>| DivCase { complex, kind, a, d, s, tol_a: None, tol_d: None, from_slice: false, shape: "fixed".into() };
    let mut v = vec![
        // (x^2 - 1) / (x + 1) and (x^3 - 2x^2 + x + 1) / (x^2 + 1): the repository's old examples
        mk(false, Kind::ExactMultiple, r(&[-1.0, 0.0, 1.0]), r(&[1.0, 1.0]), r(&[-1.0, 1.0])),
        mk(false, Kind::General, r(&[1.0, 1.0, -2.0, 1.0]), r(&[1.0, 0.0, 1.0]), vec![]),
        // (x^3 - 6x^2 + 11x - 6) / (x - 1)
        mk(false, Kind::ExactMultiple, r(&[-6.0, 11.0, -6.0, 1.0]), r(&[-1.0, 1.0]), r(&[6.0, -5.0, 1.0])),
        mk(true, Kind::ExactMultiple, r(&[-6.0, 11.0, -6.0, 1.0]), r(&[-1.0, 1.0]), r(&[6.0, -5.0, 1.0])),
        // divisor equal to the dividend, dividend zero, divisor of higher degree
        mk(false, Kind::ExactMultiple, r(&[2.0, -3.0, 0.5]), r(&[2.0, -3.0, 0.5]), r(&[1.0])),
        mk(false, Kind::General, r(&[0.0]), r(&[1.0, 2.0, 3.0]), vec![]),
        mk(true, Kind::General, r(&[0.0]), vec![c(1.0, 1.0), c(0.0, 2.0)], vec![]),
        mk(false, Kind::HigherDivisor, r(&[1.0, 2.0]), r(&[1.0, 2.0, 3.0, 4.0]), vec![]),
        // constant divisors, including complex ones lying on an axis
        mk(false, Kind::ConstDivisor, r(&[1.0, 2.0, 3.0]), r(&[4.0]), vec![]),
        mk(false, Kind::ConstDivisor, r(&[1.0, 2.0, 3.0]), r(&[-0.125]), vec![]),
        mk(true, Kind::ConstDivisor, vec![c(1.0, 1.0), c(2.0, -1.0), c(0.0, 3.0)], vec![c(2.0, 0.0)], vec![]),
        mk(true, Kind::ConstDivisor, vec![c(1.0, 1.0), c(2.0, -1.0), c(0.0, 3.0)], vec![c(0.0, 2.0)], vec![]),
        mk(true, Kind::ConstDivisor, vec![c(1.0, 1.0), c(2.0, -1.0), c(0.0, 3.0)], vec![c(0.0, -0.5)], vec![]),
        mk(true, Kind::ConstDivisor, vec![c(1.0, 1.0), c(2.0, -1.0), c(0.0, 3.0)], vec![c(3.0, -4.0)], vec![]),
        mk(false, Kind::ConstDivisor, r(&[0.0]), r(&[5.0]), vec![]),
        // complex: (x - i)(x + i)(x - 2) / (x - i)
        mk(true, Kind::ExactMultiple, conv_exact(&[c(0.0, -1.0), c(1.0, 0.0)], &conv_exact(&[c(0.0, 1.0), c(1.0, 0.0)], &[c(-2.0, 0.0), c(1.0, 0.0)])), vec![c(0.0, -1.0), c(1.0, 0.0)], conv_exact(&[c(0.0, 1.0), c(1.0, 0.0)], &[c(-2.0, 0.0), c(1.0, 0.0)])),
        // complex divisor with a purely imaginary / purely real leading coefficient
        mk(true, Kind::General, vec![c(1.0, 0.0), c(0.0, 1.0), c(2.0, 2.0), c(-1.0, 0.5)], vec![c(1.0, -1.0), c(0.0, 0.5)], vec![]),
        mk(true, Kind::General, vec![c(1.0, 0.0), c(0.0, 1.0), c(2.0, 2.0), c(-1.0, 0.5)], vec![c(1.0, -1.0), c(0.25, 0.0)], vec![]),
    ];
    // D41: the same with a zero tolerance of exactly 0 on the dividend: (x^2 - 1)/(x + 1), a general
    // division, a constant and a zero divisor
    for complex in [false, true] {
        let z = |mut d: DivCase| {
            d.tol_a = Some(0.0);
            d.shape = "fixed, dividend tolerance 0".into();
            d
        };
        v.push(z(mk(complex, Kind::ExactMultiple, r(&[-1.0, 0.0, 1.0]), r(&[1.0, 1.0]), r(&[-1.0, 1.0]))));
        v.push(z(mk(complex, Kind::ExactMultiple, r(&[-6.0, 11.0, -6.0, 1.0]), r(&[-1.0, 1.0]), r(&[6.0, -5.0, 1.0]))));
        v.push(z(mk(complex, Kind::General, r(&[2.3, 0.9, -1.7, 0.3]), r(&[1.3, 0.7]), vec![])));
        v.push(z(mk(complex, Kind::ConstDivisor, r(&[1.0, 2.0, 3.0]), r(&[4.0]), vec![])));
        v.push(z(mk(complex, Kind::ZeroDivisor(1), r(&[1.0, -2.0, 0.0, 4.0]), r(&[0.0]), vec![])));
        v.push(z(mk(complex, Kind::ZeroDivisor(5), r(&[1.0, -2.0, 0.0, 4.0]), r(&[0.0]), vec![])));
    }
    for complex in [false, true] {
        for f in 0..ZERO_FORMS.len() {
            v.push(mk(complex, Kind::ZeroDivisor(f), r(&[1.0, -2.0, 0.0, 4.0]), r(&[0.0]), vec![]));
            v.push(mk(complex, Kind::ZeroDivisor(f), r(&[0.0]), r(&[0.0]), vec![]));
            v.push(mk(complex, Kind::ZeroDivisor(f), r(&[7.0]), r(&[0.0]), vec![]));
        }
    }
    v
}

pub fn stages(ctx: &Ctx) -> Vec<Stage> {
    let seed = ctx.seed;
    let tier = ctx.tier;
    let fixed = fixed_cases();
    let nf = fixed.len() as u64;
    let mut st = vec![];
    // anchors: the fixed list, then 60 seed-independent cases of every kind in both fields
    st.push(Stage::new("anchors", nf + 2 * 5 * 60, move |i, rep| {
        if i < nf {
            run_dyn(rep, &fixed[i as usize]);
            return;
        }
        let j = i - nf;
        let complex = j % 2 == 1;
        let kind = match (j / 2) % 5 {
            0 => Kind::General,
            1 => Kind::ExactMultiple,
            2 => Kind::HigherDivisor,
            3 => Kind::ConstDivisor,
            _ => Kind::ZeroDivisor(((j / 10) % 9) as usize),
        };
        let mut rng = Rng::for_case(0xC12, "c12-anchor", j);
        let c = gen_case(&mut rng, complex, kind);
        run_dyn(rep, &c);
    }));
    st.push(Stage::new("random", tier.pick(40_000, 4_000_000), move |i, rep| {
        let mut rng = Rng::for_case(seed, "c12-random", i);
        let complex = i % 2 == 1;
        let k = rng.below(100);
        let kind = if k < 50 {
            Kind::General
        } else if k < 75 {
            Kind::ExactMultiple
        } else if k < 83 {
            Kind::HigherDivisor
        } else if k < 93 {
            Kind::ConstDivisor
        } else {
            Kind::ZeroDivisor(rng.below(9))
        };
        let mut c = gen_case(&mut rng, complex, kind);
        // one general or exact-multiple case in twenty: dividend and divisor both multiplied by 2^513 ... 2^515
        // (coefficients of 2.7e154 ... 1e155: every quantity of the division is representable - the quotient is
        // unchanged, the remainder scales - but a product of two coefficients is not)
        // (real field only: num_complex divides by |z|^2, which overflows for such operands whatever the caller does)
        if i % 20 == 2 && !complex && matches!(c.kind, Kind::General | Kind::ExactMultiple) && c.a.iter().chain(c.d.iter()).all(|z| z.norm() < 1e3 && (z.norm() == 0.0 || z.norm() > 1e-6)) {
            let sc = 2f64.powi(513 + (i / 20 % 3) as i32);
            for z in c.a.iter_mut().chain(c.d.iter_mut()) {
                *z *= sc;
            }
            c.shape.push_str(" x 2^513..515");
            rep.count("divisions_with_all_coefficients_near_1e155", 1);
        }
        run_dyn(rep, &c);
    }));
    st
}

pub fn thresholds(ctx: &Ctx, rep: &Report) -> Vec<Threshold> {
    let mut t = vec![];
    let q = |a: f64, b: f64| ctx.tier.pick(a, b);
    for fld in ["f64", "c64"] {
        t.push(Threshold { what: format!("general divisions with divisor degree >= 1 and quotient degree >= 1 that passed every check ({})", fld), required: q(800.0, 30_000.0), observed: rep.counter(&format!("nontrivial_general(deg d>=1, deg q>=1)/{}", fld)) as f64 });
        t.push(Threshold { what: format!("exact multiples ({})", fld), required: q(400.0, 15_000.0), observed: rep.counter(&format!("exact-multiple/{}", fld)) as f64 });
        t.push(Threshold { what: format!("divisors of higher degree than the dividend ({})", fld), required: q(100.0, 4_000.0), observed: rep.counter(&format!("divisor-of-higher-degree/{}", fld)) as f64 });
        t.push(Threshold { what: format!("constant divisors ({})", fld), required: q(150.0, 5_000.0), observed: rep.counter(&format!("constant-divisor/{}", fld)) as f64 });
        t.push(Threshold { what: format!("divisions by the zero polynomial ({})", fld), required: q(100.0, 3_000.0), observed: rep.counter(&format!("zero-polynomial/{}", fld)) as f64 });
    }
    t.push(Threshold { what: "exact multiples with a well-conditioned remainder map (kappa <= 10), where 'zero remainder' is sharp".into(), required: q(200.0, 8_000.0), observed: rep.counter("exact_multiple/kappa<=10") as f64 });
    t.push(Threshold { what: "divisions with every coefficient of dividend and divisor near 1e155".into(), required: q(300.0, 3_000.0), observed: rep.counter("divisions_with_all_coefficients_near_1e155") as f64 });
    t.push(Threshold { what: "divisions whose dividend carries the zero tolerance 0.0".into(), required: q(400.0, 4_000.0), observed: rep.counter("dividends_with_zero_tolerance_exactly_0") as f64 });
    t.push(Threshold { what: "divisions by the zero polynomial answered with Err".into(), required: q(200.0, 6_000.0), observed: rep.counter("zero-divisor/err_returned") as f64 });
    t
}
