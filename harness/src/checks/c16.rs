//! C16 — cubic splines interpolate, are C2, honour their end conditions and coincide with the
//! unique such spline computed independently.
//!
//! Reference model (`refspline`): the spline equations in the *moment* formulation
//! (mu_i M_{i-1} + 2 M_i + lambda_i M_{i+1} = 6 [y_{i-1}, y_i, y_{i+1}], natural or clamped end rows),
//! assembled as a dense matrix and solved with a partial-pivot LU written here; pieces are kept in
//! local form a + b t + c t^2 + d t^3, t = x - x_i. The reference checks itself (C2 and end
//! conditions in local form) before it is used.
//! Observations: `evaluate` and `evaluate_derivative` at every knot, at the one-ulp neighbours of
//! every interior knot, at 8 interior points per piece, and outside the knot range.

use crate::json::J;
use crate::probe::{self, Guarded};
use crate::report::*;
use crate::rng::{CaseHash, Rng};
use bacon_sci::interp::{spline_clamped, spline_free, CubicSpline};
use nalgebra::ComplexField;
use num_complex::Complex;
use num_traits::FromPrimitive;

const EPS: f64 = f64::EPSILON;
type C64 = Complex<f64>;

// ---- frozen constants. `unit_v`, `unit_d` are the rounding units defined in `RefSpline::units`:
//   unit_v(x) = eps [ |a| + B u + |c| u^2 + D u^3  +  sb t + sc t^2 + sd t^3 ],   u = |x| + |x_i|, t = |x - x_i|
//   unit_d(x) = eps [ B + 2|c| u + 3 D u^2        +  sb + 2 sc t + 3 sd t^2 ]
// (first group: the library stores the piece expanded in powers of x and evaluates it by Horner there,
//  B >= |b| and D >= |d| are the cancellation-free magnitudes; second group: componentwise forward error
//  bound |A^-1| (|A||M| + |rhs|) of the tridiagonal solve, propagated to b, c, d)
/// value against the reference:           |S(x) - ref(x)|  <= KV unit_v(x)       [observed max 1.69 over 16 runs / 800 000 splines]
const KV: f64 = 24.0;
/// derivative against the reference:      |S'(x) - ref'(x)| <= KD unit_d(x)      [observed max 2.38]
const KD: f64 = 32.0;
/// second derivatives recovered from three derivative samples of a piece (exact for quadratics):
/// |S''_left - S''_right| (interior knots), |S''| (free ends) <= KS sum_j |w_j| unit_d(x_j)   [observed max 0.61 (jumps) / 1.18 (free ends)]
const KS: f64 = 16.0;
/// reproduction of cubics (clamped) / lines (free): the sampled ordinates and end slopes carry rounding errors
/// <= eps qmax, eps q'max (qmax = max_i sum_k |q_k||x_i|^k); the spline operator is linear, so with its cardinal
/// splines L_j (ordinates), G_0, G_1 (end slopes), computed by the reference model:
/// |S(x) - q(x)|   <= KQ (unit_v(x) + eps (sum_j|L_j(x)| qmax + (|G_0(x)|+|G_1(x)|) q'max))
/// |S'(x) - q'(x)| <= KQ (unit_d(x) + eps (sum_j|L_j'(x)| qmax + (|G_0'(x)|+|G_1'(x)|) q'max))    [observed max 0.92 / 0.69]
const KQ: f64 = 16.0;

// ------------------------------------------------------------------ field abstraction

trait Fld: ComplexField<RealField = f64> + FromPrimitive + Copy + 'static {
    const NAME: &'static str;
    const COMPLEX: bool;
    fn mk(v: C64) -> Self;
    fn c(self) -> C64;
}
impl Fld for f64 {
    const NAME: &'static str = "f64";
    const COMPLEX: bool = false;
    fn mk(v: C64) -> f64 {
        v.re
    }
    fn c(self) -> C64 {
        C64::new(self, 0.0)
    }
}
impl Fld for C64 {
    const NAME: &'static str = "Complex<f64>";
    const COMPLEX: bool = true;
    fn mk(v: C64) -> C64 {
        v
    }
    fn c(self) -> C64 {
        self
    }
}

fn next_up(x: f64) -> f64 {
    if x.is_nan() || x == f64::INFINITY {
        return x;
    }
    if x == 0.0 {
        return f64::from_bits(1);
    }
    let b = x.to_bits();
    f64::from_bits(if x > 0.0 { b + 1 } else { b - 1 })
}
fn next_down(x: f64) -> f64 {
    -next_up(-x)
}

// ------------------------------------------------------------------ reference model

mod refspline {
    use super::{C64, EPS};

    /// Dense LU with partial pivoting (Doolittle, row interchanges), real matrix.
    pub struct Lu {
        n: usize,
        lu: Vec<f64>,
        perm: Vec<usize>,
    }
    impl Lu {
        pub fn factor(a: &[f64], n: usize) -> Option<Lu> {
            let mut lu = a.to_vec();
            let mut perm: Vec<usize> = (0..n).collect();
            for k in 0..n {
                let mut p = k;
                let mut best = lu[k * n + k].abs();
                for r in k + 1..n {
                    if lu[r * n + k].abs() > best {
                        best = lu[r * n + k].abs();
                        p = r;
                    }
                }
                if !(best > 0.0) {
                    return None;
                }
                if p != k {
                    for c in 0..n {
                        lu.swap(k * n + c, p * n + c);
                    }
                    perm.swap(k, p);
                }
                let piv = lu[k * n + k];
                for r in k + 1..n {
                    let m = lu[r * n + k] / piv;
                    lu[r * n + k] = m;
                    if m != 0.0 {
                        for c in k + 1..n {
                            lu[r * n + c] -= m * lu[k * n + c];
                        }
                    }
                }
            }
            Some(Lu { n, lu, perm })
        }
        pub fn solve(&self, b: &[f64]) -> Vec<f64> {
            let n = self.n;
            let mut y: Vec<f64> = (0..n).map(|i| b[self.perm[i]]).collect();
            for r in 0..n {
                for c in 0..r {
                    y[r] -= self.lu[r * n + c] * y[c];
                }
            }
            for r in (0..n).rev() {
                for c in r + 1..n {
                    y[r] -= self.lu[r * n + c] * y[c];
                }
                y[r] /= self.lu[r * n + r];
            }
            y
        }
    }

    pub struct RefSpline {
        pub x: Vec<f64>,
        pub h: Vec<f64>,
        pub y: Vec<C64>,
        /// local coefficients per piece
        pub b: Vec<C64>,
        pub c: Vec<C64>,
        pub d: Vec<C64>,
        /// cancellation-free magnitudes of b and d
        pub bb: Vec<f64>,
        pub dd: Vec<f64>,
        /// forward error scale of the solve (in units of eps) propagated to b, c, d
        pub sb: Vec<f64>,
        pub sc: Vec<f64>,
        pub sd: Vec<f64>,
    }

    pub fn build(x: &[f64], y: &[C64], clamp: Option<(C64, C64)>) -> RefSpline {
        build_opt(x, y, clamp, true)
    }

    /// `with_scales = false` skips the forward-error scales (used for the cardinal splines)
    pub fn build_opt(x: &[f64], y: &[C64], clamp: Option<(C64, C64)>, with_scales: bool) -> RefSpline {
        let n = x.len();
        assert!(n >= 2 && y.len() == n);
        let h: Vec<f64> = (0..n - 1).map(|i| x[i + 1] - x[i]).collect();
        let slope: Vec<C64> = (0..n - 1).map(|i| (y[i + 1] - y[i]) / h[i]).collect();
        let mut a = vec![0.0f64; n * n];
        let mut rhs = vec![C64::new(0.0, 0.0); n];
        let mut rmag = vec![0.0f64; n];
        for i in 1..n - 1 {
            let s = h[i - 1] + h[i];
            a[i * n + i - 1] = h[i - 1] / s;
            a[i * n + i] = 2.0;
            a[i * n + i + 1] = h[i] / s;
            rhs[i] = (slope[i] - slope[i - 1]) * (6.0 / s);
            rmag[i] = (slope[i].norm() + slope[i - 1].norm()) * (6.0 / s);
        }
        match clamp {
            None => {
                a[0] = 1.0;
                a[(n - 1) * n + n - 1] = 1.0;
            }
            Some((f0, f1)) => {
                a[0] = 2.0;
                a[1] = 1.0;
                rhs[0] = (slope[0] - f0) * (6.0 / h[0]);
                rmag[0] = (slope[0].norm() + f0.norm()) * (6.0 / h[0]);
                a[(n - 1) * n + n - 2] = 1.0;
                a[(n - 1) * n + n - 1] = 2.0;
                rhs[n - 1] = (f1 - slope[n - 2]) * (6.0 / h[n - 2]);
                rmag[n - 1] = (slope[n - 2].norm() + f1.norm()) * (6.0 / h[n - 2]);
            }
        }
        let lu = Lu::factor(&a, n).expect("spline matrix is strictly diagonally dominant");
        let re = lu.solve(&rhs.iter().map(|v| v.re).collect::<Vec<_>>());
        let im = lu.solve(&rhs.iter().map(|v| v.im).collect::<Vec<_>>());
        let m: Vec<C64> = (0..n).map(|i| C64::new(re[i], im[i])).collect();
        // componentwise forward error scale  |A^-1| (|A| |M| + |rhs|)
        let mut r = vec![0.0f64; n];
        for i in 0..n {
            let mut s = rmag[i];
            for j in 0..n {
                s += a[i * n + j].abs() * m[j].norm();
            }
            r[i] = s;
        }
        let mut sm = vec![0.0f64; n];
        let mut e = vec![0.0f64; n];
        for j in 0..if with_scales { n } else { 0 } {
            e.iter_mut().for_each(|v| *v = 0.0);
            e[j] = 1.0;
            let col = lu.solve(&e); // column j of A^-1
            for i in 0..n {
                sm[i] += col[i].abs() * r[j];
            }
        }
        let mut out = RefSpline { x: x.to_vec(), h: h.clone(), y: y.to_vec(), b: vec![], c: vec![], d: vec![], bb: vec![], dd: vec![], sb: vec![], sc: vec![], sd: vec![] };
        for i in 0..n - 1 {
            out.b.push(slope[i] - (m[i] * 2.0 + m[i + 1]) * (h[i] / 6.0));
            out.c.push(m[i] * 0.5);
            out.d.push((m[i + 1] - m[i]) / (6.0 * h[i]));
            out.bb.push(slope[i].norm() + (2.0 * m[i].norm() + m[i + 1].norm()) * (h[i] / 6.0));
            out.dd.push((m[i + 1].norm() + m[i].norm()) / (6.0 * h[i]));
            out.sb.push((2.0 * sm[i] + sm[i + 1]) * (h[i] / 6.0));
            out.sc.push(sm[i] * 0.5);
            out.sd.push((sm[i + 1] + sm[i]) / (6.0 * h[i]));
        }
        out
    }

    impl RefSpline {
        /// value and derivative of piece i at x (local form)
        pub fn eval(&self, i: usize, x: f64) -> (C64, C64) {
            let t = x - self.x[i];
            let v = self.y[i] + (self.b[i] + (self.c[i] + self.d[i] * t) * t) * t;
            let dv = self.b[i] + (self.c[i] * 2.0 + self.d[i] * (3.0 * t)) * t;
            (v, dv)
        }
        pub fn second(&self, i: usize, x: f64) -> C64 {
            let t = x - self.x[i];
            self.c[i] * 2.0 + self.d[i] * (6.0 * t)
        }
        /// rounding units (value, derivative) of piece i at x
        pub fn units(&self, i: usize, x: f64) -> (f64, f64) {
            let t = (x - self.x[i]).abs();
            let u = x.abs() + self.x[i].abs();
            let (a, bb, c, dd) = (self.y[i].norm(), self.bb[i], self.c[i].norm(), self.dd[i]);
            let uv = a + bb * u + c * u * u + dd * u * u * u + self.sb[i] * t + self.sc[i] * t * t + self.sd[i] * t * t * t;
            let ud = bb + 2.0 * c * u + 3.0 * dd * u * u + self.sb[i] + 2.0 * self.sc[i] * t + 3.0 * self.sd[i] * t * t;
            (EPS * uv, EPS * ud)
        }
        /// Does the reference itself satisfy the defining conditions (in local form)? Returns the worst
        /// ratio of a defect to its rounding unit.
        pub fn selfcheck(&self, clamp: Option<(C64, C64)>) -> f64 {
            let n = self.x.len();
            let mut worst = 0.0f64;
            for i in 0..n - 1 {
                let xr = self.x[i + 1];
                let (v, dv) = self.eval(i, xr);
                let (uv, ud) = self.units(i, xr);
                worst = worst.max((v - self.y[i + 1]).norm() / uv.max(f64::MIN_POSITIVE));
                if i + 1 < n - 1 {
                    worst = worst.max((dv - self.b[i + 1]).norm() / ud.max(f64::MIN_POSITIVE));
                    let u2 = EPS * (2.0 * (self.c[i].norm() + self.sc[i]) + 6.0 * (self.dd[i] + self.sd[i]) * self.h[i]);
                    worst = worst.max((self.second(i, xr) - self.c[i + 1] * 2.0).norm() / u2.max(f64::MIN_POSITIVE));
                }
            }
            let (_, dl) = self.eval(n - 2, self.x[n - 1]);
            let (_, udl) = self.units(n - 2, self.x[n - 1]);
            let (_, ud0) = self.units(0, self.x[0]);
            match clamp {
                None => {
                    let u2 = EPS * (2.0 * (self.c[n - 2].norm() + self.sc[n - 2]) + 6.0 * (self.dd[n - 2] + self.sd[n - 2]) * self.h[n - 2]);
                    worst = worst.max(self.c[0].norm() / f64::MIN_POSITIVE.max(EPS * self.sc[0]));
                    worst = worst.max(self.second(n - 2, self.x[n - 1]).norm() / u2.max(f64::MIN_POSITIVE));
                }
                Some((f0, f1)) => {
                    worst = worst.max((self.b[0] - f0).norm() / ud0.max(f64::MIN_POSITIVE));
                    worst = worst.max((dl - f1).norm() / udl.max(f64::MIN_POSITIVE));
                }
            }
            worst
        }
    }

    /// Cardinal splines of the interpolation operator on these knots: one per ordinate and, clamped,
    /// one per end slope. `at` returns (sum_j |L_j(x)|, sum_j |L_j'(x)|, |G_0(x)|+|G_1(x)|, |G_0'(x)|+|G_1'(x)|).
    pub struct Cardinals {
        ord: Vec<RefSpline>,
        slope: Vec<RefSpline>,
    }
    impl Cardinals {
        pub fn new(x: &[f64], clamped: bool) -> Cardinals {
            let n = x.len();
            let z = C64::new(0.0, 0.0);
            let one = C64::new(1.0, 0.0);
            let mut ord = vec![];
            for j in 0..n {
                let mut y = vec![z; n];
                y[j] = one;
                ord.push(build_opt(x, &y, if clamped { Some((z, z)) } else { None }, false));
            }
            let mut slope = vec![];
            if clamped {
                let y = vec![z; n];
                slope.push(build_opt(x, &y, Some((one, z)), false));
                slope.push(build_opt(x, &y, Some((z, one)), false));
            }
            Cardinals { ord, slope }
        }
        pub fn at(&self, i: usize, x: f64) -> (f64, f64, f64, f64) {
            let mut r = (0.0, 0.0, 0.0, 0.0);
            for s in &self.ord {
                let (v, d) = s.eval(i, x);
                r.0 += v.norm();
                r.1 += d.norm();
            }
            for s in &self.slope {
                let (v, d) = s.eval(i, x);
                r.2 += v.norm();
                r.3 += d.norm();
            }
            r
        }
    }

    /// weights w_j with  q'(at) = sum_j w_j q(t_j)  for the quadratic q through three abscissae
    pub fn quad_deriv_weights(t: [f64; 3], at: f64) -> [f64; 3] {
        let mut w = [0.0; 3];
        for j in 0..3 {
            let (l, m) = ((j + 1) % 3, (j + 2) % 3);
            w[j] = ((at - t[l]) + (at - t[m])) / ((t[j] - t[l]) * (t[j] - t[m]));
        }
        w
    }
}

use refspline::RefSpline;

// ------------------------------------------------------------------ cases

#[derive(Clone, Copy, PartialEq, Eq, Debug)]
enum DataMode {
    Arbitrary,
    Smooth,
    /// cubic (clamped) / straight line (free): must be reproduced
    Reproduce,
}

#[derive(Clone)]
struct Case {
    clamped: bool,
    xs: Vec<f64>,
    ys: Vec<C64>,
    slopes: (C64, C64),
    tol: f64,
    mode: DataMode,
    /// ascending coefficients of the sampled polynomial (mode Reproduce)
    q: Vec<C64>,
}

impl Case {
    fn json<N: Fld>(&self) -> J {
        let mut j = J::obj()
            .set("constructor", if self.clamped { "spline_clamped" } else { "spline_free" })
            .set("field", N::NAME)
            .set("xs", J::fs(&self.xs))
            .set("ys_re", J::fs(&self.ys.iter().map(|v| v.re).collect::<Vec<_>>()));
        if N::COMPLEX {
            j.put("ys_im", J::fs(&self.ys.iter().map(|v| v.im).collect::<Vec<_>>()));
        }
        if self.clamped {
            j.put("end_slopes", J::Arr(vec![J::fs(&[self.slopes.0.re, self.slopes.0.im]), J::fs(&[self.slopes.1.re, self.slopes.1.im])]));
        }
        j.put("tol", self.tol);
        j.put("data", format!("{:?}", self.mode));
        if self.mode == DataMode::Reproduce {
            j.put("sampled_polynomial_ascending", J::Arr(self.q.iter().map(|v| J::fs(&[v.re, v.im])).collect::<Vec<_>>()));
        }
        j
    }
    fn ratio(&self) -> f64 {
        let hs: Vec<f64> = self.xs.windows(2).map(|w| w[1] - w[0]).collect();
        let mx = hs.iter().fold(0.0f64, |a, b| a.max(*b));
        let mn = hs.iter().fold(f64::INFINITY, |a, b| a.min(*b));
        mx / mn
    }
}

fn gen_knots(rng: &mut Rng, n: usize) -> Vec<f64> {
    let style = rng.below(10);
    if style == 0 {
        // equally spaced integers (the shape of the existing tests), shifted
        let x0 = rng.int(-10, 10 - (n as i64 - 1).min(20)) as f64;
        let step = if n > 21 { 20.0 / (n as f64 - 1.0) } else { 1.0 };
        return (0..n).map(|i| if n > 21 { -10.0 + step * i as f64 } else { x0 + i as f64 }).collect();
    }
    let rmax = 50f64.powf(rng.f());
    let hs: Vec<f64> = (0..n - 1).map(|_| rmax.powf(rng.f())).collect();
    let total: f64 = hs.iter().sum();
    // style 3: a tight cluster of knots next to 0 (total length down to 1e-17: the spacings are far
    // below machine epsilon in absolute terms and still perfectly resolved relative to the knots)
    let tiny = style == 3;
    let len = if tiny { rng.log10(-17.0, -2.0) } else { 20.0 * 10f64.powf(-rng.r(0.0, 1.5)) * (1.0 - 1e-12) };
    let x0 = if tiny { -len * rng.f() } else { rng.r(-10.0, 10.0 - len) };
    let mut xs = vec![x0];
    for h in &hs {
        let nx = xs.last().unwrap() + h * len / total;
        xs.push(nx);
    }
    if style == 1 && xs[0] < 0.0 && xs[n - 1] > 0.0 {
        // shift the whole grid so that the knot nearest to 0 is exactly 0 (spacings keep their ratios)
        let k = (0..n).min_by(|a, b| xs[*a].abs().partial_cmp(&xs[*b].abs()).unwrap()).unwrap();
        let s = xs[k];
        if xs[0] - s >= -10.0 && xs[n - 1] - s <= 10.0 {
            for x in xs.iter_mut() {
                *x -= s;
            }
            xs[k] = 0.0;
        }
    }
    if style == 4 && n >= 4 {
        // dyadic grid whose first and last spacings are bit-identical while an interior one differs:
        // equal end spacings do not make a grid uniform
        let h0 = 0.5f64.powi(rng.below(3) as i32);
        let mut v = vec![rng.int(-8, 0) as f64];
        for i in 0..n - 1 {
            let h = if i == 0 || i == n - 2 { h0 } else { h0 * [0.5, 1.0, 1.5, 2.0, 3.5][rng.below(5)] };
            let nx = v.last().unwrap() + h;
            v.push(nx);
        }
        if v.windows(2).skip(1).take(n - 3).any(|w| w[1] - w[0] != h0) && *v.last().unwrap() <= 40.0 {
            // (keep inside [-10, 10]: scale by a power of two if necessary - exact)
            let span = v[n - 1] - v[0];
            let k = if span > 18.0 { 0.5f64.powi(((span / 18.0).log2().ceil()) as i32) } else { 1.0 };
            return v.iter().map(|x| x * k).collect();
        }
    }
    if style == 2 {
        // the first or the last knot is exactly zero, of either sign (a mirrored grid ends in -0.0)
        let s = if rng.bool() { xs[0] } else { xs[n - 1] };
        for x in xs.iter_mut() {
            *x -= s;
        }
        let z = if rng.bool() { 0.0 } else { -0.0 };
        if xs[0] == 0.0 {
            xs[0] = z;
        }
        if xs[n - 1] == 0.0 {
            xs[n - 1] = z;
        }
    }
    // strictly increasing is the premise
    for i in 1..n {
        if !(xs[i] > xs[i - 1]) {
            xs[i] = next_up(xs[i - 1]);
        }
    }
    xs
}

/// value, derivative, sum_k |q_k||x|^k, sum_k k|q_k||x|^(k-1)
fn polyval(q: &[C64], x: f64) -> (C64, C64, f64, f64) {
    let mut v = C64::new(0.0, 0.0);
    let mut dv = C64::new(0.0, 0.0);
    let mut mag = 0.0;
    let mut dmag = 0.0;
    for k in (0..q.len()).rev() {
        dv = dv * x + v;
        v = v * x + q[k];
        dmag = dmag * x.abs() + mag;
        mag = mag * x.abs() + q[k].norm();
    }
    (v, dv, mag, dmag)
}

fn gen_case(rng: &mut Rng, complex: bool, clamped: bool, n: usize, mode: DataMode) -> Case {
    let xs = gen_knots(rng, n);
    let scale = rng.log10(-2.0, 2.0);
    // one case in 32 (chosen from the knots, so that the other draws stay as they were): ordinates of
    // 1e154 ... 1e156 - the spline is linear in its data, every quantity is representable, a squared ordinate is not
    let scale = if (xs[0].to_bits() >> 6) % 32 == 0 { scale * 1e154 * 10f64.powf(2.3) } else { scale };
    let cplx = |rng: &mut Rng, s: f64| C64::new(s * rng.r(-1.0, 1.0), if complex { s * rng.r(-1.0, 1.0) } else { 0.0 });
    let mut q = vec![];
    let (ys, slopes) = match mode {
        DataMode::Arbitrary => {
            let ys = (0..n).map(|_| cplx(rng, scale)).collect();
            (ys, (cplx(rng, scale), cplx(rng, scale)))
        }
        DataMode::Smooth => {
            let w = rng.r(0.2, 2.0);
            let ph = rng.r(0.0, 6.0);
            let f = |x: f64| C64::new(scale * (w * x + ph).sin(), if complex { scale * (0.7 * w * x - ph).cos() } else { 0.0 });
            let df = |x: f64| C64::new(scale * w * (w * x + ph).cos(), if complex { -scale * 0.7 * w * (0.7 * w * x - ph).sin() } else { 0.0 });
            let ys = xs.iter().map(|x| f(*x)).collect();
            // end slopes: the true ones, or perturbed
            let p = if rng.bool() { 1.0 } else { rng.r(-2.0, 2.0) };
            (ys, (df(xs[0]) * p, df(xs[n - 1]) * p))
        }
        DataMode::Reproduce => {
            let deg = if clamped { 3 } else { 1 };
            q = (0..=deg).map(|k| cplx(rng, scale / 10f64.powi(k as i32))).collect();
            let ys = xs.iter().map(|x| polyval(&q, *x).0).collect();
            (ys, (polyval(&q, xs[0]).1, polyval(&q, xs[n - 1]).1))
        }
    };
    // the zero tolerance of the piece polynomials: any non-negative number is admissible
    // (coarse values too: the tolerance concerns the piece polynomials' zero test, not the spline;
    // with ordinates down to 1e-2 x scale the monomial coefficients of a piece are then below it)
    let tol = match rng.below(12) {
        0 => 0.0,
        1 => 1e-300,
        2 => rng.log10(-3.0, 1.0),
        _ => rng.log10(-14.0, -6.0),
    };
    Case { clamped, xs, ys, slopes, tol, mode, q }
}

fn construct<N: Fld>(c: &Case) -> Guarded<Result<CubicSpline<N>, String>> {
    let ys: Vec<N> = c.ys.iter().map(|v| N::mk(*v)).collect();
    let xs = c.xs.clone();
    let tol = c.tol;
    let sl = (N::mk(c.slopes.0), N::mk(c.slopes.1));
    let clamped = c.clamped;
    probe::guard(move || if clamped { spline_clamped::<N>(&xs, &ys, sl, tol) } else { spline_free::<N>(&xs, &ys, tol) })
}

/// what the library returned at one abscissa: (evaluate, evaluate_derivative)
fn observe<N: Fld>(s: &CubicSpline<N>, x: f64) -> Result<(C64, C64, C64), String> {
    match probe::guard(|| (s.evaluate(x), s.evaluate_derivative(x))) {
        Guarded::Ok((Ok(v), Ok((v2, d)))) => Ok((v.c(), v2.c(), d.c())),
        Guarded::Ok((a, b)) => Err(format!("evaluate -> {:?}, evaluate_derivative -> {:?}", a.map(|v| v.c()), b.map(|v| (v.0.c(), v.1.c())))),
        Guarded::Panic(m, l) => Err(format!("panic '{}' at {}", m, l)),
        Guarded::Budget => Err("budget".into()),
    }
}

struct Judge<'a> {
    name: &'static str,
    rf: &'a RefSpline,
    case: &'a dyn Fn() -> J,
    fired: std::collections::BTreeSet<String>,
    worst: f64,
}

impl<'a> Judge<'a> {
    fn flag(&mut self, rep: &mut Report, sig: &str, extra: J, detail: String) {
        // one stored violation per signature and spline
        if self.fired.insert(sig.to_string()) {
            let mut c = (self.case)();
            c.put("at", extra);
            rep.violation(&format!("{}/{}", self.name, sig), c, detail);
        }
    }
    /// compare one observation with piece `i` of the reference
    fn against_reference(&mut self, rep: &mut Report, i: usize, x: f64, obs: &(C64, C64, C64), where_: &str) {
        let (rv, rd) = self.rf.eval(i, x);
        let (uv, ud) = self.rf.units(i, x);
        let ev = nmax((obs.0 - rv).norm(), (obs.1 - rv).norm());
        let ed = (obs.2 - rd).norm();
        let (qv, qd) = (if ev == 0.0 { 0.0 } else { ev / uv }, if ed == 0.0 { 0.0 } else { ed / ud });
        rep.max(&format!("{}/value_err_over_unit", self.name), qv);
        rep.max(&format!("{}/derivative_err_over_unit", self.name), qd);
        self.worst = self.worst.max(qv).max(qd);
        rep.count(&format!("{}/points_{}", self.name, where_), 1);
        if !(ev <= KV * uv) {
            self.flag(
                rep,
                "value-differs-from-reference",
                J::obj().set("x", x).set("piece", i).set("where", where_).set("evaluate", J::fs(&[obs.0.re, obs.0.im])).set("evaluate_derivative.0", J::fs(&[obs.1.re, obs.1.im])).set("reference", J::fs(&[rv.re, rv.im])),
                format!("S({:e}) ({}, piece {}): evaluate = {:e}{:+e}i, evaluate_derivative.0 = {:e}{:+e}i, independent spline = {:e}{:+e}i; |error| {:e} > {} units = {:e}", x, where_, i, obs.0.re, obs.0.im, obs.1.re, obs.1.im, rv.re, rv.im, ev, KV, KV * uv),
            );
        }
        if !(ed <= KD * ud) {
            self.flag(
                rep,
                "derivative-differs-from-reference",
                J::obj().set("x", x).set("piece", i).set("where", where_).set("derivative", J::fs(&[obs.2.re, obs.2.im])).set("reference", J::fs(&[rd.re, rd.im])),
                format!("S'({:e}) ({}, piece {}): library {:e}{:+e}i, independent spline {:e}{:+e}i; |error| {:e} > {} units = {:e}", x, where_, i, obs.2.re, obs.2.im, rd.re, rd.im, ed, KD, KD * ud),
            );
        }
    }
}

fn run_spline<N: Fld>(rep: &mut Report, c: &Case, stage_tag: &str) {
    let name: &'static str = match (c.clamped, N::COMPLEX) {
        (false, false) => "free/f64",
        (false, true) => "free/complex",
        (true, false) => "clamped/f64",
        (true, true) => "clamped/complex",
    };
    let case = || c.json::<N>();
    let n = c.xs.len();
    rep.eval();
    rep.count(&format!("{}/splines", name), 1);
    if c.tol == 0.0 {
        rep.count(&format!("{}/splines_with_tolerance_zero", name), 1);
    }
    let s = match construct::<N>(c) {
        Guarded::Ok(Ok(s)) => s,
        Guarded::Ok(Err(e)) => {
            rep.violation(&format!("{}/valid-input-rejected", name), case(), format!("strictly increasing knots, matching lengths, {} points: Err({})", n, e));
            return;
        }
        Guarded::Panic(m, l) => {
            rep.violation(&format!("{}/panic", name), case(), format!("constructor panicked: '{}' at {}", m, l));
            return;
        }
        Guarded::Budget => return,
    };
    let clamp = if c.clamped { Some(c.slopes) } else { None };
    let rf = refspline::build(&c.xs, &c.ys, clamp);
    let sc = rf.selfcheck(clamp);
    rep.max("reference_selfcheck_defect_over_unit", sc);
    if !(sc <= 64.0) {
        panic!("C16 reference model fails its own defining conditions: defect {} units; case {}", sc, case().to_string_compact());
    }
    let mut jd = Judge { name, rf: &rf, case: &case, fired: Default::default(), worst: 0.0 };
    let np = n - 1;
    // observations, per piece: [near-left, 8 interior, near-right]
    let mut grid: Vec<Vec<(f64, (C64, C64, C64))>> = vec![];
    let mut failed = false;
    let obs_at = |rep: &mut Report, jd: &mut Judge, x: f64| -> Option<(C64, C64, C64)> {
        match observe::<N>(&s, x) {
            Ok(o) => Some(o),
            Err(e) => {
                jd.flag(rep, "inside-range-not-evaluated", J::obj().set("x", x), format!("x = {:e} lies in [{:e}, {:e}] but {}", x, c.xs[0], c.xs[n - 1], e));
                None
            }
        }
    };
    for i in 0..np {
        let (xl, xr) = (c.xs[i], c.xs[i + 1]);
        let h = xr - xl;
        let mut pts: Vec<(f64, &str)> = vec![];
        // left end: the knot itself for the first piece, else its upper neighbour (only piece i contains it)
        pts.push(if i == 0 { (xl, "first-knot") } else { (next_up(xl), "knot+1ulp") });
        for j in 1..=8 {
            let x = xl + h * (j as f64 / 9.0);
            if x > pts.last().unwrap().0 && x < xr {
                pts.push((x, "interior"));
            }
        }
        let right = if i == np - 1 { (xr, "last-knot") } else { (next_down(xr), "knot-1ulp") };
        if right.0 > pts.last().unwrap().0 {
            pts.push(right);
        }
        let mut row = vec![];
        for (x, w) in pts {
            match obs_at(rep, &mut jd, x) {
                Some(o) => {
                    jd.against_reference(rep, i, x, &o, w);
                    row.push((x, o));
                }
                None => failed = true,
            }
        }
        grid.push(row);
    }
    // the knots themselves: interpolation, and either adjacent piece is acceptable for the slope
    for k in 0..n {
        let x = c.xs[k];
        let o = match obs_at(rep, &mut jd, x) {
            Some(o) => o,
            None => {
                failed = true;
                continue;
            }
        };
        let li = if k > 0 { k - 1 } else { 0 };
        let ri = if k < np { k } else { np - 1 };
        let (uvl, udl) = rf.units(li, x);
        let (uvr, udr) = rf.units(ri, x);
        let (uv, ud) = (uvl.max(uvr), udl.max(udr));
        let ev = nmax((o.0 - c.ys[k]).norm(), (o.1 - c.ys[k]).norm());
        let q = if ev == 0.0 { 0.0 } else { ev / uv };
        rep.max(&format!("{}/interpolation_err_over_unit", name), q);
        rep.count(&format!("{}/points_knot", name), 1);
        if !(ev <= KV * uv) {
            jd.flag(
                rep,
                "interpolation",
                J::obj().set("x", x).set("knot", k).set("evaluate", J::fs(&[o.0.re, o.0.im])).set("evaluate_derivative.0", J::fs(&[o.1.re, o.1.im])).set("y", J::fs(&[c.ys[k].re, c.ys[k].im])),
                format!("S(x_{}) = {:e}{:+e}i / {:e}{:+e}i but y_{} = {:e}{:+e}i (|error| {:e} > {:e})", k, o.0.re, o.0.im, o.1.re, o.1.im, k, c.ys[k].re, c.ys[k].im, ev, KV * uv),
            );
        }
        // slope at the knot: reference from the right piece at t = 0 (b_k), or the left piece's end slope for the last knot
        let rd = if k < np { rf.b[k] } else { rf.eval(np - 1, x).1 };
        let ed = (o.2 - rd).norm();
        let qd = if ed == 0.0 { 0.0 } else { ed / ud };
        rep.max(&format!("{}/derivative_err_over_unit", name), qd);
        if !(ed <= KD * ud) {
            jd.flag(
                rep,
                "derivative-differs-from-reference",
                J::obj().set("x", x).set("knot", k).set("derivative", J::fs(&[o.2.re, o.2.im])).set("reference", J::fs(&[rd.re, rd.im])),
                format!("S'(x_{} = {:e}): library {:e}{:+e}i, independent spline {:e}{:+e}i; |error| {:e} > {:e}", k, x, o.2.re, o.2.im, rd.re, rd.im, ed, KD * ud),
            );
        }
        // clamped: prescribed end slopes, directly
        if c.clamped && (k == 0 || k == n - 1) {
            let want = if k == 0 { c.slopes.0 } else { c.slopes.1 };
            let e = (o.2 - want).norm();
            rep.max(&format!("{}/end_slope_err_over_unit", name), if e == 0.0 { 0.0 } else { e / ud });
            rep.count(&format!("{}/end_slopes_checked", name), 1);
            if !(e <= KD * ud) {
                jd.flag(
                    rep,
                    "clamped-end-slope",
                    J::obj().set("x", x).set("derivative", J::fs(&[o.2.re, o.2.im])).set("prescribed", J::fs(&[want.re, want.im])),
                    format!("S'({:e}) = {:e}{:+e}i at the {} end, prescribed slope {:e}{:+e}i (|error| {:e} > {:e})", x, o.2.re, o.2.im, if k == 0 { "left" } else { "right" }, want.re, want.im, e, KD * ud),
                );
            }
        }
    }
    // an end knot that is a zero: the zero of the other sign is the same point of the range
    for k in [0, n - 1] {
        if c.xs[k] == 0.0 {
            let x = -c.xs[k];
            rep.count(&format!("{}/end_knot_zero_evaluated_at_the_other_zero", name), 1);
            if let Some(o) = obs_at(rep, &mut jd, x) {
                let i = if k == 0 { 0 } else { np - 1 };
                jd.against_reference(rep, i, x, &o, "end-knot-zero-of-other-sign");
            } else {
                failed = true;
            }
        }
    }
    // smoothness across interior knots and the free end conditions, from the observations alone
    if !failed {
        // second derivative of piece i at abscissa `at`, from three derivative samples of that piece
        let second = |i: usize, at: f64| -> Option<(C64, f64)> {
            let row = &grid[i];
            if row.len() < 3 {
                return None;
            }
            let pick = [0, row.len() / 2, row.len() - 1];
            let t = [row[pick[0]].0 - c.xs[i], row[pick[1]].0 - c.xs[i], row[pick[2]].0 - c.xs[i]];
            let w = refspline::quad_deriv_weights(t, at - c.xs[i]);
            let mut v = C64::new(0.0, 0.0);
            let mut unit = 0.0;
            for j in 0..3 {
                v += row[pick[j]].1 .2 * w[j];
                unit += w[j].abs() * rf.units(i, row[pick[j]].0).1;
            }
            Some((v, unit))
        };
        for k in 1..n - 1 {
            // C0 / C1 from the one-ulp neighbours
            let l = grid[k - 1].last().unwrap();
            let r = grid[k].first().unwrap();
            let (uvl, udl) = rf.units(k - 1, l.0);
            let (uvr, udr) = rf.units(k, r.0);
            let jump_v = (l.1 .0 - r.1 .0).norm();
            let jump_d = (l.1 .2 - r.1 .2).norm();
            let qv = if jump_v == 0.0 { 0.0 } else { jump_v / (uvl + uvr) };
            let qd = if jump_d == 0.0 { 0.0 } else { jump_d / (udl + udr) };
            rep.max(&format!("{}/value_jump_over_unit", name), qv);
            rep.max(&format!("{}/derivative_jump_over_unit", name), qd);
            if !(jump_v <= KV * (uvl + uvr)) {
                jd.flag(rep, "value-jump-at-knot", J::obj().set("knot", k).set("x", c.xs[k]), format!("S jumps by {:e} across knot {} (x = {:e}); allowed {:e}", jump_v, k, c.xs[k], KV * (uvl + uvr)));
            }
            if !(jump_d <= KD * (udl + udr)) {
                jd.flag(rep, "derivative-jump-at-knot", J::obj().set("knot", k).set("x", c.xs[k]), format!("S' jumps by {:e} across knot {} (x = {:e}); allowed {:e}", jump_d, k, c.xs[k], KD * (udl + udr)));
            }
            if let (Some((sl, ul)), Some((sr, ur))) = (second(k - 1, c.xs[k]), second(k, c.xs[k])) {
                let jump = (sl - sr).norm();
                let q = if jump == 0.0 { 0.0 } else { jump / (ul + ur) };
                rep.max(&format!("{}/second_derivative_jump_over_unit", name), q);
                rep.count(&format!("{}/c2_knots_checked", name), 1);
                if !(jump <= KS * (ul + ur)) {
                    jd.flag(
                        rep,
                        "second-derivative-jump-at-knot",
                        J::obj().set("knot", k).set("x", c.xs[k]).set("left", J::fs(&[sl.re, sl.im])).set("right", J::fs(&[sr.re, sr.im])),
                        format!("S'' jumps across knot {} (x = {:e}): left piece {:e}{:+e}i, right piece {:e}{:+e}i (difference {:e} > {:e})", k, c.xs[k], sl.re, sl.im, sr.re, sr.im, jump, KS * (ul + ur)),
                    );
                }
            }
        }
        if !c.clamped {
            for (i, at, which) in [(0usize, c.xs[0], "left"), (np - 1, c.xs[n - 1], "right")] {
                if let Some((s2, u)) = second(i, at) {
                    // the unit has to cover the solve's own error scale of M at the end (which is zero for the exact spline)
                    let u = u + EPS * 2.0 * rf.sc[i.min(np - 1)];
                    let q = if s2.norm() == 0.0 { 0.0 } else { s2.norm() / u };
                    rep.max(&format!("{}/free_end_second_derivative_over_unit", name), q);
                    rep.count(&format!("{}/free_ends_checked", name), 1);
                    if !(s2.norm() <= KS * u) {
                        jd.flag(
                            rep,
                            "free-end-second-derivative",
                            J::obj().set("x", at).set("second_derivative", J::fs(&[s2.re, s2.im])),
                            format!("free spline: S''({:e}) = {:e}{:+e}i at the {} end (from three derivative samples of the end piece), must vanish; allowed {:e}", at, s2.re, s2.im, which, KS * u),
                        );
                    }
                }
            }
        }
    }
    // reproduction of cubics / lines
    if c.mode == DataMode::Reproduce && !failed {
        // rounding of the sampled ordinates / end slopes, carried through the (linear) spline operator
        let qmax = c.xs.iter().map(|x| polyval(&c.q, *x).2).fold(0.0f64, f64::max);
        let qdmax = polyval(&c.q, c.xs[0]).3.max(polyval(&c.q, c.xs[n - 1]).3);
        let card = refspline::Cardinals::new(&c.xs, c.clamped);
        for (i, row) in grid.iter().enumerate() {
            for (x, o) in row {
                let (qv, qd, _, _) = polyval(&c.q, *x);
                let (uv, ud) = rf.units(i, *x);
                let (lv, ld, gv, gd) = card.at(i, *x);
                rep.max("lebesgue_function_of_spline_operator", lv);
                let (uv, ud) = (uv + EPS * (lv * qmax + gv * qdmax), ud + EPS * (ld * qmax + gd * qdmax));
                let ev = (o.0 - qv).norm();
                let ed = (o.2 - qd).norm();
                rep.max(&format!("{}/reproduction_value_err_over_unit", name), if ev == 0.0 { 0.0 } else { ev / uv });
                rep.max(&format!("{}/reproduction_derivative_err_over_unit", name), if ed == 0.0 { 0.0 } else { ed / ud });
                if !(ev <= KQ * uv) || !(ed <= KQ * ud) {
                    jd.flag(
                        rep,
                        if c.clamped { "cubic-not-reproduced" } else { "line-not-reproduced" },
                        J::obj().set("x", *x).set("value", J::fs(&[o.0.re, o.0.im])).set("derivative", J::fs(&[o.2.re, o.2.im])).set("polynomial_value", J::fs(&[qv.re, qv.im])).set("polynomial_derivative", J::fs(&[qd.re, qd.im])),
                        format!("data sampled from a {}: at x = {:e} spline value/derivative {:e}{:+e}i / {:e}{:+e}i, polynomial {:e}{:+e}i / {:e}{:+e}i (errors {:e}, {:e}; allowed {:e}, {:e})", if c.clamped { "cubic with its own end slopes" } else { "straight line" }, x, o.0.re, o.0.im, o.2.re, o.2.im, qv.re, qv.im, qd.re, qd.im, ev, ed, KQ * uv, KQ * ud),
                    );
                }
            }
        }
        rep.count(&format!("{}/reproduction_splines", name), 1);
    }
    let ratio = c.ratio();
    rep.max("spacing_ratio", ratio);
    rep.max("knots", n as f64);
    if n >= 4 && ratio >= 2.0 {
        let mut h = CaseHash::new("c16").u(c.clamped as u64).u(N::COMPLEX as u64).fs(&c.xs);
        for y in &c.ys {
            h = h.f(y.re).f(y.im);
        }
        rep.nontrivial(h.0);
        rep.count("nontrivial_splines", 1);
        if rep.wants_sample() && n <= 8 {
            rep.sample(case().set("stage", stage_tag).set("pieces", np).set("spacing_ratio", ratio).set("worst_error_over_unit", jd.worst).set("violations", jd.fired.len()));
        }
    }
}

fn run_case(rep: &mut Report, rng: &mut Rng, idx: u64, n: usize, mode: DataMode, tag: &str) {
    let complex = idx % 2 == 1;
    let clamped = (idx / 2) % 2 == 1;
    let c = gen_case(rng, complex, clamped, n, mode);
    if c.ys.iter().any(|y| y.norm() > 1e150) {
        rep.count("splines_with_ordinates_above_1e150", 1);
    }
    if complex {
        run_spline::<C64>(rep, &c, tag);
    } else {
        run_spline::<f64>(rep, &c, tag);
    }
}

// ------------------------------------------------------------------ Err cases

fn expect_err<T>(rep: &mut Report, sig: &str, what: &str, g: Guarded<Result<T, String>>, case: &dyn Fn() -> J) {
    rep.eval();
    rep.count(&format!("err/{}", sig), 1);
    match g {
        Guarded::Ok(Err(_)) => {
            rep.count("err/returned_err", 1);
        }
        Guarded::Ok(Ok(_)) => rep.violation(&format!("err/{}", sig), case(), format!("{}: returned Ok, the property requires Err", what)),
        Guarded::Panic(m, l) => rep.violation(&format!("err/{}", sig), case(), format!("{}: panicked ('{}' at {}), the property requires Err", what, m, l)),
        Guarded::Budget => {}
    }
}

fn err_case<N: Fld>(rep: &mut Report, rng: &mut Rng, kind: u64, clamped: bool) {
    let cname = if clamped { "spline_clamped" } else { "spline_free" };
    let build = |xs: &[f64], ys: &[C64]| -> Guarded<Result<CubicSpline<N>, String>> {
        let ysn: Vec<N> = ys.iter().map(|v| N::mk(*v)).collect();
        let xs = xs.to_vec();
        probe::guard(move || if clamped { spline_clamped::<N>(&xs, &ysn, (N::mk(C64::new(0.3, 0.1)), N::mk(C64::new(-0.2, 0.4))), 1e-10) } else { spline_free::<N>(&xs, &ysn, 1e-10) })
    };
    let cj = |xs: &[f64], ys: &[C64]| J::obj().set("constructor", cname).set("field", N::NAME).set("xs", J::fs(xs)).set("ys_re", J::fs(&ys.iter().map(|v| v.re).collect::<Vec<_>>())).set("ys_im", J::fs(&ys.iter().map(|v| v.im).collect::<Vec<_>>())).set("end_slopes", "(0.3+0.1i, -0.2+0.4i) (real parts only for f64)").set("tol", 1e-10);
    let rnd_ys = |rng: &mut Rng, n: usize| -> Vec<C64> { (0..n).map(|_| C64::new(rng.r(-1.0, 1.0), if N::COMPLEX { rng.r(-1.0, 1.0) } else { 0.0 })).collect() };
    match kind {
        0 => {
            // evaluation outside the knot range of a valid spline
            let n = 2 + rng.below(12);
            let c = gen_case(rng, N::COMPLEX, clamped, n, DataMode::Arbitrary);
            let s = match construct::<N>(&c) {
                Guarded::Ok(Ok(s)) => s,
                _ => {
                    rep.inconclusive("err-stage: valid spline not constructed (reported by the other stages)");
                    return;
                }
            };
            let (a, b) = (c.xs[0], c.xs[n - 1]);
            let d = rng.log10(-9.0, 1.0);
            for x in [next_down(a), a - d, a - 1e3, f64::NEG_INFINITY, next_up(b), b + d, b + 1e3, f64::INFINITY] {
                let case = || c.json::<N>().set("x", x);
                expect_err(rep, "evaluate-outside-range", &format!("evaluate({:e}) with knot range [{:e}, {:e}]", x, a, b), probe::guard(|| s.evaluate(x)), &case);
                expect_err(rep, "evaluate_derivative-outside-range", &format!("evaluate_derivative({:e}) with knot range [{:e}, {:e}]", x, a, b), probe::guard(|| s.evaluate_derivative(x)), &case);
            }
        }
        1 => {
            // fewer than two points
            for n in 0..2usize {
                let xs: Vec<f64> = (0..n).map(|i| i as f64 + rng.r(-1.0, 1.0)).collect();
                let ys = rnd_ys(rng, n);
                expect_err(rep, "fewer-than-two-points", &format!("{} with {} point(s)", cname, n), build(&xs, &ys), &|| cj(&xs, &ys));
            }
        }
        2 => {
            // mismatched lengths
            let a = rng.below(7);
            let mut b = rng.below(7);
            if a == b {
                b = a + 1 + rng.below(3);
            }
            let mut xs = vec![rng.r(-5.0, 0.0)];
            for _ in 1..a.max(1) {
                let nx = xs.last().unwrap() + rng.r(0.1, 1.0);
                xs.push(nx);
            }
            xs.truncate(a);
            let ys = rnd_ys(rng, b);
            expect_err(rep, "mismatched-lengths", &format!("{} with {} abscissae and {} ordinates", cname, a, b), build(&xs, &ys), &|| cj(&xs, &ys));
        }
        _ => {
            // decreasing knots
            let n = 2 + rng.below(10);
            let mut xs = gen_knots(rng, n);
            let how = rng.below(4);
            match how {
                0 => xs.reverse(),
                1 => {
                    let k = rng.below(n - 1);
                    xs.swap(k, k + 1);
                }
                2 => xs[n - 1] = xs[n - 2] - rng.log10(-6.0, 0.0),
                _ => xs[0] = xs[1] + rng.log10(-6.0, 0.0),
            }
            let ys = rnd_ys(rng, n);
            expect_err(rep, "decreasing-knots", &format!("{} with a decreasing pair of knots (variant {})", cname, how), build(&xs, &ys), &|| cj(&xs, &ys));
        }
    }
}

// ------------------------------------------------------------------ interface

pub fn meta() -> CheckMeta {
    CheckMeta {
        id: "C16",
        level: "exploration",
        rule: "cases: spline_free / spline_clamped x f64 / Complex<f64> ordinates, 2..40 strictly increasing knots in [-10,10] (random spacings with ratio up to 50, total length 0.6..20, integer grids, a knot at exactly 0), ordinates arbitrary / sampled from a smooth function / sampled from a cubic (clamped) or a line (free), random end slopes, tolerance 1e-14..1e-6 and the admissible extremes 0 and 1e-300; a first or last knot that is exactly +0.0 or -0.0 (then also evaluated at the zero of the other sign); plus the Err cases. A spline is a distinct non-trivial case when it has >= 4 knots and spacing ratio >= 2 (hash of constructor, field, knots, ordinates)".into(),
        assumptions: vec![
            "reference: moment equations assembled densely and solved by the harness' own partial-pivot LU; it must pass its own C2/end-condition self-check (<= 64 units) before use".into(),
            format!("bounds: value {} unit_v, derivative {} unit_d, second-derivative jumps / free ends {} sum|w| unit_d, reproduction {} (unit + eps Lebesgue-function x data magnitude); units defined at the top of c16.rs (conditioning of the expanded-in-x piece + componentwise forward error of the tridiagonal solve)", KV, KD, KS, KQ),
            "equal knots and NaN abscissae are outside the property (premise: strictly increasing knots) and are not exercised".into(),
        ],
        exhaustive: false,
        stuck_is_violation: true,
    }
}

const ANCHOR_NS: [usize; 8] = [2, 3, 4, 5, 8, 11, 24, 40];

pub fn stages(ctx: &Ctx) -> Vec<Stage> {
    let seed = ctx.seed;
    let tier = ctx.tier;
    let mut st = vec![];
    // anchors: fixed seed; 8 sizes x 3 data modes x 4 (constructor, field)
    st.push(Stage::new("anchors", (ANCHOR_NS.len() * 3 * 4) as u64, move |i, rep| {
        let mut rng = Rng::for_case(424242, "c16-anchor", i);
        let n = ANCHOR_NS[((i / 4) % 8) as usize];
        let mode = [DataMode::Arbitrary, DataMode::Smooth, DataMode::Reproduce][(i / 32) as usize];
        run_case(rep, &mut rng, i, n, mode, "anchors");
    }));
    st.push(Stage::new("random", tier.pick(30_000, 1_000_000), move |i, rep| {
        let mut rng = Rng::for_case(seed, "c16-random", i);
        let n = match rng.below(10) {
            0 => 2 + rng.below(3),
            1 | 2 => 4 + rng.below(6),
            _ => 2 + rng.below(39),
        };
        let mode = match rng.below(10) {
            0..=5 => DataMode::Arbitrary,
            6 | 7 => DataMode::Smooth,
            _ => DataMode::Reproduce,
        };
        run_case(rep, &mut rng, i, n, mode, "random");
    }));
    st.push(Stage::new("errors", tier.pick(800, 8_000), move |i, rep| {
        let mut rng = Rng::for_case(seed, "c16-err", i);
        let kind = i % 4;
        let clamped = (i / 4) % 2 == 1;
        if (i / 8) % 2 == 1 {
            err_case::<C64>(rep, &mut rng, kind, clamped);
        } else {
            err_case::<f64>(rep, &mut rng, kind, clamped);
        }
    }));
    st
}

pub fn thresholds(ctx: &Ctx, rep: &Report) -> Vec<Threshold> {
    let mut t = vec![];
    t.push(Threshold { what: "splines through ordinates above 1e150".into(), required: ctx.tier.pick(150.0, 2_500.0), observed: rep.counter("splines_with_ordinates_above_1e150") as f64 });
    for name in ["free/f64", "free/complex", "clamped/f64", "clamped/complex"] {
        t.push(Threshold { what: format!("{} splines compared with the reference", name), required: ctx.tier.pick(1_200.0, 20_000.0), observed: rep.counter(&format!("{}/splines", name)) as f64 });
        t.push(Threshold { what: format!("{}: observations one ulp left and right of interior knots", name), required: ctx.tier.pick(16_000.0, 300_000.0), observed: (rep.counter(&format!("{}/points_knot-1ulp", name)) + rep.counter(&format!("{}/points_knot+1ulp", name))) as f64 });
        t.push(Threshold { what: format!("{}: interior knots at which the second derivative was compared across the knot", name), required: ctx.tier.pick(8_000.0, 150_000.0), observed: rep.counter(&format!("{}/c2_knots_checked", name)) as f64 });
        t.push(Threshold { what: format!("{}: end knots that are a zero, evaluated at the zero of the other sign", name), required: ctx.tier.pick(200.0, 1_500.0), observed: rep.counter(&format!("{}/end_knot_zero_evaluated_at_the_other_zero", name)) as f64 });
        t.push(Threshold { what: format!("{}: splines built with zero tolerance exactly 0", name), required: ctx.tier.pick(200.0, 1_500.0), observed: rep.counter(&format!("{}/splines_with_tolerance_zero", name)) as f64 });
        t.push(Threshold { what: format!("{}: splines through cubic / linear data", name), required: ctx.tier.pick(120.0, 2_000.0), observed: rep.counter(&format!("{}/reproduction_splines", name)) as f64 });
    }
    for name in ["free/f64", "free/complex"] {
        t.push(Threshold { what: format!("{}: free ends at which S'' = 0 was checked", name), required: ctx.tier.pick(2_400.0, 40_000.0), observed: rep.counter(&format!("{}/free_ends_checked", name)) as f64 });
    }
    for name in ["clamped/f64", "clamped/complex"] {
        t.push(Threshold { what: format!("{}: prescribed end slopes checked", name), required: ctx.tier.pick(2_400.0, 40_000.0), observed: rep.counter(&format!("{}/end_slopes_checked", name)) as f64 });
    }
    for sig in ["evaluate-outside-range", "evaluate_derivative-outside-range", "fewer-than-two-points", "mismatched-lengths", "decreasing-knots"] {
        t.push(Threshold { what: format!("Err cases of kind {}", sig), required: ctx.tier.pick(190.0, 1_900.0), observed: rep.counter(&format!("err/{}", sig)) as f64 });
    }
    t.push(Threshold { what: "splines with >= 4 knots and spacing ratio >= 2".into(), required: ctx.tier.pick(3_000.0, 50_000.0), observed: rep.counter("nontrivial_splines") as f64 });
    t
}
