use crate::report::{CheckMeta, Ctx, Report, Stage, Threshold};

pub mod c01;
pub mod c02;
pub mod c03;
pub mod c04;
pub mod c05;
pub mod c06;
pub mod c07;
pub mod c08;
pub mod c09;
pub mod c10;
pub mod c11;
pub mod c12;
pub mod c13;
pub mod c14;
pub mod c15;
pub mod c16;
pub mod c17;
pub mod c18;
pub mod c19;
pub mod c20;

pub struct CheckDef {
    pub id: &'static str,
    pub meta: fn() -> CheckMeta,
    pub stages: fn(&Ctx) -> Vec<Stage>,
    pub thresholds: fn(&Ctx, &Report) -> Vec<Threshold>,
}

macro_rules! def {
    ($id:expr, $m:ident) => {
        CheckDef { id: $id, meta: $m::meta, stages: $m::stages, thresholds: $m::thresholds }
    };
}

pub fn all() -> Vec<CheckDef> {
    vec![
        def!("C01", c01),
        def!("C02", c02),
        def!("C03", c03),
        def!("C04", c04),
        def!("C05", c05),
        def!("C06", c06),
        def!("C07", c07),
        def!("C08", c08),
        def!("C09", c09),
        def!("C10", c10),
        def!("C11", c11),
        def!("C12", c12),
        def!("C13", c13),
        def!("C14", c14),
        def!("C15", c15),
        def!("C16", c16),
        def!("C17", c17),
        def!("C18", c18),
        def!("C19", c19),
        def!("C20", c20),
    ]
}
