use crate::report::{CheckMeta, Ctx, Report, Stage, Threshold};

pub mod c01;

pub struct CheckDef {
    pub id: &'static str,
    pub meta: fn() -> CheckMeta,
    pub stages: fn(&Ctx) -> Vec<Stage>,
    pub thresholds: fn(&Ctx, &Report) -> Vec<Threshold>,
}

macro_rules! def {
    ($id:expr, $m:ident) => {
        CheckDef { id: $id, meta: $m::meta, stages: $m::stages, thresholds: $m::thresholds }
    };
}

pub fn all() -> Vec<CheckDef> {
    vec![def!("C01", c01)]
}
