//! C10 — every tabulated quadrature rule has its full degree of exactness; the tanh-sinh table
//! matches the double-exponential formula.
//!
//! The tables are private constants of the library. The harness compiles the *working tree's*
//! `tables.rs` into itself (`#[path]`, rebuilt by cargo whenever the file changes) and audits every
//! row and every entry (exhaustive), expanding the rows exactly as the property says the
//! integrators consume them (`x == 0` once, otherwise +-x). What the compiled library really
//! consumes is tied to the audited file through the public integrators:
//!   * walk: a never-converging integrand (tol = 0) makes each integrator walk its whole table; the
//!     call log must be exactly the audited nodes, row by row, in table order, centre node once;
//!   * consumption: a scripted integrand makes each integrator return rule k (k >= 2) / tanh-sinh
//!     level L (L >= 2); the returned value must be sum w_i v_i with the audited weights.
//!
//! Oracles of the audit (mathematics, not the code under test): three-term recurrences of the
//! orthonormal Legendre / Hermite / Laguerre / Chebyshev polynomials, Christoffel numbers,
//! closed-form moments, closed-form Chebyshev nodes and weights, the tanh-sinh formulas.

use crate::json::J;
use crate::probe::{self, Guarded};
use crate::report::*;
use crate::rng::{CaseHash, Rng};
use bacon_sci::integrate::{integrate, integrate_chebyshev, integrate_chebyshev_second, integrate_gaussian, integrate_hermite, integrate_laguerre};
use num_complex::Complex;
use std::cell::RefCell;
use std::f64::consts::{FRAC_PI_2, PI};

#[path = "/repo/src/integrate/tables.rs"]
#[allow(dead_code, clippy::all)]
mod tables;

const EPS: f64 = f64::EPSILON;

// =========================================================================== frozen constants
// Every audit quantity is deterministic (no random input): the "observed" value IS the maximum over
// the repaired tree's tables (re-measured and written to the evidence by every run). The Hermite and
// Laguerre rows were evidently generated with ~1e-12 relative node accuracy and ~1e-10 relative weight
// accuracy (the Christoffel number at the Newton-corrected node still differs by 1.4e-10), which is
// what limits the resolution there.
//
//                                         Legendre  Hermite  Laguerre  Cheb-1   Cheb-2
// node residual |p_n(x)|/(n |p_<n|)
//                               observed:  5.7e-15  2.6e-13   1.8e-13  4.5e-16  2.8e-16
const TOL_NODE: [f64; 5] = [1e-13, 5e-12, 5e-12, 1e-14, 1e-14];
// node displacement |p_n/p_n'| / max(|x|, 1e-3)
//                               observed:  6.5e-15  1.1e-12   6.9e-13  1.9e-14  2.0e-14
const TOL_DISPLACEMENT: [f64; 5] = [2e-13, 2e-11, 2e-11, 4e-13, 4e-13];
// Christoffel weight, relative  observed:  1.1e-13  9.6e-11   7.7e-11  1.9e-13  1.5e-13
const TOL_WEIGHT: [f64; 5] = [2e-12, 1e-9, 1e-9, 4e-12, 4e-12];
// discrete orthonormality       observed:  8.5e-14  2.8e-11   3.3e-11  1.8e-14  1.5e-14
const TOL_ORTHO: [f64; 5] = [2e-12, 5e-10, 5e-10, 5e-13, 5e-13];
// monomial moments / sum w|x|^k observed:  8.7e-14  1.3e-11   1.1e-11  3.2e-15  2.4e-15
const TOL_MOMENT: [f64; 5] = [2e-12, 2e-10, 2e-10, 1e-13, 1e-13];
/// highest monomial degree compared with the closed-form moments
const MOMENT_KMAX: usize = 40;
/// Chebyshev closed forms: |x - cos(theta_i)| absolute (observed 3.6e-16) and weight relative
/// (first kind: pi/n, observed 0; second kind: pi/(n+1) sin^2, observed 1.1e-14 at the tiny end weights)
const TOL_CHEB_NODE: f64 = 4e-15;
const TOL_CHEB_WEIGHT: [f64; 2] = [8.0 * EPS, 2e-13];
/// tanh-sinh: |x - tanh(pi/2 sinh t)| absolute (observed 1.1e-16 = half an ulp of the abscissae) and
/// weight relative (observed 3.9e-15: cosh^2(pi/2 sinh t) amplifies the rounding of its argument by up to 31)
const TOL_DE_NODE: f64 = 4.0 * EPS;
const TOL_DE_WEIGHT: f64 = 1e-13;
/// consumption: |returned - sum w_i v_i| <= K_CONSUME * eps * sum |w_i v_i| (summation of n <= 200
/// terms in either order; observed 0.98)
const K_CONSUME: f64 = 64.0;

pub fn meta() -> CheckMeta {
    CheckMeta {
        id: "C10",
        level: "exploration",
        rule: "exhaustive: every row of WEIGHTS_LEGENDRE / _HERMITE / _LAGUERRE / _CHEBYSHEV / _CHEBYSHEV_SECOND (compiled from the working tree's tables.rs) is a case: expanded as the integrators consume it (x == 0 once, else +-x) it must have exactly n distinct points inside the domain with positive weights; every stored entry must be a zero of the degree-n orthonormal polynomial with the Christoffel number as weight (Chebyshev: also the closed forms); discrete orthonormality for all j+k <= 2n-1 and monomial moments up to degree min(2n-1,40) against closed forms. Every tanh-sinh level is a case: every (weight, abscissa) against x = tanh(pi/2 sinh t), w = 2^-l pi/2 cosh t / cosh^2(pi/2 sinh t), t = j+1 (level 0), (2j+1)/2^l (above), and the level must cover all its t <= 3. End-to-end: 12 walks (6 integrators x real/complex, tol = 0, call log == audited nodes in order) and one scripted consumption run per rule k >= 2 / level L >= 2 (returned value == sum w_i v_i with the audited weights). distinct = distinct (table, row) / (integrator, field) / (integrator, rule)".into(),
        assumptions: vec![
            "resolution of the per-entry audit (limited by the accuracy the shipped rows were generated with): relative node perturbations below 2e-13 (Legendre) / 2e-11 (Hermite, Laguerre) and relative weight perturbations below 2e-12 (Legendre) / 1e-9 (Hermite, Laguerre) are not flagged; Chebyshev entries are compared with their closed forms to 4e-15 / 2e-13; tanh-sinh to 4 eps / 1e-13".into(),
            "the 1-point rules' weights are not observable as a return value of an integrator (a rule is only returned when it agrees with its predecessor); they are audited in the table and their nodes are seen in the walk".into(),
        ],
        exhaustive: true,
        stuck_is_violation: false,
    }
}

// =========================================================================== families

#[derive(Clone, Copy, PartialEq, Debug)]
enum Fam {
    Legendre,
    Hermite,
    Laguerre,
    Cheb1,
    Cheb2,
}

const FAMS: [Fam; 5] = [Fam::Legendre, Fam::Hermite, Fam::Laguerre, Fam::Cheb1, Fam::Cheb2];

impl Fam {
    fn idx(self) -> usize {
        self as usize
    }
    fn name(self) -> &'static str {
        match self {
            Fam::Legendre => "legendre",
            Fam::Hermite => "hermite",
            Fam::Laguerre => "laguerre",
            Fam::Cheb1 => "chebyshev",
            Fam::Cheb2 => "chebyshev_second",
        }
    }
    fn table_name(self) -> &'static str {
        match self {
            Fam::Legendre => "WEIGHTS_LEGENDRE",
            Fam::Hermite => "WEIGHTS_HERMITE",
            Fam::Laguerre => "WEIGHTS_LAGUERRE",
            Fam::Cheb1 => "WEIGHTS_CHEBYSHEV",
            Fam::Cheb2 => "WEIGHTS_CHEBYSHEV_SECOND",
        }
    }
    fn table(self) -> &'static [&'static [(f64, f64)]] {
        match self {
            Fam::Legendre => tables::WEIGHTS_LEGENDRE,
            Fam::Hermite => tables::WEIGHTS_HERMITE,
            Fam::Laguerre => tables::WEIGHTS_LAGUERRE,
            Fam::Cheb1 => tables::WEIGHTS_CHEBYSHEV,
            Fam::Cheb2 => tables::WEIGHTS_CHEBYSHEV_SECOND,
        }
    }
    /// rows the pinned tree ships; fewer audited rows => INCONCLUSIVE
    fn rows_expected(self) -> usize {
        match self {
            Fam::Legendre => 12,
            Fam::Hermite => 27,
            Fam::Laguerre => 12,
            Fam::Cheb1 => 100,
            Fam::Cheb2 => 100,
        }
    }
    /// rules stored as the non-negative half
    fn symmetric(self) -> bool {
        self != Fam::Laguerre
    }
    /// integral of the weight function
    fn mu0(self) -> f64 {
        match self {
            Fam::Legendre => 2.0,
            Fam::Hermite => PI.sqrt(),
            Fam::Laguerre => 1.0,
            Fam::Cheb1 => PI,
            Fam::Cheb2 => FRAC_PI_2,
        }
    }
    /// monic recurrence pi_{k+1} = (x - a_k) pi_k - b_k pi_{k-1}
    fn a(self, k: usize) -> f64 {
        match self {
            Fam::Laguerre => 2.0 * k as f64 + 1.0,
            _ => 0.0,
        }
    }
    fn b(self, k: usize) -> f64 {
        let kf = k as f64;
        match self {
            Fam::Legendre => kf * kf / (4.0 * kf * kf - 1.0),
            Fam::Hermite => kf / 2.0,
            Fam::Laguerre => kf * kf,
            Fam::Cheb1 => {
                if k == 1 {
                    0.5
                } else {
                    0.25
                }
            }
            Fam::Cheb2 => 0.25,
        }
    }
    /// closed-form moment: integral of x^k against the weight function
    fn moment(self, k: usize) -> f64 {
        if self == Fam::Laguerre {
            let mut f = 1.0;
            for j in 1..=k {
                f *= j as f64;
            }
            return f;
        }
        if k % 2 == 1 {
            return 0.0;
        }
        let m = k / 2;
        match self {
            Fam::Legendre => 2.0 / (k as f64 + 1.0),
            Fam::Hermite => {
                // Gamma(m + 1/2) = sqrt(pi) prod (2j-1)/2
                let mut g = PI.sqrt();
                for j in 1..=m {
                    g *= (2 * j - 1) as f64 / 2.0;
                }
                g
            }
            Fam::Cheb1 => {
                let mut g = PI;
                for j in 1..=m {
                    g *= (2 * j - 1) as f64 / (2 * j) as f64;
                }
                g
            }
            Fam::Cheb2 => {
                let mut g = FRAC_PI_2;
                for j in 1..=m {
                    g *= (2 * j - 1) as f64 / (2 * j + 2) as f64;
                }
                g
            }
            Fam::Laguerre => unreachable!(),
        }
    }
    fn in_domain(self, x: f64) -> bool {
        match self {
            Fam::Legendre | Fam::Cheb1 | Fam::Cheb2 => x > -1.0 && x < 1.0,
            Fam::Hermite => x.is_finite(),
            Fam::Laguerre => x > 0.0 && x.is_finite(),
        }
    }
    fn domain_text(self) -> &'static str {
        match self {
            Fam::Legendre | Fam::Cheb1 | Fam::Cheb2 => "(-1, 1)",
            Fam::Hermite => "(-inf, inf)",
            Fam::Laguerre => "(0, inf)",
        }
    }
    /// orthonormal p_0 .. p_n at x
    fn ortho(self, n: usize, x: f64) -> Vec<f64> {
        let mut p = Vec::with_capacity(n + 1);
        p.push(1.0 / self.mu0().sqrt());
        let mut prev = 0.0;
        for k in 0..n {
            let pk = p[k];
            let sub = if k == 0 { 0.0 } else { self.b(k).sqrt() * prev };
            p.push(((x - self.a(k)) * pk - sub) / self.b(k + 1).sqrt());
            prev = pk;
        }
        p
    }
}

/// the rule as the integrators consume a stored row: centre node once, other nodes as +x then -x
fn expand(fam: Fam, row: &[(f64, f64)]) -> Vec<(f64, f64)> {
    let mut v = Vec::with_capacity(2 * row.len());
    for &(x, w) in row {
        if !fam.symmetric() || x == 0.0 {
            v.push((x, w));
        } else {
            v.push((x, w));
            v.push((-x, w));
        }
    }
    v
}

fn row_json(row: &[(f64, f64)]) -> J {
    J::Arr(row.iter().map(|(x, w)| J::fs(&[*x, *w])).collect())
}

// =========================================================================== Gaussian audit

fn audit_row(rep: &mut Report, fam: Fam, r: usize) {
    let table = fam.table();
    let row = table[r];
    let n = r + 1;
    let name = fam.name();
    rep.eval();
    rep.nontrivial(CaseHash::new("c10-row").s(name).u(n as u64).0);
    rep.count(&format!("{}/rows", name), 1);
    rep.count(&format!("{}/stored_entries", name), row.len() as i64);
    let pts = expand(fam, row);
    rep.count(&format!("{}/expanded_points", name), pts.len() as i64);
    let base = || J::obj().set("table", fam.table_name()).set("row_index", r).set("n", n).set("stored_row_node_weight", row_json(row));

    // (a) structure
    let mut structure_ok = true;
    if pts.len() != n {
        structure_ok = false;
        let centre: Vec<f64> = row.iter().filter(|(x, _)| x.abs() < 1e-9).map(|(x, _)| *x).collect();
        rep.violation(
            &format!("{}/point-count", name),
            base().set("expanded_points", pts.len()).set("stored_nodes_within_1e-9_of_zero", J::fs(&centre)),
            format!("{} row {} must be the {}-point rule but expands (x == 0 once, else +-x) to {} points; stored nodes near zero: {:?}", fam.table_name(), r, n, pts.len(), centre),
        );
    }
    for (i, (x, w)) in row.iter().enumerate() {
        if !fam.in_domain(*x) || !x.is_finite() {
            structure_ok = false;
            rep.violation(&format!("{}/node-outside-domain", name), base().set("entry", i).set("node", *x), format!("{} row {} entry {}: node {:e} is not inside {}", fam.table_name(), r, i, x, fam.domain_text()));
        }
        if !(*w > 0.0) || !w.is_finite() {
            structure_ok = false;
            rep.violation(&format!("{}/weight-not-positive", name), base().set("entry", i).set("weight", *w), format!("{} row {} entry {}: weight {:e} is not positive", fam.table_name(), r, i, w));
        }
        if *x == 0.0 && fam.symmetric() {
            rep.count(&format!("{}/centre_nodes", name), 1);
        }
    }
    let mut sorted: Vec<f64> = pts.iter().map(|p| p.0).collect();
    sorted.sort_by(|a, b| a.partial_cmp(b).unwrap_or(std::cmp::Ordering::Equal));
    if let Some(wd) = sorted.windows(2).find(|wd| wd[0] == wd[1]) {
        structure_ok = false;
        rep.violation(&format!("{}/duplicate-node", name), base().set("node", wd[0]), format!("{} row {}: node {:e} occurs twice in the expanded rule", fam.table_name(), r, wd[0]));
    }

    // (b) per stored entry: zero of p_n, Christoffel number, Chebyshev closed forms
    let mut worst_node = 0.0f64;
    let mut worst_w = 0.0f64;
    for (i, (x, w)) in row.iter().enumerate() {
        if !x.is_finite() || !w.is_finite() {
            continue;
        }
        rep.count(&format!("{}/entries_audited", name), 1);
        let p = fam.ortho(n, *x);
        let k: f64 = p[..n].iter().map(|v| v * v).sum();
        let resid = p[n].abs() / (n as f64 * k.sqrt());
        let w_ref = 1.0 / k;
        let wrel = (w - w_ref).abs() / w_ref;
        worst_node = worst_node.max(resid);
        worst_w = worst_w.max(wrel);
        rep.max(&format!("{}/node_residual", name), resid);
        rep.max(&format!("{}/weight_rel_error", name), wrel);
        // first-order distance to the nearest zero: p_n(x)/p_n'(x), with p_n' from the confluent
        // Christoffel-Darboux formula sum_{k<n} p_k^2 = sqrt(b_n) p_n' p_{n-1} (valid at a zero)
        let dp = k / (fam.b(n).sqrt() * p[n - 1]);
        // relative to the node (floored at 1e-3: the smallest non-centre node of any shipped rule is 0.0157;
        // a centre node stored as 1e-15 is a point-count matter, not a displacement)
        let disp_rel = (p[n] / dp).abs() / x.abs().max(1e-3);
        rep.max(&format!("{}/node_displacement_rel", name), disp_rel);
        let ecase = || base().set("entry", i).set("stored_node", *x).set("stored_weight", *w).set("p_n_at_node", p[n]).set("norm_p_below_n", k.sqrt()).set("christoffel_number", w_ref);
        if !(resid <= TOL_NODE[fam.idx()]) || !(disp_rel <= TOL_DISPLACEMENT[fam.idx()]) {
            rep.violation(
                &format!("{}/node-not-a-zero", name),
                ecase().set("estimated_displacement", p[n] / dp),
                format!("{} row {} entry {}: node {:.17e} is not a zero of the degree-{} orthogonal polynomial: |p_n|/(n |p_<n|) = {:.2e} (allowed {:.0e}); estimated distance to the zero {:.2e} = {:.2e} relative (allowed {:.0e})", fam.table_name(), r, i, x, n, resid, TOL_NODE[fam.idx()], p[n] / dp, disp_rel, TOL_DISPLACEMENT[fam.idx()]),
            );
        }
        if !(wrel <= TOL_WEIGHT[fam.idx()]) {
            rep.violation(
                &format!("{}/weight-not-christoffel", name),
                ecase(),
                format!("{} row {} entry {}: weight {:.17e} at node {:.17e} differs from the Christoffel number {:.17e} by {:.2e} relative (allowed {:.0e})", fam.table_name(), r, i, w, x, w_ref, wrel, TOL_WEIGHT[fam.idx()]),
            );
        }
        if fam == Fam::Cheb1 || fam == Fam::Cheb2 {
            // closed forms: T_n zeros cos((2i-1)pi/2n), weight pi/n; U_n zeros cos(i pi/(n+1)), weight pi/(n+1) sin^2
            let theta = x.clamp(-1.0, 1.0).acos();
            let (x_ref, w_cf, which) = if fam == Fam::Cheb1 {
                let ii = ((2.0 * n as f64 * theta / PI + 1.0) / 2.0).round().clamp(1.0, n as f64);
                // cos((2i-1)pi/2n) = sin((n+1-2i) pi/2n), accurate near the centre
                let xr = ((n as f64 + 1.0 - 2.0 * ii) * PI / (2.0 * n as f64)).sin();
                (xr, PI / n as f64, ii)
            } else {
                let ii = ((n as f64 + 1.0) * theta / PI).round().clamp(1.0, n as f64);
                let ang = (n as f64 + 1.0 - 2.0 * ii) * PI / (2.0 * (n as f64 + 1.0));
                let xr = ang.sin();
                (xr, PI / (n as f64 + 1.0) * ang.cos() * ang.cos(), ii)
            };
            let dx = (x - x_ref).abs();
            let dw = (w - w_cf).abs() / w_cf;
            rep.max(&format!("{}/closed_form_node_abs_error", name), dx);
            rep.max(&format!("{}/closed_form_weight_rel_error", name), dw);
            if !(dx <= TOL_CHEB_NODE) {
                rep.violation(&format!("{}/node-closed-form", name), ecase().set("closed_form_index", which).set("closed_form_node", x_ref), format!("{} row {} entry {}: node {:.17e} differs from the closed form {:.17e} (index {}) by {:.2e}", fam.table_name(), r, i, x, x_ref, which, dx));
            }
            if !(dw <= TOL_CHEB_WEIGHT[if fam == Fam::Cheb1 { 0 } else { 1 }]) {
                rep.violation(&format!("{}/weight-closed-form", name), ecase().set("closed_form_index", which).set("closed_form_weight", w_cf), format!("{} row {} entry {}: weight {:.17e} differs from the closed form {:.17e} by {:.2e} relative", fam.table_name(), r, i, w, w_cf, dw));
            }
        }
    }

    // (c) the rule as a whole: discrete orthonormality and closed-form moments
    let mut worst_ortho = 0.0f64;
    let mut worst_mom = 0.0f64;
    if structure_ok {
        let ps: Vec<Vec<f64>> = pts.iter().map(|(x, _)| fam.ortho(n, *x)).collect();
        let mut worst_jk = (0usize, 0usize, 0.0f64);
        for j in 0..n {
            for k in j..=n {
                if j + k > 2 * n - 1 {
                    continue;
                }
                let mut s = 0.0;
                for (q, (_, w)) in pts.iter().enumerate() {
                    s += w * ps[q][j] * ps[q][k];
                }
                let e = (s - if j == k { 1.0 } else { 0.0 }).abs();
                if e > worst_ortho || e.is_nan() {
                    worst_ortho = if e.is_nan() { f64::INFINITY } else { e };
                    worst_jk = (j, k, s);
                }
            }
        }
        rep.count(&format!("{}/orthonormality_pairs", name), ((n * (n + 1)) / 2 + n - 1) as i64);
        rep.max(&format!("{}/orthonormality_residual", name), worst_ortho);
        if !(worst_ortho <= TOL_ORTHO[fam.idx()]) {
            rep.violation(
                &format!("{}/orthonormality", name),
                base().set("j", worst_jk.0).set("k", worst_jk.1).set("discrete_inner_product", worst_jk.2),
                format!("{} row {} (n={}): sum w_i p_{}(x_i) p_{}(x_i) = {:.17e}, expected {} (degree {} <= 2n-1 = {}); residual {:.2e} (allowed {:.0e})", fam.table_name(), r, n, worst_jk.0, worst_jk.1, worst_jk.2, if worst_jk.0 == worst_jk.1 { 1 } else { 0 }, worst_jk.0 + worst_jk.1, 2 * n - 1, worst_ortho, TOL_ORTHO[fam.idx()]),
            );
        }
        let kmax = (2 * n - 1).min(MOMENT_KMAX);
        for k in 0..=kmax {
            let mut s = 0.0;
            let mut sa = 0.0;
            for (x, w) in &pts {
                let t = w * x.powi(k as i32);
                s += t;
                sa += t.abs();
            }
            let mu = fam.moment(k);
            let e = if s == mu { 0.0 } else { (s - mu).abs() / sa };
            rep.count(&format!("{}/moments_compared", name), 1);
            if e > worst_mom {
                worst_mom = e;
            }
            if !(e <= TOL_MOMENT[fam.idx()]) {
                rep.violation(
                    &format!("{}/moment", name),
                    base().set("degree", k).set("rule_value", s).set("exact_moment", mu).set("sum_abs_terms", sa),
                    format!("{} row {} (n={}): rule applied to x^{} gives {:.17e}, the exact moment is {:.17e} (degree <= 2n-1 = {}); error {:.2e} relative to sum w|x|^k (allowed {:.0e})", fam.table_name(), r, n, k, s, mu, 2 * n - 1, e, TOL_MOMENT[fam.idx()]),
                );
            }
        }
        rep.max(&format!("{}/moment_rel_error", name), worst_mom);
        rep.count(&format!("{}/rows_fully_audited", name), 1);
    }
    if rep.wants_sample() && (n == 5 || n == 12) {
        rep.sample(base().set("expanded_points", pts.len()).set("worst_node_residual", worst_node).set("worst_weight_rel_error", worst_w).set("orthonormality_residual", worst_ortho).set("worst_moment_rel_error", worst_mom));
    }
}

// =========================================================================== tanh-sinh audit

/// (t, x, w) of the double-exponential rule at level l, index j
fn de_formula(l: usize, j: usize) -> (f64, f64, f64) {
    let hstep = 1.0 / (1u64 << l) as f64;
    let t = if l == 0 { (j + 1) as f64 } else { (2 * j + 1) as f64 * hstep };
    let u = FRAC_PI_2 * t.sinh();
    let x = u.tanh();
    let c = u.cosh();
    let w = hstep * FRAC_PI_2 * t.cosh() / (c * c);
    (t, x, w)
}

fn de_level_len(l: usize) -> usize {
    if l == 0 {
        3
    } else {
        3 << (l - 1)
    }
}

fn audit_de_level(rep: &mut Report, l: usize) {
    let row = tables::WEIGHTS_DE[l];
    rep.eval();
    rep.nontrivial(CaseHash::new("c10-de").u(l as u64).0);
    rep.count("tanh_sinh/levels", 1);
    rep.count("tanh_sinh/stored_entries", row.len() as i64);
    let base = || J::obj().set("table", "WEIGHTS_DE").set("level", l).set("stored_level_weight_abscissa", row_json(row));
    if row.len() != de_level_len(l) {
        rep.violation(
            "tanh_sinh/level-length",
            base().set("entries", row.len()).set("expected", de_level_len(l)),
            format!("WEIGHTS_DE level {} has {} entries; the trapezoid grid of step 2^-{} on 0 < t <= 3 has {} new points", l, row.len(), l, de_level_len(l)),
        );
    }
    let mut worst = (0.0f64, 0.0f64);
    for (j, (w, x)) in row.iter().enumerate() {
        let (t, x_ref, w_ref) = de_formula(l, j);
        rep.count("tanh_sinh/entries_audited", 1);
        let dx = (x - x_ref).abs();
        let dw = (w - w_ref).abs() / w_ref;
        rep.max("tanh_sinh/node_abs_error", dx);
        rep.max("tanh_sinh/weight_rel_error", dw);
        worst = (worst.0.max(dx), worst.1.max(dw));
        let ecase = || base().set("index", j).set("t", t).set("stored_abscissa", *x).set("stored_weight", *w).set("formula_abscissa", x_ref).set("formula_weight", w_ref);
        if !(*x > 0.0 && *x < 1.0) {
            rep.violation("tanh_sinh/abscissa-outside-domain", ecase(), format!("WEIGHTS_DE level {} index {}: abscissa {:.17e} is not inside (0, 1)", l, j, x));
        }
        if !(*w > 0.0) {
            rep.violation("tanh_sinh/weight-not-positive", ecase(), format!("WEIGHTS_DE level {} index {}: weight {:e} is not positive", l, j, w));
        }
        if !(dx <= TOL_DE_NODE) {
            rep.violation("tanh_sinh/abscissa", ecase(), format!("WEIGHTS_DE level {} index {} (t = {}): abscissa {:.17e} differs from tanh(pi/2 sinh t) = {:.17e} by {:.2e}", l, j, t, x, x_ref, dx));
        }
        if !(dw <= TOL_DE_WEIGHT) {
            rep.violation("tanh_sinh/weight", ecase(), format!("WEIGHTS_DE level {} index {} (t = {}): weight {:.17e} differs from 2^-{} pi/2 cosh t / cosh^2(pi/2 sinh t) = {:.17e} by {:.2e} relative (allowed {:.0e})", l, j, t, w, l, w_ref, dw, TOL_DE_WEIGHT));
        }
    }
    if rep.wants_sample() && l <= 1 {
        rep.sample(base().set("worst_abscissa_abs_error", worst.0).set("worst_weight_rel_error", worst.1));
    }
}

// =========================================================================== driving the integrators

#[derive(Clone, Copy, PartialEq, Debug)]
enum Integ {
    Gauss(Fam),
    TanhSinh,
}

const INTEGS: [Integ; 6] = [Integ::Gauss(Fam::Legendre), Integ::Gauss(Fam::Hermite), Integ::Gauss(Fam::Laguerre), Integ::Gauss(Fam::Cheb1), Integ::Gauss(Fam::Cheb2), Integ::TanhSinh];

impl Integ {
    fn name(self) -> &'static str {
        match self {
            Integ::Gauss(Fam::Legendre) => "integrate_gaussian",
            Integ::Gauss(Fam::Hermite) => "integrate_hermite",
            Integ::Gauss(Fam::Laguerre) => "integrate_laguerre",
            Integ::Gauss(Fam::Cheb1) => "integrate_chebyshev",
            Integ::Gauss(Fam::Cheb2) => "integrate_chebyshev_second",
            Integ::TanhSinh => "integrate",
        }
    }
    /// the tolerance the rule comparison inside the routine works with, for `tol` given by the caller
    /// (integrate_gaussian documents/implements a quarter of the tolerance per unit half-length)
    fn inner_tol(self, tol: f64) -> f64 {
        match self {
            Integ::Gauss(Fam::Legendre) => 0.25 * tol,
            _ => tol,
        }
    }
    fn call_real(self, f: &mut dyn FnMut(f64) -> f64, tol: f64) -> Result<f64, String> {
        match self {
            Integ::Gauss(Fam::Legendre) => integrate_gaussian(-1.0, 1.0, |x: f64| f(x), tol),
            Integ::Gauss(Fam::Hermite) => integrate_hermite(|x: f64| f(x), tol),
            Integ::Gauss(Fam::Laguerre) => integrate_laguerre(|x: f64| f(x), tol),
            Integ::Gauss(Fam::Cheb1) => integrate_chebyshev(|x: f64| f(x), tol),
            Integ::Gauss(Fam::Cheb2) => integrate_chebyshev_second(|x: f64| f(x), tol),
            Integ::TanhSinh => integrate(-1.0, 1.0, |x: f64| f(x), tol),
        }
    }
    fn call_complex(self, f: &mut dyn FnMut(f64) -> Complex<f64>, tol: f64) -> Result<Complex<f64>, String> {
        match self {
            Integ::Gauss(Fam::Legendre) => integrate_gaussian(-1.0, 1.0, |x: f64| f(x), tol),
            Integ::Gauss(Fam::Hermite) => integrate_hermite(|x: f64| f(x), tol),
            Integ::Gauss(Fam::Laguerre) => integrate_laguerre(|x: f64| f(x), tol),
            Integ::Gauss(Fam::Cheb1) => integrate_chebyshev(|x: f64| f(x), tol),
            Integ::Gauss(Fam::Cheb2) => integrate_chebyshev_second(|x: f64| f(x), tol),
            Integ::TanhSinh => integrate(-1.0, 1.0, |x: f64| f(x), tol),
        }
    }
    /// the abscissae the routine must evaluate if it consumes the audited table completely, one segment
    /// per rule (tanh-sinh: the centre, then one segment per level), in table order
    fn expected_segments(self) -> Vec<Vec<f64>> {
        let mut v = vec![];
        match self {
            Integ::Gauss(fam) => {
                for row in fam.table() {
                    v.push(expand(fam, row).iter().map(|p| p.0).collect());
                }
            }
            Integ::TanhSinh => {
                v.push(vec![0.0]);
                for row in tables::WEIGHTS_DE.iter() {
                    let mut seg = vec![];
                    for (_, x) in row.iter() {
                        seg.push(*x);
                        seg.push(-*x);
                    }
                    v.push(seg);
                }
            }
        }
        v
    }
    fn segment_name(self, s: usize) -> String {
        match self {
            Integ::Gauss(_) => format!("row {} (n = {})", s, s + 1),
            Integ::TanhSinh => {
                if s == 0 {
                    "centre".to_string()
                } else {
                    format!("level {}", s - 1)
                }
            }
        }
    }
}

fn sorted_nodes(v: &[f64]) -> Vec<f64> {
    let mut w: Vec<f64> = v.iter().map(|x| x + 0.0).collect();
    w.sort_by(|a, b| a.total_cmp(b));
    w
}

/// value in [-1, 1) from the bit pattern of the abscissa: deterministic, never converging
fn hash_value(x: f64, salt: u64) -> f64 {
    let mut z = x.to_bits() ^ salt.wrapping_mul(0x9E3779B97F4A7C15);
    z = (z ^ (z >> 30)).wrapping_mul(0xBF58476D1CE4E5B9);
    z = (z ^ (z >> 27)).wrapping_mul(0x94D049BB133111EB);
    z ^= z >> 31;
    (z >> 11) as f64 / (1u64 << 52) as f64 - 1.0
}

fn walk_case(rep: &mut Report, integ: Integ, complex: bool) {
    let name = integ.name();
    let field = if complex { "complex" } else { "real" };
    let segments = integ.expected_segments();
    let expected: Vec<f64> = segments.concat();
    let log: RefCell<Vec<f64>> = RefCell::new(Vec::with_capacity(expected.len() + 8));
    probe::begin(4 * expected.len() as u64 + 1000);
    let outcome = probe::guard(|| {
        if complex {
            integ
                .call_complex(
                    &mut |x: f64| {
                        probe::tick_or_panic();
                        log.borrow_mut().push(x);
                        Complex::new(hash_value(x, 1), hash_value(x, 2))
                    },
                    0.0,
                )
                .map(|_| ())
        } else {
            integ
                .call_real(
                    &mut |x: f64| {
                        probe::tick_or_panic();
                        log.borrow_mut().push(x);
                        hash_value(x, 1)
                    },
                    0.0,
                )
                .map(|_| ())
        }
    });
    probe::begin(u64::MAX);
    rep.eval();
    rep.nontrivial(CaseHash::new("c10-walk").s(name).u(complex as u64).0);
    let log = log.into_inner();
    rep.count(&format!("walk/{}/{}/calls", name, field), log.len() as i64);
    rep.count("walk/runs", 1);
    let outcome_text = match &outcome {
        Guarded::Ok(Ok(())) => "Ok".to_string(),
        Guarded::Ok(Err(e)) => format!("Err({})", e),
        Guarded::Budget => "evaluation budget exhausted".to_string(),
        Guarded::Panic(m, l) => format!("panic '{}' at {}", m, l),
    };
    let case = || J::obj().set("routine", name).set("field", field).set("integrand", "value = hash of the abscissa's bit pattern in [-1,1): successive rules never agree").set("interval", if matches!(integ, Integ::Gauss(Fam::Legendre) | Integ::TanhSinh) { "[-1, 1]" } else { "weighted" }).set("tol", 0.0).set("outcome", outcome_text.as_str()).set("calls", log.len()).set("expected_calls", expected.len());
    if let Guarded::Panic(m, l) = &outcome {
        rep.violation(&format!("walk/{}/panic", name), case(), format!("{} panicked: '{}' at {}", name, m, l));
        return;
    }
    // rule by rule, in table order; inside a rule the order of evaluation is not part of the property
    if log.len() == expected.len() && log.iter().zip(expected.iter()).all(|(a, b)| a == b) {
        rep.count("walk/same_order_inside_rules", 1);
    }
    let mut bad: Option<(usize, usize)> = None; // (segment, offset of the segment in the log)
    let mut c = 0usize;
    for (si, seg) in segments.iter().enumerate() {
        let got = &log[c.min(log.len())..(c + seg.len()).min(log.len())];
        if sorted_nodes(got) != sorted_nodes(seg) {
            bad = Some((si, c));
            break;
        }
        c += seg.len();
    }
    let same = bad.is_none() && log.len() == expected.len();
    if same {
        rep.count("walk/identical", 1);
    } else {
        let (si, off) = bad.unwrap_or((segments.len(), expected.len()));
        let where_ = if si < segments.len() { integ.segment_name(si) } else { "after the last rule".to_string() };
        let got: Vec<f64> = log[off.min(log.len())..(off + segments.get(si).map(|s| s.len()).unwrap_or(8)).min(log.len())].to_vec();
        let audited: Vec<f64> = segments.get(si).cloned().unwrap_or_default();
        rep.violation(
            &format!("walk/{}", name),
            case().set("first_differing_rule", where_.as_str()).set("calls_before_it", off).set("evaluated_there", J::fs(&got)).set("audited_there", J::fs(&audited)),
            format!("{} ({}) with a never-converging integrand made {} calls ({}); the audited table expands to {} abscissae; first difference in {}: evaluated {:?}, audited rule (x == 0 once, else +-x) {:?}", name, field, log.len(), outcome_text, expected.len(), where_, got, audited),
        );
    }
    if rep.wants_sample() {
        rep.sample(case().set("identical_to_audited_sequence", same).set("first_abscissae", J::fs(&log[..log.len().min(8)])));
    }
}

// ---- consumption: make the integrator return rule k and compare with the audited weights

struct Script {
    /// value per audited abscissa, one vector per rule (tanh-sinh: centre, then levels), parallel to `expected_segments`
    values: Vec<Vec<f64>>,
    /// model value the routine has to return
    expect: f64,
    /// sum |w v| of the returned rule
    magnitude: f64,
    tol: f64,
    attempts: u32,
}

/// Gaussian rule sequence: return rule k (1-based, k >= 2)
fn script_gauss(integ: Integ, fam: Fam, k: usize, case_idx: u64) -> Option<Script> {
    let tol = 1e-3;
    let it = integ.inner_tol(tol);
    let rows: Vec<Vec<(f64, f64)>> = fam.table().iter().take(k).map(|r| expand(fam, r)).collect();
    if rows.len() < k || rows.iter().any(|r| r.is_empty()) {
        return None;
    }
    for attempt in 0..50u32 {
        let mut rng = Rng::for_case(0xC10, "c10-consume", case_idx * 64 + attempt as u64);
        let mut values: Vec<Vec<f64>> = rows.iter().map(|r| r.iter().map(|_| rng.r(-1.0, 1.0)).collect()).collect();
        let area = |r: usize, values: &Vec<Vec<f64>>| -> f64 { rows[r].iter().zip(&values[r]).map(|((_, w), v)| w * v).sum() };
        let steer = |r: usize, target: f64, values: &mut Vec<Vec<f64>>| {
            // adjust the value at the largest weight of the row
            let (q, _) = rows[r].iter().enumerate().fold((0usize, 0.0f64), |acc, (q, (_, w))| if *w > acc.1 { (q, *w) } else { acc });
            let cur = area(r, values);
            values[r][q] += (target - cur) / rows[r][q].1;
        };
        // rows 1..k-2 random; rows k-1 and k agree with row k-2 (or with 0 for k = 2) within the tolerance
        let basis = if k >= 3 { area(k - 3, &values) } else { 0.0 };
        steer(k - 2, basis + 0.3 * it, &mut values);
        steer(k - 1, basis + 0.5 * it, &mut values);
        // the model must not stop early: all earlier differences clearly above the tolerance
        let mut prev = 0.0;
        let mut ok = true;
        for r in 0..k.saturating_sub(2) {
            let a = area(r, &values);
            if !((a - prev).abs() >= 2.0 * it) {
                ok = false;
            }
            prev = a;
        }
        if !ok {
            continue;
        }
        let expect = area(k - 1, &values);
        let magnitude: f64 = rows[k - 1].iter().zip(&values[k - 1]).map(|((_, w), v)| (w * v).abs()).sum();
        return Some(Script { values, expect, magnitude, tol, attempts: attempt + 1 });
    }
    None
}

/// tanh-sinh: return the level-L trapezoid sum (L >= 2)
fn script_de(level: usize, case_idx: u64) -> Option<Script> {
    let tol = 1e-3;
    if tables::WEIGHTS_DE.len() <= level {
        return None;
    }
    for attempt in 0..50u32 {
        let mut rng = Rng::for_case(0xC10, "c10-consume-de", case_idx * 64 + attempt as u64);
        let v0 = rng.r(-1.0, 1.0);
        let mut values: Vec<Vec<f64>> = (0..=level).map(|l| (0..2 * tables::WEIGHTS_DE[l].len()).map(|_| rng.r(-1.0, 1.0)).collect()).collect();
        let contrib = |l: usize, values: &Vec<Vec<f64>>| -> f64 { tables::WEIGHTS_DE[l].iter().enumerate().map(|(j, (w, _))| w * (values[l][2 * j] + values[l][2 * j + 1])).sum() };
        // I_l = I_{l-1}/2 + C_l, I_{-1} = pi f(0): the trapezoid sum of step 2^-l
        let mut integral = PI * v0;
        let mut ok = true;
        let mut magnitude = (PI * v0).abs();
        for l in 0..=level {
            if l == level {
                // steer the first (largest) weight of the level: C_L = I_{L-1}/2 + 0.3 tol
                let c = contrib(l, &values);
                values[l][0] += (0.5 * integral + 0.3 * tol - c) / tables::WEIGHTS_DE[l][0].0;
            }
            let c = contrib(l, &values);
            let delta = (0.5 * integral - c).abs();
            if l >= 2 && l < level && !(delta >= 0.1) {
                ok = false;
            }
            integral = 0.5 * integral + c;
            magnitude = 0.5 * magnitude + tables::WEIGHTS_DE[l].iter().enumerate().map(|(j, (w, _))| (w * values[l][2 * j]).abs() + (w * values[l][2 * j + 1]).abs()).sum::<f64>();
        }
        if !ok {
            continue;
        }
        let mut all = vec![vec![v0]];
        all.extend(values);
        return Some(Script { values: all, expect: integral, magnitude, tol, attempts: attempt + 1 });
    }
    None
}

fn consume_case(rep: &mut Report, integ: Integ, k: usize, case_idx: u64) {
    let name = integ.name();
    let script = match integ {
        Integ::Gauss(fam) => script_gauss(integ, fam, k, case_idx),
        Integ::TanhSinh => script_de(k, case_idx),
    };
    let what = if integ == Integ::TanhSinh { format!("level {}", k) } else { format!("rule n = {}", k) };
    let script = match script {
        Some(s) => s,
        None => {
            rep.inconclusive("no-script-found");
            return;
        }
    };
    let segments = integ.expected_segments();
    let n_script: usize = script.values.iter().map(|v| v.len()).sum();
    let log: RefCell<Vec<f64>> = RefCell::new(vec![]);
    let strayed = std::cell::Cell::new(false);
    probe::begin(4 * n_script as u64 + 1000);
    let outcome = probe::guard(|| {
        integ.call_real(
            &mut |x: f64| {
                probe::tick_or_panic();
                let c = log.borrow().len();
                log.borrow_mut().push(x);
                // which rule this call belongs to follows from the number of calls so far; the value from the
                // abscissa inside that rule (any order of evaluation inside a rule is fine)
                let mut off = 0usize;
                for (si, vals) in script.values.iter().enumerate() {
                    if c < off + vals.len() {
                        return match segments[si].iter().position(|a| *a == x) {
                            Some(q) => vals[q],
                            None => {
                                strayed.set(true);
                                0.0
                            }
                        };
                    }
                    off += vals.len();
                }
                // calls beyond the script: the routine did not stop where the audited table says it must
                0.0
            },
            script.tol,
        )
    });
    probe::begin(u64::MAX);
    rep.eval();
    rep.count(&format!("consume/{}/cases", name), 1);
    rep.count("consume/cases", 1);
    rep.count("consume/script_attempts", script.attempts as i64);
    rep.nontrivial(CaseHash::new("c10-consume").s(name).u(k as u64).0);
    let log = log.into_inner();
    let case = |got: &str| {
        let script_json: Vec<J> = script.values.iter().enumerate().map(|(si, vals)| J::obj().set("rule", integ.segment_name(si)).set("abscissae", J::fs(&segments[si])).set("values", J::fs(vals))).collect();
        J::obj()
            .set("routine", name)
            .set("interval", if matches!(integ, Integ::Gauss(Fam::Legendre) | Integ::TanhSinh) { "[-1, 1]" } else { "weighted" })
            .set("tol", script.tol)
            .set("integrand", "stateful: the rule a call belongs to follows from the number of calls so far (rule sizes as audited); inside a rule the value is looked up by abscissa; 0 beyond the script")
            .set("script", J::Arr(script_json))
            .set("scripted_to_return", what.as_str())
            .set("audited_sum_w_v", script.expect)
            .set("sum_abs_w_v", script.magnitude)
            .set("returned", got)
            .set("calls", log.len())
            .set("scripted_calls", n_script)
    };
    // the abscissae must be the audited ones (otherwise the script's bookkeeping is void: the walk reports that)
    if strayed.get() {
        rep.inconclusive("consumption-run-left-the-audited-abscissae(walk reports)");
        return;
    }
    match outcome {
        Guarded::Panic(m, l) => rep.violation(&format!("consume/{}/panic", name), case("panic"), format!("{} panicked: '{}' at {}", name, m, l)),
        Guarded::Budget => rep.violation(&format!("consume/{}", name), case("budget exhausted"), format!("{}: scripted run did not stop", name)),
        Guarded::Ok(Err(e)) => rep.violation(
            &format!("consume/{}", name),
            case(&format!("Err({})", e)),
            format!("{}: with the audited weights {} agrees with its predecessor(s) within tol and must be returned, value {:.17e}; the routine made {} calls (script: {}) and returned Err({})", name, what, script.expect, log.len(), n_script, e),
        ),
        Guarded::Ok(Ok(v)) => {
            let err = (v - script.expect).abs();
            let unit = EPS * script.magnitude;
            rep.max(&format!("consume/{}/ratio", name), err / unit);
            if !(err <= K_CONSUME * unit) || log.len() != n_script {
                rep.violation(
                    &format!("consume/{}", name),
                    case(&format!("Ok({:e})", v)),
                    format!("{}: {} applied to the scripted values must give {:.17e} with the audited weights; the routine returned {:.17e} after {} calls (script: {}); difference {:.3e} = {:.1} x eps*sum|w v| (allowed {})", name, what, script.expect, v, log.len(), n_script, err, err / unit, K_CONSUME),
                );
            }
            if rep.wants_sample() && k == 4 {
                rep.sample(case(&format!("Ok({:e})", v)).set("difference", err));
            }
        }
    }
}

// =========================================================================== stages

pub fn stages(_ctx: &Ctx) -> Vec<Stage> {
    let mut st = vec![];
    // every row of the five Gaussian tables
    let offsets: Vec<(Fam, u64)> = FAMS.iter().map(|f| (*f, f.table().len() as u64)).collect();
    let total: u64 = offsets.iter().map(|o| o.1).sum();
    let off = offsets.clone();
    st.push(Stage::new("audit-gauss", total, move |i, rep| {
        let mut r = i;
        for (fam, n) in &off {
            if r < *n {
                audit_row(rep, *fam, r as usize);
                return;
            }
            r -= *n;
        }
    }));
    st.push(Stage::new("audit-tanh-sinh", tables::WEIGHTS_DE.len() as u64, move |i, rep| audit_de_level(rep, i as usize)));
    st.push(Stage::new("walk", 12, move |i, rep| walk_case(rep, INTEGS[(i % 6) as usize], i >= 6)));
    // consumption: rules k = 2..rows of every Gaussian table, tanh-sinh levels 2..
    let mut cases: Vec<(Integ, usize)> = vec![];
    for fam in FAMS {
        for k in 2..=fam.table().len() {
            cases.push((Integ::Gauss(fam), k));
        }
    }
    for l in 2..tables::WEIGHTS_DE.len() {
        cases.push((Integ::TanhSinh, l));
    }
    let n_cases = cases.len() as u64;
    st.push(Stage::new("consume", n_cases, move |i, rep| {
        let (integ, k) = cases[i as usize];
        consume_case(rep, integ, k, i);
    }));
    st
}

pub fn thresholds(_ctx: &Ctx, rep: &Report) -> Vec<Threshold> {
    let mut t = vec![];
    let mut consume_expected = 0.0;
    for fam in FAMS {
        t.push(Threshold { what: format!("{} rows audited", fam.table_name()), required: fam.rows_expected() as f64, observed: rep.counter(&format!("{}/rows", fam.name())) as f64 });
        t.push(Threshold { what: format!("{} rows audited completely (structure intact, orthonormality and moments evaluated)", fam.table_name()), required: fam.rows_expected() as f64, observed: rep.counter(&format!("{}/rows_fully_audited", fam.name())) as f64 });
        let stored: usize = (1..=fam.rows_expected()).map(|n| if fam.symmetric() { (n + 1) / 2 } else { n }).sum();
        t.push(Threshold { what: format!("{} stored entries audited", fam.table_name()), required: stored as f64, observed: rep.counter(&format!("{}/entries_audited", fam.name())) as f64 });
        consume_expected += (fam.rows_expected() - 1) as f64;
    }
    t.push(Threshold { what: "WEIGHTS_DE levels audited".into(), required: 7.0, observed: rep.counter("tanh_sinh/levels") as f64 });
    t.push(Threshold { what: "WEIGHTS_DE (weight, abscissa) pairs audited".into(), required: 192.0, observed: rep.counter("tanh_sinh/entries_audited") as f64 });
    t.push(Threshold { what: "integrator walks compared with the audited tables".into(), required: 12.0, observed: rep.counter("walk/runs") as f64 });
    t.push(Threshold { what: "scripted consumption runs (one per rule k >= 2 / level >= 2)".into(), required: consume_expected + 5.0, observed: rep.counter("consume/cases") as f64 });
    t
}
