//! C10 — stub (not built yet).
use crate::report::*;

pub fn meta() -> CheckMeta {
    CheckMeta { id: "C10", level: "exploration", rule: "stub".into(), assumptions: vec![], exhaustive: false, stuck_is_violation: false }
}
pub fn stages(_ctx: &Ctx) -> Vec<Stage> {
    vec![]
}
pub fn thresholds(_ctx: &Ctx, _rep: &Report) -> Vec<Threshold> {
    vec![Threshold { what: "check not built".into(), required: 1.0, observed: 0.0 }]
}
