//! C07 — bracketing root finders (bisection, Brent, ITP) evaluate only inside the bracket,
//! terminate within a bounded number of evaluations, and an `Ok` result lies in the bracket with a
//! sign change of the function (for Brent: or a residual below the tolerance) within the
//! tolerance of it; same-sign end points, negative tolerances and illegal ITP parameters give `Err`.
//!
//! The function handed to the library records every abscissa and enforces an evaluation budget.
//! The oracle evaluates the *pure* function itself; it shares no code with the solvers.

use crate::json::J;
use crate::probe::{self, Guarded};
use crate::report::*;
use crate::rng::{CaseHash, Rng};
use bacon_sci::roots::{bisection, brent, itp};
use std::cell::RefCell;

const EPS: f64 = f64::EPSILON;

// ---------------------------------------------------------------- frozen constants
/// hard cap of the probe (callback invocations); reaching it means the solver does not terminate
const PROBE_BUDGET: u64 = 4000;
/// abscissae may leave [min(a,b), max(a,b)] by this many eps*max(|a|,|b|) (rounding of a secant
/// point or of x_half - sigma r next to an end point). Observed maximum on the repaired tree:
/// 2.6 (ITP; bisection and Brent never leave the bracket at all).
const ABSCISSA_SLACK_EPS: f64 = 16.0;
/// bisection: evaluations <= ceil(log2(w/tol)) + BIS_EXTRA. Analysis: 2 end points +
/// max(1, ceil(log2(w/tol))) midpoints. Observed maximum of evals - ceil(log2(w/tol)): 2.
const BIS_EXTRA: f64 = 4.0;
/// bisection: evaluations <= n_max + BIS_CAP_EXTRA (2 end points + n_max midpoints). Observed: 2.
const BIS_CAP_EXTRA: f64 = 3.0;
/// bisection must return Ok when n_max >= ceil(log2(w/tol)) + BIS_OK_MARGIN
const BIS_OK_MARGIN: f64 = 3.0;
/// ITP: evaluations <= n_half + 2 n0 + ITP_EXTRA, n_half = ceil(log2(w/(2 tol))). Analysis: the
/// documented parametrisation (projection radius tol 2^(n_max + n0 - j) - w_j/2 with
/// n_max = n_half + n0) halves an upper bound of the bracket per iteration and so needs at most
/// n_half + 2 n0 iterations, plus the 2 end points. Observed maximum of evals - (n_half + 2 n0): 3.005.
const ITP_EXTRA: f64 = 6.0;
/// Brent: evaluations <= (ceil(log2(w/tol)) + 2)^2 + BRENT_EXTRA (Brent's classical bound).
/// Observed maximum of evals/bound: 0.22 (129 evaluations).
const BRENT_EXTRA: f64 = 10.0;
/// the sign change is looked for on [x - tau', x + tau'], tau' = tau (1 + TAU_REL) + 4 eps max(|a|,|b|,1)
const TAU_REL: f64 = 1e-9;

pub fn meta() -> CheckMeta {
    CheckMeta {
        id: "C07",
        level: "exploration",
        rule: "cases: (solver in {bisection, brent, itp}) x G-root1 functions with known root sets (linear, cubic, exp, sin incl. several roots, tanh, (x-r)(1+(x-r)^2), quintic, polynomials with roots inside and outside the bracket; both monotonicities; brackets in either order, asymmetric, straddling 0, near +-100, root at an end point) x tol 1e-12..1e-2 x ITP parameters; plus the complete exact-hit grid (11 dyadic end points squared, roots a+(b-a)j/2^m, m<=4, 4 slopes, 2 shapes, ITP grid k1 in {0.01,0.1,1} x k2 in {1.1,1.5,2,2.5} x n0 in {0,1,2}), the secant-point-equals-midpoint grid (odd functions on symmetric brackets with w/(2 tol) within 3 ulp of a power of two) and the invalid-input classes. A case is non-trivial when the solver needed >= 5 evaluations or when Err is the expected outcome; distinct = distinct hash of (solver, parameters, function, bracket, tolerance)".into(),
        assumptions: vec![
            "abscissae may leave the closed bracket by at most 16 eps max(|a|,|b|); the sign change is looked for on [x-tau', x+tau'] cut to the bracket, tau' = tau(1+1e-9) + 4 eps max(|a|,|b|,1), tau = tol max(1,|x|) for bisection, tol for Brent and ITP".into(),
            "evaluation budgets: bisection ceil(log2(w/tol))+4 and n_max+3; ITP ceil(log2(w/(2 tol)))+2 n0+6; Brent (ceil(log2(w/tol))+2)^2+10".into(),
            "zero tolerance and ITP k1 = 0 are not exercised (documentation ambiguous); brackets whose end point is a root, and reversed brackets for bisection (documented requirement right > left), may give Err, an Ok is judged like any other".into(),
        ],
        exhaustive: false,
        stuck_is_violation: true,
    }
}

// ---------------------------------------------------------------- functions with known root sets

#[derive(Clone, Copy, Debug, PartialEq)]
pub enum Kind {
    Lin,
    Cubic,
    Exp,
    Sin,
    Tanh,
    CubicPlus,
    Quintic,
    Poly,
    NoRoot,
    /// s*(x-r)^k, k = c odd in 9..31: values underflow near the root (flat-near-root family)
    OddPower,
    /// s*sign(x-r)*exp(-1/(c*(x-r))^2): all derivatives vanish at the root
    FlatExp,
}

#[derive(Clone, Debug)]
pub struct Func {
    pub kind: Kind,
    pub r: f64,
    pub s: f64,
    pub c: f64,
    /// all roots, for `Poly`
    pub roots: Vec<f64>,
}

impl Func {
    fn simple(kind: Kind, r: f64, s: f64, c: f64) -> Func {
        Func { kind, r, s, c, roots: vec![] }
    }
    pub fn eval(&self, x: f64) -> f64 {
        let d = x - self.r;
        match self.kind {
            Kind::Lin => self.s * d,
            Kind::Cubic => self.s * (d * d * d),
            Kind::Exp => self.s * ((self.c * d).exp() - 1.0),
            Kind::Sin => self.s * (self.c * d).sin(),
            Kind::Tanh => self.s * (self.c * d).tanh(),
            Kind::CubicPlus => self.s * d * (1.0 + d * d),
            Kind::Quintic => self.s * (d * d * d * d * d),
            Kind::Poly => {
                let mut p = self.s;
                for ri in &self.roots {
                    p *= x - ri;
                }
                p
            }
            Kind::NoRoot => self.s * (d * d + self.c),
            Kind::OddPower => self.s * d.powi(self.c as i32),
            Kind::FlatExp => {
                let u = self.c * d;
                if u == 0.0 {
                    0.0
                } else {
                    self.s * u.signum() * (-1.0 / (u * u)).exp()
                }
            }
        }
    }
    /// distance from x to the nearest root (evidence only; the verdict uses the sign change)
    pub fn root_distance(&self, x: f64) -> f64 {
        match self.kind {
            Kind::Sin => {
                let p = std::f64::consts::PI / self.c;
                let d = x - self.r;
                (d - (d / p).round() * p).abs()
            }
            Kind::Poly => self.roots.iter().map(|ri| (x - ri).abs()).fold(f64::INFINITY, f64::min),
            Kind::NoRoot => f64::INFINITY,
            _ => (x - self.r).abs(),
        }
    }
    /// does the known root set (all roots have odd multiplicity) meet [xl, xr]?
    pub fn has_root_in(&self, xl: f64, xr: f64) -> bool {
        match self.kind {
            Kind::Sin => {
                let p = std::f64::consts::PI / self.c;
                let k = ((xl - self.r) / p).ceil();
                self.r + k * p <= xr
            }
            Kind::Poly => self.roots.iter().any(|ri| *ri >= xl && *ri <= xr),
            Kind::NoRoot => false,
            _ => self.r >= xl && self.r <= xr,
        }
    }
    fn formula(&self) -> &'static str {
        match self.kind {
            Kind::Lin => "s*(x-r)",
            Kind::Cubic => "s*(x-r)^3",
            Kind::Exp => "s*(exp(c*(x-r))-1)",
            Kind::Sin => "s*sin(c*(x-r))",
            Kind::Tanh => "s*tanh(c*(x-r))",
            Kind::CubicPlus => "s*(x-r)*(1+(x-r)^2)",
            Kind::Quintic => "s*(x-r)^5",
            Kind::Poly => "s*prod(x-roots[i])",
            Kind::NoRoot => "s*((x-r)^2+c)",
            Kind::OddPower => "s*(x-r)^c (c odd, 9..31)",
            Kind::FlatExp => "s*sign(x-r)*exp(-1/(c*(x-r))^2)",
        }
    }
    fn to_json(&self) -> J {
        let mut j = J::obj().set("f", self.formula()).set("s", self.s);
        if self.kind == Kind::Poly {
            j.put("roots", J::fs(&self.roots));
        } else {
            j.put("r", self.r);
            j.put("c", self.c);
        }
        j
    }
    fn hash(&self, h: CaseHash) -> CaseHash {
        h.u(self.kind as u64).f(self.r).f(self.s).f(self.c).fs(&self.roots)
    }
}

#[derive(Clone, Copy, Debug)]
pub enum Solver {
    Bis { n_max: usize },
    Brent,
    Itp { k1: f64, k2: f64, n0: f64 },
}

impl Solver {
    fn name(&self) -> &'static str {
        match self {
            Solver::Bis { .. } => "bisection",
            Solver::Brent => "brent",
            Solver::Itp { .. } => "itp",
        }
    }
}

#[derive(Clone, Copy, Debug, PartialEq)]
pub enum Expect {
    /// f(a) f(b) < 0 and all parameters legal: the full oracle applies
    Valid,
    /// the property does not say whether Ok or Err (root at an end point, reversed bisection
    /// bracket): Err is accepted, everything else is judged
    Lenient,
    /// Err is required; the tag names the class
    Err(&'static str),
}

pub struct Exec<'a> {
    pub f: &'a Func,
    pub a: f64,
    pub b: f64,
    pub tol: f64,
    pub solver: Solver,
    pub expect: Expect,
}

pub struct Outcome {
    pub evals: usize,
    pub ok: bool,
}

fn ceil_log2(x: f64) -> f64 {
    if x > 1.0 {
        x.log2().ceil()
    } else {
        0.0
    }
}

fn case_json(e: &Exec, log: &[f64], result: &str) -> J {
    let mut j = J::obj().set("solver", e.solver.name()).set("function", e.f.to_json()).set("a", e.a).set("b", e.b).set("tol", e.tol);
    match e.solver {
        Solver::Bis { n_max } => j.put("n_max", n_max),
        Solver::Brent => {}
        Solver::Itp { k1, k2, n0 } => {
            j.put("k1", k1);
            j.put("k2", k2);
            j.put("n0", n0);
        }
    }
    j.put("call", match e.solver {
        Solver::Bis { .. } => "bisection((a,b), f, tol, n_max)",
        Solver::Brent => "brent((a,b), f, tol)",
        Solver::Itp { .. } => "itp((a,b), f, k1, k2, n0, tol)",
    });
    j.put("evaluations", log.len());
    j.put("first_abscissae", J::fs(&log[..log.len().min(12)]));
    if log.len() > 12 {
        j.put("last_abscissae", J::fs(&log[log.len() - 4..]));
    }
    j.put("result", result);
    j
}

/// Run one solver on one problem and judge it.
pub fn run_exec(rep: &mut Report, e: &Exec) -> Outcome {
    let name = e.solver.name();
    let log = RefCell::new(Vec::<f64>::with_capacity(64));
    probe::begin(PROBE_BUDGET);
    let f = e.f;
    let g = |x: f64| {
        log.borrow_mut().push(x);
        probe::tick_or_panic();
        f.eval(x)
    };
    let (a, b, tol) = (e.a, e.b, e.tol);
    let res = probe::guard(|| match e.solver {
        Solver::Bis { n_max } => bisection((a, b), g, tol, n_max),
        Solver::Brent => brent((a, b), g, tol),
        Solver::Itp { k1, k2, n0 } => itp((a, b), g, k1, k2, n0, tol),
    });
    rep.eval();
    let log = log.into_inner();
    let evals = log.len();
    rep.count(&format!("{}/runs", name), 1);
    let result_str = match &res {
        Guarded::Ok(Ok(x)) => format!("Ok({:e})", x),
        Guarded::Ok(Err(m)) => format!("Err({})", m),
        Guarded::Budget => format!("evaluation budget of {} exhausted", PROBE_BUDGET),
        Guarded::Panic(m, l) => format!("panic '{}' at {}", m, l),
    };
    let cj = || case_json(e, &log, &result_str);
    let mut out = Outcome { evals, ok: matches!(res, Guarded::Ok(Ok(_))) };

    // ---- outcomes no class tolerates
    match &res {
        Guarded::Panic(m, l) => {
            rep.violation(&format!("{}/panic", name), cj(), format!("{} panicked: '{}' at {}", name, m, l));
            return out;
        }
        Guarded::Budget => {
            rep.violation(&format!("{}/no-termination", name), cj(), format!("{} was still evaluating the function after {} evaluations", name, PROBE_BUDGET));
            return out;
        }
        _ => {}
    }

    // ---- invalid input: Err required
    if let Expect::Err(class) = e.expect {
        rep.count(&format!("{}/err_expected/{}", name, class), 1);
        if let Guarded::Ok(Ok(x)) = &res {
            rep.violation(&format!("{}/ok-on-{}", name, class), cj(), format!("{} returned Ok({:e}) for invalid input ({}); Err is required", name, x, class));
        }
        out.ok = false;
        return out;
    }

    let lo = a.min(b);
    let hi = a.max(b);
    let w = hi - lo;
    let mag = lo.abs().max(hi.abs());
    let slack = ABSCISSA_SLACK_EPS * EPS * mag;
    let strict = e.expect == Expect::Valid;
    rep.count(&format!("{}/{}", name, if strict { "valid_runs" } else { "lenient_runs" }), 1);

    // ---- (i) every abscissa in the closed bracket
    for (i, x) in log.iter().enumerate() {
        if x.is_nan() {
            rep.violation(&format!("{}/nan-abscissa", name), cj(), format!("evaluation {} is at NaN", i));
            return out;
        }
        let excess = (lo - *x).max(*x - hi);
        if excess > 0.0 {
            rep.max(&format!("{}/abscissa_excess_in_eps_mag", name), excess / (EPS * mag.max(f64::MIN_POSITIVE)));
        }
        if !(*x >= lo - slack && *x <= hi + slack) {
            rep.violation(&format!("{}/outside-bracket", name), cj(), format!("evaluation {} is at {:e}, outside [{:e}, {:e}]", i, x, lo, hi));
            return out;
        }
    }
    rep.max(&format!("{}/evals", name), evals as f64);

    // ---- (ii) evaluation budgets
    let l_tol = ceil_log2(w / tol);
    match e.solver {
        Solver::Bis { n_max } => {
            rep.max("bisection/evals_minus_ceil_log2(w/tol)", evals as f64 - l_tol);
            rep.max("bisection/evals_minus_n_max", evals as f64 - n_max as f64);
            let bound = (l_tol + BIS_EXTRA).min(n_max as f64 + BIS_CAP_EXTRA);
            if !(evals as f64 <= bound) {
                rep.violation("bisection/evaluation-budget", cj(), format!("{} evaluations, bound min(ceil(log2(w/tol))+{} = {}, n_max+{} = {})", evals, BIS_EXTRA, l_tol + BIS_EXTRA, BIS_CAP_EXTRA, n_max as f64 + BIS_CAP_EXTRA));
                return out;
            }
        }
        Solver::Brent => {
            let bound = (l_tol + 2.0) * (l_tol + 2.0) + BRENT_EXTRA;
            rep.max("brent/evals_over_bound", evals as f64 / bound);
            if !(evals as f64 <= bound) {
                rep.violation("brent/evaluation-budget", cj(), format!("{} evaluations, bound (ceil(log2(w/tol))+2)^2+{} = {}", evals, BRENT_EXTRA, bound));
                return out;
            }
        }
        Solver::Itp { n0, .. } => {
            let n_half = ceil_log2(w / (2.0 * tol));
            rep.max("itp/evals_minus_(n_half+2n0)", evals as f64 - n_half - 2.0 * n0);
            let bound = n_half + 2.0 * n0 + ITP_EXTRA;
            if !(evals as f64 <= bound) {
                rep.violation("itp/evaluation-budget", cj(), format!("{} evaluations, bound ceil(log2(w/(2 tol)))+2 n0+{} = {}", evals, ITP_EXTRA, bound));
                return out;
            }
        }
    }

    // ---- (iii)/(iv) the result
    match res {
        Guarded::Ok(Err(msg)) => {
            rep.count(&format!("{}/err_results", name), 1);
            if strict {
                let must_ok = match e.solver {
                    Solver::Bis { n_max } => n_max as f64 >= l_tol + BIS_OK_MARGIN,
                    _ => true,
                };
                if must_ok {
                    rep.violation(&format!("{}/err-on-valid-bracket", name), cj(), format!("valid bracket (f(a) f(b) < 0) and legal parameters, but the result is Err({})", msg));
                } else {
                    rep.count("bisection/err_with_small_n_max", 1);
                }
            }
        }
        Guarded::Ok(Ok(x)) => {
            if !x.is_finite() {
                rep.violation(&format!("{}/non-finite-result", name), cj(), format!("Ok({}) is not a number in the bracket", x));
                return out;
            }
            if !(x >= lo - slack && x <= hi + slack) {
                rep.violation(&format!("{}/result-outside-bracket", name), cj(), format!("Ok({:e}) lies outside [{:e}, {:e}]", x, lo, hi));
                return out;
            }
            let tau = match e.solver {
                Solver::Bis { .. } => tol * x.abs().max(1.0),
                _ => tol,
            };
            let taup = tau * (1.0 + TAU_REL) + 4.0 * EPS * mag.max(1.0);
            let xl = (x - taup).max(lo);
            let xr = (x + taup).min(hi);
            let fl = e.f.eval(xl);
            let fr = e.f.eval(xr);
            // a sign change inside the window: different signs at its ends, or (window wider than the
            // root spacing) a constructed root of odd multiplicity inside it
            let sign_change = fl == 0.0 || fr == 0.0 || ((fl < 0.0) != (fr < 0.0)) || e.f.has_root_in(xl, xr);
            let fx = e.f.eval(x);
            let residual_exit = matches!(e.solver, Solver::Brent) && fx.abs() < tol;
            let dist = e.f.root_distance(x);
            if sign_change {
                rep.max(&format!("{}/root_distance_over_tau", name), dist / tau);
            } else if residual_exit {
                rep.count("brent/accepted_on_residual_only", 1);
            }
            if fx == 0.0 {
                rep.count(&format!("{}/result_exactly_on_root", name), 1);
            }
            if !(sign_change || residual_exit) {
                rep.violation(
                    &format!("{}/no-sign-change-within-tol", name),
                    cj(),
                    format!("Ok({:.17e}): f has the same sign at {:.17e} ({:e}) and {:.17e} ({:e}); nearest root is {:e} away, tau = {:e}, f(x) = {:e}", x, xl, fl, xr, fr, dist, tau, fx),
                );
                return out;
            }
        }
        _ => {}
    }
    if let Solver::Itp { .. } = e.solver {
        if log.len() > 2 && log[2..].iter().any(|x| e.f.eval(*x) == 0.0) {
            rep.count("itp/runs_with_an_iterate_exactly_on_the_root", 1);
        }
        if e.f.eval(a) == -e.f.eval(b) {
            rep.count("itp/runs_with_f(a)=-f(b)", 1);
        }
    }
    out
}

fn exec_hash(e: &Exec) -> u64 {
    let mut h = CaseHash::new("c07").s(e.solver.name());
    match e.solver {
        Solver::Bis { n_max } => h = h.u(n_max as u64),
        Solver::Brent => {}
        Solver::Itp { k1, k2, n0 } => h = h.f(k1).f(k2).f(n0),
    }
    e.f.hash(h).f(e.a).f(e.b).f(e.tol).0
}

/// run + non-trivial bookkeeping + samples
fn run_and_note(rep: &mut Report, e: &Exec) {
    let out = run_exec(rep, e);
    let nontrivial = out.evals >= 5 || matches!(e.expect, Expect::Err(_));
    if nontrivial {
        rep.nontrivial(exec_hash(e));
        if rep.wants_sample() && (rep.cur_index % 7 == 3 || rep.cur_index < 2) {
            let mut j = J::obj().set("solver", e.solver.name()).set("function", e.f.to_json()).set("a", e.a).set("b", e.b).set("tol", e.tol).set("expect", format!("{:?}", e.expect)).set("evaluations", out.evals).set("returned_ok", out.ok);
            if let Solver::Itp { k1, k2, n0 } = e.solver {
                j.put("itp_parameters", J::fs(&[k1, k2, n0]));
            }
            if let Solver::Bis { n_max } = e.solver {
                j.put("n_max", n_max);
            }
            rep.sample(j);
        }
    }
}

fn classify(f: &Func, a: f64, b: f64) -> Option<Expect> {
    let fa = f.eval(a);
    let fb = f.eval(b);
    if fa == 0.0 || fb == 0.0 {
        Some(Expect::Lenient)
    } else if (fa < 0.0) != (fb < 0.0) {
        Some(Expect::Valid)
    } else {
        None
    }
}

// ---------------------------------------------------------------- G-root1 random generator

pub struct Problem {
    pub f: Func,
    pub a: f64,
    pub b: f64,
    pub end_root: bool,
}

fn gen_centre(rng: &mut Rng) -> f64 {
    match rng.below(8) {
        0 => rng.r(-3.0, 3.0) + 100.0,
        1 => rng.r(-3.0, 3.0) - 100.0,
        2 => 0.0,
        _ => rng.r(-3.0, 3.0),
    }
}

pub fn gen_problem(rng: &mut Rng) -> Problem {
    let r = gen_centre(rng);
    let s = rng.sign() * rng.r(0.2, 3.0);
    let c = rng.r(0.2, 3.0);
    let kinds = [Kind::Lin, Kind::Lin, Kind::Cubic, Kind::Exp, Kind::Exp, Kind::Sin, Kind::Sin, Kind::Tanh, Kind::CubicPlus, Kind::Quintic, Kind::Poly, Kind::Poly, Kind::Poly, Kind::OddPower, Kind::FlatExp];
    let kind = *rng.pick(&kinds);
    // flat-near-root members: values (and products of values) underflow close to the root
    let c = match kind {
        Kind::OddPower => (9 + 2 * rng.below(12)) as f64,
        Kind::FlatExp => rng.r(0.5, 3.0),
        // steep exponentials (a quarter of the exponential cases): end values that differ by hundreds of
        // orders of magnitude, up to an end value that overflows to infinity (still of definite sign)
        Kind::Exp if (r.to_bits() >> 4) % 4 == 0 => 10f64.powf(1.0 + 2.3 * (((r.to_bits() >> 6) % 1024) as f64 / 1024.0)),
        _ => c,
    };
    let mut end_root = false;
    let (f, mut a, mut b);
    match kind {
        Kind::Poly => {
            let n = 2 + rng.below(4);
            let mut roots = vec![0.0; n];
            let mut x = 0.0;
            for ri in roots.iter_mut() {
                *ri = x;
                x += rng.r(0.3, 1.5);
            }
            let shift = r - roots[rng.below(n)];
            for ri in roots.iter_mut() {
                *ri += shift;
            }
            // an odd number of consecutive roots inside
            let cnt = if n >= 3 && rng.bool() { 3 } else { 1 };
            let i = rng.below(n - cnt + 1);
            let j = i + cnt - 1;
            let gl = if i == 0 { 1.5 } else { roots[i] - roots[i - 1] };
            let gr = if j == n - 1 { 1.5 } else { roots[j + 1] - roots[j] };
            a = roots[i] - gl * rng.r(0.05, 0.95);
            b = roots[j] + gr * rng.r(0.05, 0.95);
            f = Func { kind, r, s, c, roots };
        }
        Kind::Sin if rng.bool() => {
            // several roots of sin inside: ka + kb + 1 of them, odd
            let (ka, kb) = *rng.pick(&[(0.0, 0.0), (1.0, 1.0), (0.0, 2.0), (2.0, 0.0), (2.0, 2.0), (1.0, 3.0)]);
            let p = std::f64::consts::PI / c;
            a = r - (ka + rng.r(0.05, 0.95)) * p;
            b = r + (kb + rng.r(0.05, 0.95)) * p;
            f = Func::simple(kind, r, s, c);
        }
        _ => {
            let maxw: f64 = if kind == Kind::Sin { 3.0 / c } else { 4.0 };
            a = r - rng.log10(-2.0, maxw.log10());
            b = r + rng.log10(-2.0, maxw.log10());
            let flat = matches!(kind, Kind::OddPower | Kind::FlatExp);
            if flat {
                // the premise "values of opposite signs at the two ends" needs end values that are
                // not lost to underflow: move an end point outwards until |f| is a normal number
                let probe = Func::simple(kind, r, s, c);
                while probe.eval(a).abs() < 1e-200 {
                    a = r - 2.0 * (r - a);
                }
                while probe.eval(b).abs() < 1e-200 {
                    b = r + 2.0 * (b - r);
                }
            }
            // (an end point on the root: not for the steep exponentials, where the other end value may be
            // infinite and 0 x infinity has no sign - such a call is outside the premise altogether)
            let steep = kind == Kind::Exp && c >= 10.0;
            if !flat && rng.below(8) == 0 && !steep {
                end_root = true;
                if rng.bool() {
                    a = r;
                } else {
                    b = r;
                }
            }
            f = Func::simple(kind, r, s, c);
        }
    }
    if rng.bool() {
        std::mem::swap(&mut a, &mut b);
    }
    Problem { f, a, b, end_root }
}

fn gen_itp_params(rng: &mut Rng) -> (f64, f64, f64) {
    let k1 = rng.log10(-3.0, 1.0);
    // k2 = 2 is the value recommended by the method's authors and used in the crate's documentation
    let k2 = if rng.below(4) == 0 { 2.0 } else { rng.r(1.001, 2.617) };
    let n0 = if rng.bool() { rng.below(4) as f64 } else { rng.r(0.0, 3.0) };
    if rng.chance(0.02) {
        // n0 has no upper limit: with several hundred the scale tol 2^(n_half + 2 n0 - j) is beyond the
        // largest float for the first iterations; the evaluation bound n_half + 2 n0 + const holds all
        // the same (k1 tiny, so that the truncation step alone does not finish the job early)
        return (rng.log10(-10.0, -6.0), k2, *rng.pick(&[513.0, 600.0, 800.0]));
    }
    (k1, k2, n0)
}

fn random_case(rng: &mut Rng, rep: &mut Report) {
    let mut p = gen_problem(rng);
    let mut tol = rng.log10(-12.0, -2.0);
    // one sine problem in six: the function moved to r of size 1e5 ... 1e9 and bracketed around its root r + pi/c
    // (not a floating-point number, so no iterate lands on it exactly and no value vanishes), with a tolerance of
    // 1e-12 ... 1e-9.5 - at or below the spacing of the floats there. No bracket can become narrower than two
    // neighbouring numbers; the call has to return all the same (D47: brent and itp did not), and the answer
    // is judged with the floating-point floor of the window, 4 eps max(|a|, |b|)
    if p.f.kind == Kind::Sin && (p.a.to_bits() >> 9) % 6 == 1 {
        let bits = p.a.to_bits() >> 13;
        let big = 10f64.powf(5.0 + 4.0 * ((bits % 1024) as f64 / 1024.0)) * if (bits >> 10) % 2 == 0 { 1.0 } else { -1.0 };
        let per = std::f64::consts::PI / p.f.c;
        let u1 = 0.05 + 0.85 * (((bits >> 11) % 256) as f64 / 256.0);
        let u2 = 0.05 + 0.85 * (((bits >> 19) % 256) as f64 / 256.0);
        let (na, nb) = (big + per - u1 * per, big + per + u2 * per);
        let descending = p.a > p.b;
        p.f.r = big;
        p.end_root = false;
        if descending {
            p.a = nb;
            p.b = na;
        } else {
            p.a = na;
            p.b = nb;
        }
        tol = 10f64.powf(-12.0 + 2.5 * (((bits >> 27) % 1024) as f64 / 1024.0));
        rep.count("problems/root_of_size_1e5_to_1e9_with_a_tolerance_near_the_float_spacing", 1);
    }
    // one monotone problem in sixteen: a valid bracket that is already narrower than the tolerance (any of its
    // points is a correct answer; "nothing to do" is not an error)
    if matches!(p.f.kind, Kind::Lin | Kind::Cubic | Kind::Tanh | Kind::CubicPlus | Kind::Quintic) && !p.end_root && (p.a.to_bits() >> 9) % 16 == 0 {
        let w = tol * 10f64.powf(-3.0 + 2.95 * (((p.a.to_bits() >> 13) % 1024) as f64 / 1024.0));
        let (na, nb) = (p.f.r - 0.3 * w, p.f.r + 0.7 * w);
        if w >= 64.0 * EPS * (p.f.r.abs() + 1.0) && p.f.eval(na) * p.f.eval(nb) < 0.0 {
            if p.a < p.b {
                p.a = na;
                p.b = nb;
            } else {
                p.a = nb;
                p.b = na;
            }
            rep.count("problems/bracket_narrower_than_the_tolerance", 1);
        }
    }
    if p.f.kind == Kind::Exp && p.f.c >= 10.0 {
        let (va, vb) = (p.f.eval(p.a).abs(), p.f.eval(p.b).abs());
        if va.is_infinite() || vb.is_infinite() {
            rep.count("problems/steep_exponential_with_an_infinite_end_value", 1);
        } else if va.max(vb) > 1e17 * va.min(vb) {
            rep.count("problems/steep_exponential_with_end_values_1e17_apart", 1);
        }
    }
    // several roots of the sine inside and one END VALUE already below the tolerance (the end point
    // sits just outside an outer root): a point where |f| < tol is not a root location unless the
    // sign changes within tol of it - which it does here, so returning that end is right, returning
    // some other point of the bracket on the strength of the small end value is not
    if p.f.kind == Kind::Sin && !p.end_root && rng.chance(0.3) {
        let per = std::f64::consts::PI / p.f.c;
        let (lo, hi) = (p.a.min(p.b), p.a.max(p.b));
        if hi - lo > 1.2 * per {
            let delta = tol * rng.log10(-2.0, -0.3) / (p.f.s.abs() * p.f.c);
            let left = rng.bool();
            let new_end = if left {
                let k = ((p.f.r - lo) / per).floor();
                p.f.r - k * per - delta
            } else {
                let k = ((hi - p.f.r) / per).floor();
                p.f.r + k * per + delta
            };
            let old = if left { lo } else { hi };
            if (p.f.eval(new_end) < 0.0) == (p.f.eval(old) < 0.0) && p.f.eval(new_end) != 0.0 {
                if p.a == old {
                    p.a = new_end;
                } else {
                    p.b = new_end;
                }
                rep.count("problems/several_roots_and_an_end_value_below_tol", 1);
            }
        }
    }
    let expect = match classify(&p.f, p.a, p.b) {
        Some(e) => e,
        None => {
            rep.harness_errors.push(format!("C07 generator produced a bracket without sign change: {:?} a={:e} b={:e}", p.f, p.a, p.b));
            return;
        }
    };
    if p.end_root {
        rep.count("problems/root_at_an_end_point", 1);
    }
    if p.f.kind != Kind::Poly && p.f.kind != Kind::Sin {
        rep.count(if p.f.s > 0.0 { "problems/increasing" } else { "problems/decreasing" }, 1);
    }
    if p.a.abs() > 50.0 {
        rep.count("problems/bracket_near_+-100", 1);
    }
    if p.a.min(p.b) < 0.0 && p.a.max(p.b) > 0.0 {
        rep.count("problems/bracket_straddles_zero", 1);
    }
    if p.a > p.b {
        rep.count("problems/bracket_given_in_descending_order", 1);
    }
    // bisection: documented requirement left < right; a reversed bracket is passed through now and then
    let lo = p.a.min(p.b);
    let hi = p.a.max(p.b);
    let l = ceil_log2((hi - lo) / tol);
    let big_cap = rng.below(5) != 0;
    let n_max = if big_cap { (l + BIS_OK_MARGIN) as usize + rng.below(30) } else { rng.below(l as usize + 3) };
    if p.a > p.b && rng.below(6) == 0 {
        run_and_note(rep, &Exec { f: &p.f, a: p.a, b: p.b, tol, solver: Solver::Bis { n_max }, expect: Expect::Lenient });
        rep.count("bisection/reversed_bracket_runs", 1);
    } else {
        run_and_note(rep, &Exec { f: &p.f, a: lo, b: hi, tol, solver: Solver::Bis { n_max }, expect });
    }
    run_and_note(rep, &Exec { f: &p.f, a: p.a, b: p.b, tol, solver: Solver::Brent, expect });
    let (k1, k2, n0) = gen_itp_params(rng);
    run_and_note(rep, &Exec { f: &p.f, a: p.a, b: p.b, tol, solver: Solver::Itp { k1, k2, n0 }, expect });
}

// ---------------------------------------------------------------- invalid input

fn invalid_case(rng: &mut Rng, rep: &mut Report, i: u64) {
    let class = i % 8;
    let tol = rng.log10(-12.0, -2.0);
    let (k1, k2, n0) = gen_itp_params(rng);
    match class {
        0 | 1 | 2 => {
            // same-sign end values: no root at all / bracket beside the root / two roots inside
            let r = gen_centre(rng);
            let s = rng.sign() * rng.r(0.2, 3.0);
            let (f, a, b) = match class {
                0 => (Func::simple(Kind::NoRoot, r, s, rng.log10(-3.0, 1.0)), r - rng.r(0.0, 3.0), r + rng.r(0.01, 3.0)),
                1 => {
                    let kind = *rng.pick(&[Kind::Lin, Kind::Cubic, Kind::Exp, Kind::Tanh, Kind::CubicPlus, Kind::Quintic]);
                    let side = rng.sign();
                    let d0 = rng.log10(-3.0, 0.3);
                    let d1 = d0 + rng.log10(-2.0, 0.5);
                    (Func::simple(kind, r, s, rng.r(0.2, 3.0)), r + side * d0, r + side * d1)
                }
                _ => {
                    let g = rng.r(0.3, 1.5);
                    let mut roots = vec![r, r + g];
                    if rng.bool() {
                        roots.push(r + g + rng.r(0.8, 1.5));
                    }
                    (Func { kind: Kind::Poly, r, s, c: 1.0, roots }, r - rng.r(0.05, 0.9), r + g + rng.r(0.05, 0.7))
                }
            };
            let (fa, fb) = (f.eval(a), f.eval(b));
            if !(fa * fb > 0.0) {
                rep.harness_errors.push(format!("C07 same-sign generator failed: {:?} a={:e} b={:e}", f, a, b));
                return;
            }
            let (lo, hi) = (a.min(b), a.max(b));
            let (a, b) = if rng.bool() { (lo, hi) } else { (hi, lo) };
            run_and_note(rep, &Exec { f: &f, a: lo, b: hi, tol, solver: Solver::Bis { n_max: 100 }, expect: Expect::Err("same-sign-end-values") });
            run_and_note(rep, &Exec { f: &f, a, b, tol, solver: Solver::Brent, expect: Expect::Err("same-sign-end-values") });
            run_and_note(rep, &Exec { f: &f, a, b, tol, solver: Solver::Itp { k1, k2, n0 }, expect: Expect::Err("same-sign-end-values") });
        }
        3 => {
            // negative tolerance on an otherwise valid problem
            let p = gen_problem(rng);
            if classify(&p.f, p.a, p.b) != Some(Expect::Valid) {
                rep.count("invalid/skipped_end_root_problem", 1);
                return;
            }
            let (lo, hi) = (p.a.min(p.b), p.a.max(p.b));
            // one call in eight: a tolerance of zero (+0.0 or -0.0) - no width and no function value is below it, so
            // it can only be answered with Err (D42: brent never returned, itp returned Ok(NaN))
            let (nt, cls) = match (tol.to_bits() >> 8) % 16 {
                0 => (0.0, "zero-tolerance"),
                1 => (-0.0, "zero-tolerance"),
                _ => (-tol, "negative-tolerance"),
            };
            run_and_note(rep, &Exec { f: &p.f, a: lo, b: hi, tol: nt, solver: Solver::Bis { n_max: 10 + rng.below(90) }, expect: Expect::Err(cls) });
            run_and_note(rep, &Exec { f: &p.f, a: p.a, b: p.b, tol: nt, solver: Solver::Brent, expect: Expect::Err(cls) });
            run_and_note(rep, &Exec { f: &p.f, a: p.a, b: p.b, tol: nt, solver: Solver::Itp { k1, k2, n0 }, expect: Expect::Err(cls) });
        }
        _ => {
            let p = gen_problem(rng);
            if classify(&p.f, p.a, p.b) != Some(Expect::Valid) {
                rep.count("invalid/skipped_end_root_problem", 1);
                return;
            }
            let (solver, tag) = match class {
                4 => (Solver::Itp { k1: -rng.log10(-3.0, 1.0), k2, n0 }, "negative-k1"),
                5 => (Solver::Itp { k1, k2: *rng.pick(&[1.0, 0.999, 0.5, 0.0, -1.0, -2.5]), n0 }, "k2-not-above-1"),
                6 => (Solver::Itp { k1, k2: *rng.pick(&[2.6181, 2.62, 2.7, 3.0, 10.0, 1e6]), n0 }, "k2-not-below-1+golden-ratio"),
                _ => {
                    let v = rng.r(0.0, 3.0) + 1e-9;
                    (Solver::Itp { k1, k2, n0: -*rng.pick(&[1.0, 2.0, 0.5, 1e-3, 10.0, v]) }, "negative-n0")
                }
            };
            // a quarter of these calls carry a second invalid argument as well (a negative tolerance): two
            // wrongs do not make a valid call
            let tol = if rng.chance(0.25) {
                rep.count("invalid/itp_calls_with_two_invalid_arguments", 1);
                -rng.log10(-12.0, 0.0)
            } else {
                tol
            };
            run_and_note(rep, &Exec { f: &p.f, a: p.a, b: p.b, tol, solver, expect: Expect::Err(tag) });
        }
    }
}

// ---------------------------------------------------------------- exact-hit grid

const DY: [f64; 11] = [-2.0, -1.0, -0.5, 0.0, 0.25, 0.5, 1.0, 1.5, 2.0, 3.0, 4.0];
const SLOPES: [f64; 4] = [1.0, -1.0, 2.0, -0.5];
const GRID_K1: [f64; 3] = [0.01, 0.1, 1.0];
const GRID_K2: [f64; 4] = [1.1, 1.5, 2.0, 2.5];
const GRID_N0: [f64; 3] = [0.0, 1.0, 2.0];

/// (m, j) with 1 <= j < 2^m, m <= m_max
fn mj_list(m_max: u32) -> Vec<(u32, u32)> {
    let mut v = vec![];
    for m in 1..=m_max {
        for j in 1..(1u32 << m) {
            v.push((m, j));
        }
    }
    v
}

fn exact_hit_case(rep: &mut Report, i: u64, mj: &[(u32, u32)], tols: &[f64], offsets: &[f64]) {
    let mut k = i;
    let pair = (k % 110) as usize;
    k /= 110;
    let (m, j) = mj[(k % mj.len() as u64) as usize];
    k /= mj.len() as u64;
    let s = SLOPES[(k % 4) as usize];
    k /= 4;
    let shape = k % 2;
    let ia = pair / 10;
    let mut ib = pair % 10;
    if ib >= ia {
        ib += 1;
    }
    for off in offsets {
        let a = DY[ia] + off;
        let b = DY[ib] + off;
        let r = a + (b - a) * j as f64 / (1u32 << m) as f64;
        let f = Func::simple(if shape == 0 { Kind::Lin } else { Kind::CubicPlus }, r, s, 1.0);
        let expect = match classify(&f, a, b) {
            Some(Expect::Valid) => Expect::Valid,
            _ => {
                rep.harness_errors.push(format!("C07 exact-hit grid: invalid bracket a={} b={} r={}", a, b, r));
                return;
            }
        };
        rep.count("exact_hit/problems", 1);
        for &tol in tols {
            if a < b {
                let l = ceil_log2((b - a) / tol);
                run_and_note(rep, &Exec { f: &f, a, b, tol, solver: Solver::Bis { n_max: (l + BIS_OK_MARGIN) as usize }, expect });
            }
            run_and_note(rep, &Exec { f: &f, a, b, tol, solver: Solver::Brent, expect });
            for k1 in GRID_K1 {
                for k2 in GRID_K2 {
                    for n0 in GRID_N0 {
                        run_and_note(rep, &Exec { f: &f, a, b, tol, solver: Solver::Itp { k1, k2, n0 }, expect });
                    }
                }
            }
        }
    }
}

// ---------------------------------------------------------------- secant point == midpoint grid

const MID_C: [f64; 10] = [1.0, 1.024, 0.3, 0.7, 1.1, 2.5, 3.0, 0.1, 5.0, 1.7];
const MID_R: [f64; 5] = [0.0, 1.0, -2.0, 0.5, 100.0];
const MID_K: u64 = 40;
const MID_KINDS: [Kind; 6] = [Kind::Lin, Kind::Cubic, Kind::Sin, Kind::Tanh, Kind::CubicPlus, Kind::Quintic];

/// Odd functions about the middle of a symmetric bracket (f(a) = -f(b): the secant point is the
/// midpoint) with w/(2 tol) within a few ulp of a power of two, where the rounding of the
/// projection radius decides the sign of a quantity that is zero in exact arithmetic.
fn midpoint_case(rep: &mut Report, i: u64, n_c: usize) {
    let c = MID_C[(i % n_c as u64) as usize];
    let r = MID_R[((i / n_c as u64) % 5) as usize];
    let k = 1 + (i / (n_c as u64 * 5)) % MID_K;
    let (a, b) = (r - c, r + c);
    let w = b - a;
    let t0 = w / 2f64.powi(k as i32 + 1);
    for du in -3i64..=3 {
        let tol = f64::from_bits((t0.to_bits() as i64 + du) as u64);
        if !(tol >= 1e-12 && tol <= 1e-2) {
            rep.count("midpoint/skipped_tolerance_out_of_range", 1);
            continue;
        }
        for kind in MID_KINDS {
            for s in [1.0, -1.0, 2.0] {
                let f = Func::simple(kind, r, s, 1.0);
                let expect = match classify(&f, a, b) {
                    Some(e) => e,
                    None => {
                        // sin on a bracket wider than its period: not a valid member
                        rep.count("midpoint/skipped_no_sign_change", 1);
                        continue;
                    }
                };
                for n0 in [0.0, 1.0] {
                    for (x0, x1) in [(a, b), (b, a)] {
                        run_and_note(rep, &Exec { f: &f, a: x0, b: x1, tol, solver: Solver::Itp { k1: 0.1, k2: 2.0, n0 }, expect });
                    }
                }
                run_and_note(rep, &Exec { f: &f, a: b, b: a, tol, solver: Solver::Brent, expect });
                let l = ceil_log2(w / tol);
                run_and_note(rep, &Exec { f: &f, a, b, tol, solver: Solver::Bis { n_max: (l + BIS_OK_MARGIN) as usize }, expect });
            }
        }
    }
}

// ---------------------------------------------------------------- fixed anchors

fn anchor_case(rep: &mut Report, i: u64) {
    // hand-picked problems: the pinned-tree failures quoted in the property text and friendly classics
    let lin = |r: f64, s: f64| Func::simple(Kind::Lin, r, s, 1.0);
    let problems: Vec<(Func, f64, f64)> = vec![
        (lin(0.9, 1.0), -1.0, 3.0),
        (lin(1.5, 1.0), 1.0, 2.0),
        (lin(1.5, -1.0), 1.0, 2.0),
        (Func::simple(Kind::Cubic, 0.0, 1.0, 1.0), -1.0, 2.0),
        (Func::simple(Kind::Sin, std::f64::consts::FRAC_PI_2, -1.0, 1.0), 0.0, 3.0),
        (lin(100.3, 1.0), 100.0, 101.0),
        (lin(-100.3, -2.0), -101.0, -100.0),
        (Func::simple(Kind::Exp, 5f64.ln(), 1.0, 1.0), 0.0, 4.0),
        (Func::simple(Kind::Exp, 5f64.ln(), -1.0, 1.0), 0.0, 4.0),
        (lin(0.5, -1.0), 0.0, 1.0),
        (Func::simple(Kind::Cubic, 0.3, 1.0, 1.0), -1.0, 1.0),
        (Func::simple(Kind::Quintic, 0.3, -1.0, 1.0), -1.0, 1.0),
        (Func { kind: Kind::Poly, r: 0.0, s: 1.0, c: 1.0, roots: vec![-1.5, 0.25, 1.0, 2.5] }, -0.5, 0.5),
        (Func { kind: Kind::Poly, r: 0.0, s: -1.0, c: 1.0, roots: vec![-1.5, 0.25, 1.0, 2.5] }, -2.0, 2.0),
        (lin(1.0, 1.0), 0.8976, 1.1024),
        (lin(0.0, 1.0), -1.0, 1.0),
    ];
    let tols = [1e-2, 1e-4, 1e-8, 1e-12];
    let (f, a, b) = &problems[(i as usize) % problems.len()];
    let tol = tols[(i as usize / problems.len()) % tols.len()];
    let expect = classify(f, *a, *b).unwrap_or(Expect::Lenient);
    let l = ceil_log2((b - a).abs() / tol);
    run_and_note(rep, &Exec { f, a: *a, b: *b, tol, solver: Solver::Bis { n_max: (l + BIS_OK_MARGIN) as usize }, expect });
    for (x0, x1) in [(*a, *b), (*b, *a)] {
        run_and_note(rep, &Exec { f, a: x0, b: x1, tol, solver: Solver::Brent, expect });
        for n0 in [0.0, 1.0] {
            run_and_note(rep, &Exec { f, a: x0, b: x1, tol, solver: Solver::Itp { k1: 0.1, k2: 2.0, n0 }, expect });
            run_and_note(rep, &Exec { f, a: x0, b: x1, tol, solver: Solver::Itp { k1: 0.2, k2: 2.0, n0 }, expect });
        }
    }
}

/// Huge finite end values: s*(exp(c*(x-r))-1) with c*(end-r) in [690, 709.7], i.e. |f(end)| between
/// 1e299 and the largest finite number. Products such as f(a)*b then overflow although every function
/// value is finite. The first four cases are the pinned inputs on which itp once left the bracket
/// (its interpolation point (f_b a - f_a b)/(f_b - f_a) overflowed to infinity: D40).
fn huge_value_case(rep: &mut Report, i: u64, seed: u64) {
    let pinned: [(f64, f64, f64, f64, f64, f64, f64, f64, f64); 4] = [
        (2.803386131482869, -102.55939876753389, 1944.3280036580306, -102.7559846880287, -100.51846633906962, 4.5317739335577376e-08, 0.0013272308452653408, 1.1709419794948535, 2.3937004741127774),
        (0.8020825014306796, -2.7337100731569426, 294.4050887848695, -2.751118495003103, -0.324894797984157, 1.265247126652537e-08, 0.6390140810594062, 1.824251378658464, 2.0),
        (1.7930760330929085, -99.36905274047976, 440.69753872250067, -99.41801655592701, -96.1192380941598, 2.650329316006551e-10, 0.05052659472832782, 2.0244971893254275, 1.0),
        (-0.43842619143102257, 100.98340491289586, 1195.7398931863966, 101.57401877765025, 97.64238309152071, 3.8616040142747994e-08, 0.21347024538255474, 2.0, 1.1693696580984736),
    ];
    let (f, a, b, tol, k1, k2, n0);
    if (i as usize) < pinned.len() {
        let p = pinned[i as usize];
        f = Func::simple(Kind::Exp, p.1, p.0, p.2);
        a = p.3;
        b = p.4;
        tol = p.5;
        k1 = p.6;
        k2 = p.7;
        n0 = p.8;
    } else if i < 12 || i % 2 == 1 {
        // BOTH end values huge (round 11; reported by the author of a seeded change: brent((0,100),
        // 1e306 (x-3), 1e-6) evaluated f(inf) - its first secant point f_b (b-a)/(f_b-f_a) overflowed: D49):
        // s*g(x-r) with |s| = 1e296 ... 1e307 and g linear, cubic, sine, tanh or d(1+d^2); cases 4..11 are pinned
        let mut rng = Rng::for_case(if i < 12 { 4242 } else { seed }, "c07-huge-both", i);
        let (kind, r, mut sg, c, lo_end, hi_end);
        if i < 12 {
            kind = Kind::Lin;
            r = 3.0;
            c = 1.0;
            sg = [1e306, 1e307, -1e306, -1e307][(i % 4) as usize];
            lo_end = 0.0;
            hi_end = if i < 8 { 100.0 } else { 10.0 };
        } else {
            kind = [Kind::Lin, Kind::Cubic, Kind::Sin, Kind::Tanh, Kind::CubicPlus][rng.below(5)];
            r = gen_centre(&mut rng);
            c = rng.r(0.2, 3.0);
            sg = rng.sign() * rng.log10(296.0, 307.5);
            // one sign change only: the sine stays within half a period on either side
            let reach = if kind == Kind::Sin { 0.45 * std::f64::consts::PI / c } else { 3.0 };
            lo_end = r - reach * rng.r(0.05, 1.0);
            hi_end = r + reach * rng.r(0.05, 1.0);
        }
        let mut g = Func::simple(kind, r, sg, c);
        // keep both end values finite
        while !(g.eval(lo_end).is_finite() && g.eval(hi_end).is_finite()) {
            sg *= 0.1;
            g = Func::simple(kind, r, sg, c);
        }
        if !(g.eval(lo_end).abs() > 1e290 && g.eval(hi_end).abs() > 1e290) {
            return;
        }
        rep.count("problems/huge_finite_values_at_both_ends", 1);
        f = g;
        let swap = rng.bool();
        a = if swap { hi_end } else { lo_end };
        b = if swap { lo_end } else { hi_end };
        tol = rng.log10(-12.0, -2.0);
        let pr = gen_itp_params(&mut rng);
        k1 = pr.0;
        k2 = pr.1;
        n0 = pr.2;
    } else {
        let mut rng = Rng::for_case(seed, "c07-huge", i);
        let r = gen_centre(&mut rng);
        let sg = rng.sign() * rng.r(0.2, 3.0);
        let c = rng.log10(1.0, 3.3);
        // the huge end: exponent u with |s| e^u finite
        let u = rng.r(690.0, 709.7 - sg.abs().ln().max(0.0));
        let hi_end = r + u / c;
        let lo_end = r - rng.log10(-2.0, 0.5);
        f = Func::simple(Kind::Exp, r, sg, c);
        if !(f.eval(hi_end).is_finite() && f.eval(hi_end).abs() > 1e290) {
            return;
        }
        let swap = rng.bool();
        a = if swap { hi_end } else { lo_end };
        b = if swap { lo_end } else { hi_end };
        tol = rng.log10(-12.0, -2.0);
        let pr = gen_itp_params(&mut rng);
        k1 = pr.0;
        k2 = pr.1;
        n0 = pr.2;
    }
    let expect = match classify(&f, a, b) {
        Some(e) => e,
        None => {
            rep.harness_errors.push(format!("C07 huge-value generator produced a bracket without sign change: {:?} a={:e} b={:e}", f, a, b));
            return;
        }
    };
    rep.count("problems/huge_finite_end_value", 1);
    let (lo, hi) = (a.min(b), a.max(b));
    let l = ceil_log2((hi - lo) / tol);
    run_and_note(rep, &Exec { f: &f, a: lo, b: hi, tol, solver: Solver::Bis { n_max: (l + BIS_OK_MARGIN) as usize }, expect });
    run_and_note(rep, &Exec { f: &f, a, b, tol, solver: Solver::Brent, expect });
    run_and_note(rep, &Exec { f: &f, a, b, tol, solver: Solver::Itp { k1, k2, n0 }, expect });
}

/// Flat functions with a large root close to one end of the bracket (round 11): s (x-r)^k, k = 3 or 5,
/// r = 1e7 ... 2e9, one end 1e-7 ... 1e-4 below or above the root, the other 1e-3 ... 1 on the other side,
/// brackets in either order. Near the root the secant point of a flat function barely moves from the near
/// end; with the float spacing at r (1e-9 ... 2e-7) comparable to the projection radius k1 width^k2 its
/// rounding decides on which side of that end it lands - the interpolation point must still be a point
/// of the bracket. Cases 0..5 are the inputs of the demonstration of the seeded change C07-m29.
fn large_flat_case(rep: &mut Report, i: u64, seed: u64) {
    let (f, a, b, tol, k1, k2, n0);
    if i < 6 {
        let c = if i < 4 { 1e8 } else { 1e9 };
        f = Func::simple(Kind::Cubic, c, 1.0, 1.0);
        let (lo, hi) = if i < 4 { (99999999.999999, 100000000.05) } else { (999999999.0, 1000000000.000002) };
        a = if i % 2 == 0 { lo } else { hi };
        b = if i % 2 == 0 { hi } else { lo };
        tol = if i < 4 { [1e-8, 1e-12][((i / 2) % 2) as usize] } else { 1e-10 };
        k1 = 0.1;
        k2 = 2.0;
        n0 = 0.99;
    } else {
        let mut rng = Rng::for_case(seed, "c07-large-flat", i);
        // half of the cases in the narrow regime where the rounding of the interpolation point matters most:
        // root 1e8 ... 2e9, near end about 1e-6 away, far end 0.05 ... 1 away, documentation parameters
        let narrow = rng.bool();
        let r = if narrow { rng.log10(8.0, 9.3) } else { rng.log10(7.0, 9.3) } * rng.sign();
        // (integer roots in a third of the cases: the grid around them is the coarsest relative to the offsets)
        let r = if rng.below(3) == 0 { r.round() } else { r };
        let kind = if narrow || rng.bool() { Kind::Cubic } else { Kind::Quintic };
        f = Func::simple(kind, r, if narrow { 1.0 } else { rng.sign() * rng.r(0.2, 3.0) }, 1.0);
        let near = if narrow { 1e-6 * rng.r(0.5, 4.0) } else { rng.log10(-7.0, -4.0) };
        let far = if narrow { rng.r(0.05, 1.0) } else { rng.log10(-3.0, 0.0) };
        let (lo, hi) = if rng.bool() { (r - near, r + far) } else { (r - far, r + near) };
        let swap = rng.bool();
        a = if swap { hi } else { lo };
        b = if swap { lo } else { hi };
        tol = if narrow { rng.log10(-10.0, -8.0) } else { rng.log10(-12.0, -6.0) };
        let pr = gen_itp_params(&mut rng);
        k1 = if narrow || rng.bool() { 0.1 } else { pr.0 };
        k2 = if narrow || rng.bool() { 2.0 } else { pr.1 };
        n0 = if narrow { *rng.pick(&[0.99, 1.0, 0.0, 0.5]) } else { pr.2 };
    }
    let expect = match classify(&f, a, b) {
        Some(e) => e,
        None => {
            // the near end rounded onto the other side of the root: not a bracket, nothing to run
            rep.count("large_flat/generated_without_sign_change", 1);
            return;
        }
    };
    rep.count("problems/flat_function_with_a_root_of_size_1e7_to_2e9_near_one_end", 1);
    run_and_note(rep, &Exec { f: &f, a, b, tol, solver: Solver::Brent, expect });
    run_and_note(rep, &Exec { f: &f, a, b, tol, solver: Solver::Itp { k1, k2, n0 }, expect });
}

// ---------------------------------------------------------------- stages

pub fn stages(ctx: &Ctx) -> Vec<Stage> {
    let seed = ctx.seed;
    let tier = ctx.tier;
    let mut st = vec![];
    st.push(Stage::new("anchors", 16 * 4, move |i, rep| anchor_case(rep, i)));
    st.push(Stage::new("invalid", tier.pick(20_000, 200_000), move |i, rep| {
        // the first 800 cases are seed independent
        let mut rng = if i < 800 { Rng::for_case(777, "c07-invalid-anchor", i) } else { Rng::for_case(seed, "c07-invalid", i) };
        invalid_case(&mut rng, rep, i);
    }));
    st.push(Stage::new("random", tier.pick(100_000, 1_000_000), move |i, rep| {
        let mut rng = Rng::for_case(seed, "c07-random", i);
        random_case(&mut rng, rep);
    }));
    st.push(Stage::new("large-flat-root-near-an-end", tier.pick(400_000, 4_000_000), move |i, rep| large_flat_case(rep, i, seed)));
    st.push(Stage::new("huge-values", tier.pick(30_000, 300_000), move |i, rep| huge_value_case(rep, i, seed)));
    // exact-hit grid: complete in both tiers; thorough adds m <= 6, more tolerances, and the same
    // grid translated by 64 (dyadic, far from zero)
    let mj = mj_list(tier.pick(4, 6));
    let tols: Vec<f64> = tier.pick(vec![1e-3, 1e-8], vec![1e-2, 1e-3, 1e-5, 1e-8, 1e-12, 2f64.powi(-10), 2f64.powi(-30)]);
    let offsets: Vec<f64> = tier.pick(vec![0.0], vec![0.0, 64.0]);
    let n_grid = 110 * mj.len() as u64 * 4 * 2;
    st.push(Stage::new("exact-hit", n_grid, move |i, rep| exact_hit_case(rep, i, &mj, &tols, &offsets)));
    let n_c = 10usize;
    st.push(Stage::new("midpoint", n_c as u64 * 5 * MID_K, move |i, rep| midpoint_case(rep, i, n_c)));
    st
}

pub fn thresholds(ctx: &Ctx, rep: &Report) -> Vec<Threshold> {
    let q = |a: f64, b: f64| ctx.tier.pick(a, b);
    let mut t = vec![];
    t.push(Threshold { what: "brackets over several roots of a sine with one end value already below the tolerance".into(), required: ctx.tier.pick(500.0, 5_000.0), observed: rep.counter("problems/several_roots_and_an_end_value_below_tol") as f64 });
    t.push(Threshold { what: "roots of size 1e5 ... 1e9 with a tolerance at or below the spacing of the floats".into(), required: ctx.tier.pick(800.0, 8_000.0), observed: rep.counter("problems/root_of_size_1e5_to_1e9_with_a_tolerance_near_the_float_spacing") as f64 });
    t.push(Threshold { what: "valid brackets already narrower than the tolerance".into(), required: ctx.tier.pick(500.0, 5_000.0), observed: rep.counter("problems/bracket_narrower_than_the_tolerance") as f64 });
    t.push(Threshold { what: "brackets with a finite end value above 1e290".into(), required: ctx.tier.pick(15_000.0, 150_000.0), observed: rep.counter("problems/huge_finite_end_value") as f64 });
    t.push(Threshold { what: "flat functions with a root of size 1e7 ... 2e9 close to one end of the bracket".into(), required: ctx.tier.pick(250_000.0, 2_500_000.0), observed: rep.counter("problems/flat_function_with_a_root_of_size_1e7_to_2e9_near_one_end") as f64 });
    t.push(Threshold { what: "brackets with finite values above 1e290 at BOTH ends".into(), required: ctx.tier.pick(7_000.0, 70_000.0), observed: rep.counter("problems/huge_finite_values_at_both_ends") as f64 });
    t.push(Threshold { what: "steep exponentials whose finite end values differ by more than 1e17".into(), required: ctx.tier.pick(1_000.0, 10_000.0), observed: rep.counter("problems/steep_exponential_with_end_values_1e17_apart") as f64 });
    t.push(Threshold { what: "steep exponentials with an end value that overflows to infinity".into(), required: ctx.tier.pick(100.0, 1_000.0), observed: rep.counter("problems/steep_exponential_with_an_infinite_end_value") as f64 });
    for s in ["bisection", "brent", "itp"] {
        t.push(Threshold { what: format!("{}: runs on valid brackets judged by the full oracle", s), required: q(100_000.0, 800_000.0), observed: rep.counter(&format!("{}/valid_runs", s)) as f64 });
        t.push(Threshold { what: format!("{}: same-sign brackets (Err expected)", s), required: q(6_000.0, 60_000.0), observed: rep.counter(&format!("{}/err_expected/same-sign-end-values", s)) as f64 });
        t.push(Threshold { what: format!("{}: negative tolerance (Err expected)", s), required: q(1_800.0, 18_000.0), observed: rep.counter(&format!("{}/err_expected/negative-tolerance", s)) as f64 });
        t.push(Threshold { what: format!("{}: zero tolerance (Err expected)", s), required: q(150.0, 1_500.0), observed: rep.counter(&format!("{}/err_expected/zero-tolerance", s)) as f64 });
    }
    for c in ["negative-k1", "k2-not-above-1", "k2-not-below-1+golden-ratio", "negative-n0"] {
        t.push(Threshold { what: format!("itp: {} (Err expected)", c), required: q(1_800.0, 18_000.0), observed: rep.counter(&format!("itp/err_expected/{}", c)) as f64 });
    }
    t.push(Threshold { what: "itp runs in which an iterate landed exactly on the root".into(), required: q(50_000.0, 500_000.0), observed: rep.counter("itp/runs_with_an_iterate_exactly_on_the_root") as f64 });
    t.push(Threshold { what: "itp runs whose first secant point is the midpoint (f(a) = -f(b))".into(), required: 40_000.0, observed: rep.counter("itp/runs_with_f(a)=-f(b)") as f64 });
    t.push(Threshold { what: "exact-hit grid problems (complete grid)".into(), required: q(22_880.0, 2.0 * 110.0 * 120.0 * 8.0), observed: rep.counter("exact_hit/problems") as f64 });
    t.push(Threshold { what: "random problems with a decreasing function".into(), required: q(15_000.0, 150_000.0), observed: rep.counter("problems/decreasing") as f64 });
    t.push(Threshold { what: "random problems with the bracket near +-100".into(), required: q(10_000.0, 100_000.0), observed: rep.counter("problems/bracket_near_+-100") as f64 });
    t.push(Threshold { what: "random problems with the bracket given in descending order".into(), required: q(25_000.0, 250_000.0), observed: rep.counter("problems/bracket_given_in_descending_order") as f64 });
    t.push(Threshold { what: "random problems with a root at an end point".into(), required: q(2_500.0, 25_000.0), observed: rep.counter("problems/root_at_an_end_point") as f64 });
    t
}
