//! steffensen on contractions. The routine takes a plain `fn` pointer: the map is selected through
//! a thread-local, and calls are counted / budgeted by the shared probe.

use super::EPS;
use crate::json::J;
use crate::probe::{self, Guarded};
use crate::report::*;
use crate::rng::{CaseHash, Rng};
use bacon_sci::roots::steffensen;
use std::cell::Cell;

// ---------------------------------------------------------------- frozen constants
/// Ok(x): |x - x*| <= K_TOL tol + FLOOR eps (1 + |x*|). Analysis: an immediate return gives
/// |g(x0) - x*| <= L/(1-L) tol with L = |g'| <= 0.7 near x*, i.e. 2.4 tol (analytic worst case,
/// attained: observed maximum of err/bound 0.57); at most 9 calls of g were needed (cap 200).
const K_TOL: f64 = 4.0;
const FLOOR: f64 = 64.0;
const PROBE_BUDGET: u64 = 100_000;

#[derive(Clone, Copy, Debug, PartialEq)]
pub struct Map {
    pub fam: u8,
    pub a: f64,
    pub b: f64,
}

thread_local! {
    static CUR: Cell<Map> = Cell::new(Map { fam: 2, a: 0.0, b: 0.0 });
}

impl Map {
    pub fn eval(&self, x: f64) -> f64 {
        let (a, b) = (self.a, self.b);
        match self.fam {
            0 => a * x.cos() + b,
            1 => a * (-x).exp(),
            2 => a * x + b,
            3 => (a / (x + 4.0)).sqrt(),
            4 => b + a * x.sin(),
            5 => 0.5 * (x + a / x),
            6 => (x + a).ln(),
            _ => a * x.atan() + b,
        }
    }
    fn formula(&self) -> &'static str {
        match self.fam {
            0 => "a*cos(x)+b",
            1 => "a*exp(-x)",
            2 => "a*x+b",
            3 => "sqrt(a/(x+4))",
            4 => "b+a*sin(x)",
            5 => "(x+a/x)/2",
            6 => "ln(x+a)",
            _ => "a*atan(x)+b",
        }
    }
    /// bracket on which x - g(x) is increasing and changes sign
    fn bracket(&self) -> (f64, f64) {
        match self.fam {
            0 | 4 | 7 => (self.b - 2.0, self.b + 2.0),
            1 => (0.0, 2.0),
            2 => (-100.0, 100.0),
            3 => (0.0, 4.0),
            5 => (self.a.sqrt() * 0.5, self.a.sqrt() * 2.0),
            _ => (0.0, 4.0),
        }
    }
    /// fixed point by bisection of x - g(x) down to adjacent floats (harness-side, independent)
    pub fn fixed_point(&self) -> Option<f64> {
        let (mut lo, mut hi) = self.bracket();
        let h = |x: f64| x - self.eval(x);
        if !(h(lo) <= 0.0 && h(hi) >= 0.0) {
            return None;
        }
        for _ in 0..200 {
            let m = lo + 0.5 * (hi - lo);
            if m <= lo || m >= hi {
                break;
            }
            if h(m) <= 0.0 {
                lo = m;
            } else {
                hi = m;
            }
        }
        Some(if h(lo).abs() <= h(hi).abs() { lo } else { hi })
    }
}

fn probe_map(x: f64) -> f64 {
    probe::tick_or_panic();
    CUR.with(|c| c.get()).eval(x)
}

pub fn gen_map(rng: &mut Rng) -> Map {
    let fam = rng.below(8) as u8;
    let a7 = rng.sign() * rng.r(0.05, 0.7);
    match fam {
        0 | 4 | 7 => Map { fam, a: a7, b: rng.r(-2.0, 2.0) },
        1 => Map { fam, a: rng.r(0.3, 1.0), b: 0.0 },
        2 => Map { fam, a: a7, b: rng.r(-3.0, 3.0) },
        3 => Map { fam, a: rng.r(5.0, 15.0), b: 0.0 },
        5 => Map { fam, a: rng.r(0.5, 10.0), b: 0.0 },
        _ => Map { fam, a: rng.r(1.5, 3.0), b: 0.0 },
    }
}

/// slow contractions: |g'| <= |a| globally for these families, with |a| in [0.7, 0.99]
pub fn gen_map_slow(rng: &mut Rng) -> Map {
    let fam = [0u8, 2, 4, 7][rng.below(4)];
    let a = rng.sign() * rng.r(0.7, 0.99);
    match fam {
        // affine: choose the fixed point x* in [-3,3], b = x* (1 - a)
        2 => Map { fam, a, b: rng.r(-3.0, 3.0) * (1.0 - a) },
        _ => Map { fam, a, b: rng.r(-2.0, 2.0) },
    }
}

/// Constant of the accuracy bound. The routine may return g(x) as soon as |g(x) - x| <= tol, which
/// leaves |g(x) - x*| <= L/(1-L) tol for a contraction with constant L: for the families whose
/// |g'| is bounded by |a| globally the bound is max(4, 1.5 L/(1-L)) tol (4 tol up to L = 0.72).
fn k_tol(map: &Map) -> f64 {
    match map.fam {
        0 | 2 | 4 | 7 => {
            let l = map.a.abs().min(0.995);
            K_TOL.max(1.5 * l / (1.0 - l))
        }
        _ => K_TOL,
    }
}

pub fn run_steff(rep: &mut Report, map: Map, start: f64, tol: f64, n_max: usize, start_kind: &'static str, expect_err: bool) {
    let xs = match map.fixed_point() {
        Some(x) => x,
        None => {
            rep.harness_errors.push(format!("C08 steffensen: no fixed point bracket for {:?}", map));
            return;
        }
    };
    CUR.with(|c| c.set(map));
    probe::begin(PROBE_BUDGET);
    let res = probe::guard(|| steffensen(start, probe_map as fn(f64) -> f64, tol, n_max));
    let calls = probe::calls();
    rep.eval();
    let name = "steffensen";
    let result_str = match &res {
        Guarded::Ok(Ok(x)) => format!("Ok({:e})", x),
        Guarded::Ok(Err(m)) => format!("Err({})", m),
        Guarded::Budget => "evaluation budget exhausted".into(),
        Guarded::Panic(m, l) => format!("panic '{}' at {}", m, l),
    };
    let cj = || J::obj().set("routine", name).set("g", map.formula()).set("a", map.a).set("b", map.b).set("fixed_point", xs).set("start", start).set("start_kind", start_kind).set("tol", tol).set("n_max", n_max).set("g_calls", calls).set("result", result_str.as_str());
    let h = CaseHash::new("c08-st").u(map.fam as u64).f(map.a).f(map.b).f(start).f(tol).u(n_max as u64);
    rep.count(&format!("{}/runs/{}", name, start_kind), 1);
    if calls >= 3 || start_kind != "regular" || expect_err {
        rep.nontrivial(h.0);
        if rep.wants_sample() && rep.cur_index % 17 == 2 {
            rep.sample(cj());
        }
    }
    match res {
        Guarded::Panic(m, l) => rep.violation(&format!("{}/panic", name), cj(), format!("panicked: '{}' at {}", m, l)),
        Guarded::Budget => rep.violation(&format!("{}/no-termination", name), cj(), format!("still calling g after {} calls (n_max {})", PROBE_BUDGET, n_max)),
        Guarded::Ok(r) => {
            rep.max(&format!("{}/g_calls", name), calls as f64);
            if calls > 2 * n_max as u64 {
                rep.violation(&format!("{}/beyond-iteration-cap", name), cj(), format!("{} calls of g, cap 2 n_max = {}", calls, 2 * n_max));
                return;
            }
            match r {
                Ok(x) => {
                    if expect_err {
                        rep.violation(&format!("{}/ok-on-exhausted-cap", name), cj(), format!("n_max = {} cannot reach tol {:e} from distance {:e}, yet Ok", n_max, tol, (start - xs).abs()));
                        return;
                    }
                    if tol <= 1e-11 {
                        rep.count(&format!("{}/ok_with_tol_below_1e-11", name), 1);
                    }
                    let err = (x - xs).abs();
                    let bound = k_tol(&map) * tol + FLOOR * EPS * (1.0 + xs.abs());
                    rep.max(&format!("{}/error_over_bound", name), err / bound);
                    if !(err <= bound) {
                        rep.violation(&format!("{}/wrong-point", name), cj(), format!("Ok({:.17e}) is {:e} from the fixed point {:.17e}, bound {:e}", x, err, xs, bound));
                    }
                }
                Err(m) => {
                    if expect_err {
                        rep.count(&format!("{}/err_expected/exhausted-cap", name), 1);
                    } else {
                        rep.violation(&format!("{}/err-on-contraction", name), cj(), format!("contraction started {:e} from its fixed point, result Err({})", (start - xs).abs(), m));
                    }
                }
            }
        }
    }
}

const TOLS: [f64; 12] = [1e-2, 1e-3, 1e-4, 1e-5, 1e-6, 1e-7, 1e-8, 1e-9, 1e-10, 1e-11, 1e-12, 1e-13];

fn catalogue_case(rep: &mut Report, i: u64) {
    // cos x, e^-x, x/2+1, sqrt(10/(x+4)), 1+sin(x)/2, (x+2/x)/2, ln(x+2), atan(x)/2+1
    let cat: [(Map, [f64; 4]); 8] = [
        (Map { fam: 0, a: 1.0, b: 0.0 }, [0.5, 1.0, 0.7, 0.9]),
        (Map { fam: 1, a: 1.0, b: 0.0 }, [0.5, 0.0, 0.6, 0.8]),
        (Map { fam: 2, a: 0.5, b: 1.0 }, [0.5, 0.0, -7.0, 30.0]),
        (Map { fam: 3, a: 10.0, b: 0.0 }, [1.5, 1.0, 1.3, 1.7]),
        (Map { fam: 4, a: 0.5, b: 1.0 }, [1.0, 1.5, 1.3, 1.7]),
        (Map { fam: 5, a: 2.0, b: 0.0 }, [1.0, 1.5, 1.3, 1.6]),
        (Map { fam: 6, a: 2.0, b: 0.0 }, [1.0, 1.5, 0.9, 1.3]),
        (Map { fam: 7, a: 0.5, b: 1.0 }, [1.0, 1.5, 1.3, 1.7]),
    ];
    let (map, starts) = cat[(i % 8) as usize];
    let tol = TOLS[((i / 8) % 12) as usize];
    let k = ((i / 96) % 5) as usize;
    if k < 4 {
        run_steff(rep, map, starts[k], tol, 100, "regular", false);
    } else {
        let xs = map.fixed_point().unwrap_or(f64::NAN);
        run_steff(rep, map, xs, tol, 100, "on-fixed-point", false);
    }
}

fn random_case(rng: &mut Rng, rep: &mut Report) {
    // a quarter of the cases are slow contractions (L up to 0.99) with loose tolerances: a premature
    // return is tol/(1-L)^2 away from the fixed point there, 1/(1-L) times the legitimate distance
    let slow = rng.chance(0.25);
    let map = if slow { gen_map_slow(rng) } else { gen_map(rng) };
    if slow {
        rep.count("steffensen/slow_contraction_cases", 1);
    }
    let xs = match map.fixed_point() {
        Some(x) => x,
        None => {
            rep.harness_errors.push(format!("C08 steffensen: no fixed point bracket for {:?}", map));
            return;
        }
    };
    // slow contractions: tolerances 1e-9..1e-2 (|g(x) - x| <= tol has a rounding floor of a few ulp,
    // and the distance to the fixed point is 1/(1-L) times larger)
    let tol = if slow { rng.log10(-9.0, -2.0) } else if rng.bool() { *rng.pick(&TOLS) } else { rng.log10(-13.0, -2.0) };
    let spread = match map.fam {
        2 if slow => 2.0,
        2 => 20.0,
        5 => 0.1 * xs,
        1 => 0.2,
        _ => 0.25,
    };
    match rng.below(10) {
        0 => run_steff(rep, map, xs, tol, 100, "on-fixed-point", false),
        1 => {
            let start = xs + rng.sign() * spread * rng.r(0.5, 1.0);
            let t = tol.min(1e-6);
            run_steff(rep, map, start, t, rng.below(2), "cap", true);
        }
        _ => run_steff(rep, map, xs + rng.r(-spread, spread), tol, 100, "regular", false),
    }
}

pub fn stages(ctx: &Ctx) -> Vec<Stage> {
    let seed = ctx.seed;
    let tier = ctx.tier;
    vec![
        Stage::new("steffensen-catalogue", 8 * 12 * 5, move |i, rep| catalogue_case(rep, i)),
        Stage::new("steffensen-families", tier.pick(30_000, 750_000), move |i, rep| {
            let mut rng = Rng::for_case(seed, "c08-st", i);
            random_case(&mut rng, rep);
        }),
    ]
}

pub fn thresholds(ctx: &Ctx, rep: &Report) -> Vec<Threshold> {
    let q = |a: f64, b: f64| ctx.tier.pick(a, b);
    vec![
        Threshold { what: "steffensen: regular starts".into(), required: q(20_000.0, 500_000.0), observed: rep.counter("steffensen/runs/regular") as f64 },
        Threshold { what: "steffensen: starts on the fixed point".into(), required: q(2_000.0, 50_000.0), observed: rep.counter("steffensen/runs/on-fixed-point") as f64 },
        Threshold { what: "steffensen: Ok results with tol <= 1e-11".into(), required: q(3_000.0, 70_000.0), observed: rep.counter("steffensen/ok_with_tol_below_1e-11") as f64 },
        Threshold { what: "steffensen: exhausted caps (Err expected)".into(), required: q(2_000.0, 50_000.0), observed: rep.counter("steffensen/err_expected/exhausted-cap") as f64 },
    ]
}
