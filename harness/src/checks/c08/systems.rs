//! newton / secant on G-rootn systems.

use super::EPS;
use crate::json::J;
use crate::probe::{self, Guarded};
use crate::report::*;
use crate::rng::{CaseHash, Rng};
use bacon_sci::roots::{newton, secant};
use nalgebra::{Const, DimMin, SMatrix, SVector};
use std::cell::Cell;

// ---------------------------------------------------------------- frozen constants
/// Ok(x): |x - r| <= K_TOL tol max(1,|r|) + FLOOR eps cond (1+|r|).
/// Observed maxima on the repaired tree (quick + thorough, seeds 1..8): err/bound 0.024 (newton),
/// 0.0027 (secant); err/tol 0.097 (newton), 0.011 (secant). Analysis: the returned point is one
/// (super)linearly convergent step past an update <= tol, so its error is a fraction of tol.
const K_TOL: f64 = 4.0;
const FLOOR: f64 = 64.0;
/// root-centred Newton quantity h = |A^-1| Lip(F') |x0 - r|
const H_NEWTON: f64 = 0.25;
const H_SECANT: f64 = 0.02;
/// newton with the cap from the convergence theory: n_max = (iterations by theory) + margin.
/// Observed: iterations/n_max <= 0.72 (5 iterations under a cap of 7).
const NEWTON_CAP_MARGIN: usize = 2;
const PROBE_BUDGET: u64 = 100_000;

#[derive(Clone, Debug)]
pub struct Sys {
    pub n: usize,
    /// row-major n x n
    pub a: Vec<f64>,
    pub r: Vec<f64>,
    /// Some(b): the affine map A x - b (singular members); r is unused then
    pub b: Option<Vec<f64>>,
    pub eps: f64,
    /// quadratic coefficients q[i][(j,k)], j <= k, stored row-major n x n x n (upper part used)
    pub q: Vec<f64>,
    /// cubic coefficients c[i][j] of d_j^3
    pub cub: Vec<f64>,
    pub cond: f64,
    pub ainv_norm: f64,
    pub lip: f64,
    /// common factor of all equations (and of the Jacobian): the roots and the Newton iterates do not depend on it
    pub fscale: f64,
}

impl Sys {
    pub fn eval(&self, x: &[f64], out: &mut [f64]) {
        let n = self.n;
        if let Some(b) = &self.b {
            for i in 0..n {
                let mut s = 0.0;
                for j in 0..n {
                    s += self.a[i * n + j] * x[j];
                }
                out[i] = (s - b[i]) * self.fscale;
            }
            return;
        }
        let mut d = [0.0; 4];
        for j in 0..n {
            d[j] = x[j] - self.r[j];
        }
        for i in 0..n {
            let mut s = 0.0;
            for j in 0..n {
                s += self.a[i * n + j] * d[j];
            }
            if self.eps != 0.0 {
                let mut qv = 0.0;
                for j in 0..n {
                    for k in j..n {
                        qv += self.q[(i * n + j) * n + k] * d[j] * d[k];
                    }
                    qv += self.cub[i * n + j] * d[j] * d[j] * d[j];
                }
                s += self.eps * qv;
            }
            out[i] = s * self.fscale;
        }
    }
    /// analytic Jacobian, row-major
    pub fn jac(&self, x: &[f64], out: &mut [f64]) {
        let n = self.n;
        out[..n * n].copy_from_slice(&self.a);
        if self.b.is_some() || self.eps == 0.0 {
            for v in out[..n * n].iter_mut() {
                *v *= self.fscale;
            }
            return;
        }
        let mut d = [0.0; 4];
        for j in 0..n {
            d[j] = x[j] - self.r[j];
        }
        for i in 0..n {
            for j in 0..n {
                for k in j..n {
                    let qc = self.eps * self.q[(i * n + j) * n + k];
                    out[i * n + j] += qc * d[k];
                    out[i * n + k] += qc * d[j];
                }
                out[i * n + j] += self.eps * 3.0 * self.cub[i * n + j] * d[j] * d[j];
            }
        }
        for v in out[..n * n].iter_mut() {
            *v *= self.fscale;
        }
    }
    fn to_json(&self) -> J {
        let n = self.n;
        let mut j = J::obj().set("dim", n).set("common_factor_of_the_equations", self.fscale).set("A_rows", J::Arr((0..n).map(|i| J::fs(&self.a[i * n..(i + 1) * n])).collect()));
        if let Some(b) = &self.b {
            j.put("F", "A x - b");
            j.put("b", J::fs(b));
        } else {
            j.put("F", "F_i = sum_j A_ij d_j + eps*(sum_{j<=k} q[i][j][k] d_j d_k + sum_j c[i][j] d_j^3), d = x - r");
            j.put("r", J::fs(&self.r));
            j.put("eps", self.eps);
            if self.eps != 0.0 {
                j.put("q_flat_i_j_k", J::fs(&self.q));
                j.put("c_flat_i_j", J::fs(&self.cub));
            }
            j.put("cond", self.cond);
            j.put("lipschitz_bound_of_jacobian", self.lip);
        }
        j
    }
    fn hash(&self, h: CaseHash) -> CaseHash {
        let mut h = h.u(self.n as u64).fs(&self.a).fs(&self.r).f(self.eps);
        if let Some(b) = &self.b {
            h = h.fs(b);
        }
        h.fs(&self.q).fs(&self.cub)
    }
}

fn norm(v: &[f64]) -> f64 {
    v.iter().map(|x| x * x).sum::<f64>().sqrt()
}

fn matmul(n: usize, a: &[f64], b: &[f64]) -> Vec<f64> {
    let mut c = vec![0.0; n * n];
    for i in 0..n {
        for j in 0..n {
            let mut s = 0.0;
            for k in 0..n {
                s += a[i * n + k] * b[k * n + j];
            }
            c[i * n + j] = s;
        }
    }
    c
}

fn random_orthogonal(rng: &mut Rng, n: usize) -> Vec<f64> {
    let mut q = vec![0.0; n * n];
    for i in 0..n {
        q[i * n + i] = if rng.bool() { 1.0 } else { -1.0 };
    }
    for i in 0..n {
        for j in (i + 1)..n {
            let th = rng.r(0.0, std::f64::consts::TAU);
            let (s, c) = th.sin_cos();
            let mut g = vec![0.0; n * n];
            for k in 0..n {
                g[k * n + k] = 1.0;
            }
            g[i * n + i] = c;
            g[j * n + j] = c;
            g[i * n + j] = -s;
            g[j * n + i] = s;
            q = matmul(n, &q, &g);
        }
    }
    q
}

/// regular member of G-rootn
pub fn gen_sys(rng: &mut Rng, n: usize, affine: bool) -> Sys {
    let cond = rng.log10(0.0, 3.0);
    let s0 = rng.r(0.5, 2.0);
    let u = random_orthogonal(rng, n);
    let v = random_orthogonal(rng, n);
    let mut sig = vec![0.0; n * n];
    for i in 0..n {
        let t = if n == 1 { 0.0 } else { i as f64 / (n - 1) as f64 };
        sig[i * n + i] = s0 / cond.powf(t);
    }
    let smin = if n == 1 { s0 } else { s0 / cond };
    let cond = if n == 1 { 1.0 } else { cond };
    let mut vt = vec![0.0; n * n];
    for i in 0..n {
        for j in 0..n {
            vt[i * n + j] = v[j * n + i];
        }
    }
    let a = matmul(n, &matmul(n, &u, &sig), &vt);
    // (roots far from the origin: a stopping rule must stay absolute, |update| <= tol, there)
    let scale = match rng.below(6) {
        0 => 0.0,
        1 => 100.0,
        2 => 0.01,
        3 => rng.log10(3.0, 5.0),
        _ => 1.0,
    };
    let r: Vec<f64> = (0..n).map(|_| rng.r(-1.0, 1.0) * scale).collect();
    let eps = if affine { 0.0 } else { rng.r(0.05, 1.0) };
    let mut q = vec![0.0; n * n * n];
    let mut cub = vec![0.0; n * n];
    let mut hess2 = 0.0;
    let mut cub2 = 0.0;
    if !affine {
        let with_cubic = rng.bool();
        for i in 0..n {
            for j in 0..n {
                for k in j..n {
                    let c = rng.r(-1.0, 1.0);
                    q[(i * n + j) * n + k] = c;
                    hess2 += if j == k { 4.0 * c * c } else { 2.0 * c * c };
                }
                if with_cubic {
                    let c = rng.r(-1.0, 1.0);
                    cub[i * n + j] = c;
                    cub2 += c * c;
                }
            }
        }
    }
    // Lipschitz bound of the Jacobian (Frobenius) on the unit ball around r
    let lip = eps * (hess2.sqrt() + 6.0 * cub2.sqrt());
    Sys { n, a, r, b: None, eps, q, cub, cond, ainv_norm: 1.0 / smin, lip, fscale: 1.0 }
}

/// exactly singular integer matrix with an inconsistent right-hand side
pub fn gen_singular(rng: &mut Rng, n: usize) -> Sys {
    let mut a: Vec<f64> = (0..n * n).map(|_| rng.int(-4, 4) as f64).collect();
    let mut b: Vec<f64> = (0..n).map(|_| rng.int(-5, 5) as f64).collect();
    if n == 1 {
        a[0] = 0.0;
        if b[0] == 0.0 {
            b[0] = 1.0;
        }
    } else {
        let j = rng.below(n);
        let mut k = rng.below(n - 1);
        if k >= j {
            k += 1;
        }
        match rng.below(3) {
            0 => {
                for c in 0..n {
                    a[k * n + c] = a[j * n + c];
                }
                b[k] = b[j] + 1.0;
            }
            1 => {
                for c in 0..n {
                    a[k * n + c] = 2.0 * a[j * n + c];
                }
                b[k] = 2.0 * b[j] + 1.0;
            }
            _ => {
                for c in 0..n {
                    a[k * n + c] = 0.0;
                }
                b[k] = 1.0;
            }
        }
    }
    Sys { n, a, r: vec![0.0; n], b: Some(b), eps: 0.0, q: vec![], cub: vec![], cond: f64::INFINITY, ainv_norm: f64::INFINITY, lip: 0.0, fscale: 1.0 }
}

#[derive(Clone, Copy, Debug, PartialEq)]
pub enum Method {
    Newton,
    Secant { h: f64 },
}
impl Method {
    fn name(&self) -> &'static str {
        match self {
            Method::Newton => "newton",
            Method::Secant { .. } => "secant",
        }
    }
}

#[derive(Clone, Copy, Debug, PartialEq)]
pub enum Expect {
    /// Ok within the bound is required
    Root,
    /// Err is required (class tag)
    Err(&'static str),
}

pub struct Run<'a> {
    pub sys: &'a Sys,
    pub start: Vec<f64>,
    pub method: Method,
    pub tol: f64,
    pub n_max: usize,
    pub expect: Expect,
    pub start_kind: &'static str,
}

struct Raw {
    res: Guarded<Result<Vec<f64>, String>>,
    fcalls: u64,
    jcalls: u64,
}

fn call<const S: usize>(run: &Run) -> Raw
where
    Const<S>: DimMin<Const<S>, Output = Const<S>>,
{
    let sys = run.sys;
    let fc = Cell::new(0u64);
    let jc = Cell::new(0u64);
    let f = |x: &[f64]| -> SVector<f64, S> {
        fc.set(fc.get() + 1);
        probe::tick_or_panic();
        let mut out = [0.0; 4];
        sys.eval(x, &mut out);
        SVector::<f64, S>::from_iterator(out[..S].iter().copied())
    };
    let jac = |x: &[f64]| -> SMatrix<f64, S, S> {
        jc.set(jc.get() + 1);
        probe::tick_or_panic();
        let mut out = [0.0; 16];
        sys.jac(x, &mut out);
        SMatrix::<f64, S, S>::from_row_slice(&out[..S * S])
    };
    probe::begin(PROBE_BUDGET);
    let (tol, n_max) = (run.tol, run.n_max);
    let start = run.start.clone();
    let res = probe::guard(|| match run.method {
        Method::Newton => newton::<f64, _, _, S>(&start, f, jac, tol, n_max).map(|v| v.iter().copied().collect::<Vec<f64>>()),
        Method::Secant { h } => secant::<f64, _, S>(&start, f, h, tol, n_max).map(|v| v.iter().copied().collect::<Vec<f64>>()),
    });
    Raw { res, fcalls: fc.get(), jcalls: jc.get() }
}

pub fn run_system(rep: &mut Report, run: &Run) {
    let raw = match run.sys.n {
        1 => call::<1>(run),
        2 => call::<2>(run),
        3 => call::<3>(run),
        _ => call::<4>(run),
    };
    rep.eval();
    let name = run.method.name();
    let sys = run.sys;
    let n = sys.n;
    rep.count(&format!("{}/runs", name), 1);
    let result_str = match &raw.res {
        Guarded::Ok(Ok(x)) => format!("Ok({:?})", x),
        Guarded::Ok(Err(m)) => format!("Err({})", m),
        Guarded::Budget => "evaluation budget exhausted".to_string(),
        Guarded::Panic(m, l) => format!("panic '{}' at {}", m, l),
    };
    let cj = || {
        let mut j = J::obj().set("routine", name).set("system", sys.to_json()).set("start", J::fs(&run.start)).set("start_kind", run.start_kind).set("tol", run.tol).set("n_max", run.n_max);
        if let Method::Secant { h } = run.method {
            j.put("h", h);
        }
        j.put("expect", format!("{:?}", run.expect));
        j.put("f_calls", raw.fcalls);
        j.put("jac_calls", raw.jcalls);
        j.put("result", result_str.as_str());
        j
    };
    let mut h = sys.hash(CaseHash::new("c08-sys").s(name)).fs(&run.start).f(run.tol).u(run.n_max as u64);
    if let Method::Secant { h: hh } = run.method {
        h = h.f(hh);
    }
    let iterations = match run.method {
        Method::Newton => raw.fcalls,
        Method::Secant { .. } => raw.fcalls.saturating_sub(2 * n as u64),
    };
    let degenerate = run.start_kind != "regular" && run.start_kind != "affine-far";
    if iterations >= 2 || degenerate || matches!(run.expect, Expect::Err(_)) {
        rep.nontrivial(h.0);
        if rep.wants_sample() && rep.cur_index % 11 == 5 {
            rep.sample(cj());
        }
    }
    match &raw.res {
        Guarded::Panic(m, l) => {
            rep.violation(&format!("{}/panic", name), cj(), format!("{} panicked: '{}' at {}", name, m, l));
            return;
        }
        Guarded::Budget => {
            rep.violation(&format!("{}/no-termination", name), cj(), format!("{} still calling back after {} evaluations (n_max = {})", name, PROBE_BUDGET, run.n_max));
            return;
        }
        _ => {}
    }
    // iteration cap respected
    let fbound = match run.method {
        Method::Newton => run.n_max as u64,
        Method::Secant { .. } => run.n_max as u64 + 2 * n as u64 + 1,
    };
    rep.max(&format!("{}/f_calls", name), raw.fcalls as f64);
    if raw.fcalls > fbound || raw.jcalls > run.n_max as u64 {
        rep.violation(&format!("{}/beyond-iteration-cap", name), cj(), format!("{} calls of f (bound {}), {} calls of jac (bound {})", raw.fcalls, fbound, raw.jcalls, run.n_max));
        return;
    }
    match (&raw.res, run.expect) {
        (Guarded::Ok(Ok(x)), Expect::Err(class)) => {
            rep.count(&format!("{}/err_expected/{}", name, class), 1);
            rep.violation(&format!("{}/ok-on-{}", name, class), cj(), format!("{} returned Ok({:?}) where Err is required ({})", name, x, class));
        }
        (Guarded::Ok(Err(_)), Expect::Err(class)) => {
            rep.count(&format!("{}/err_expected/{}", name, class), 1);
        }
        (Guarded::Ok(Err(m)), Expect::Root) => {
            rep.count(&format!("{}/regular/{}", name, run.start_kind), 1);
            rep.violation(&format!("{}/err-on-regular-problem", name), cj(), format!("regular problem (start kind {}), result Err({})", run.start_kind, m));
        }
        (Guarded::Ok(Ok(x)), Expect::Root) => {
            rep.count(&format!("{}/regular/{}", name, run.start_kind), 1);
            rep.max(&format!("{}/iterations", name), iterations as f64);
            rep.max(&format!("{}/iterations_over_n_max", name), iterations as f64 / run.n_max as f64);
            if x.iter().any(|v| !v.is_finite()) {
                rep.violation(&format!("{}/non-finite-result", name), cj(), format!("Ok with a non-finite component: {:?}", x));
                return;
            }
            let rn = norm(&sys.r);
            let err = norm(&x.iter().zip(&sys.r).map(|(a, b)| a - b).collect::<Vec<_>>());
            let bound = K_TOL * run.tol * rn.max(1.0) + FLOOR * EPS * sys.cond * (1.0 + rn);
            rep.max(&format!("{}/error_over_bound", name), err / bound);
            rep.max(&format!("{}/error_over_tol", name), err / run.tol);
            if !(err <= bound) {
                rep.violation(&format!("{}/wrong-point", name), cj(), format!("Ok({:?}) is {:e} from the root, bound {:e} (tol {:e})", x, err, bound, run.tol));
            }
        }
        _ => {}
    }
}

fn unit_dir(rng: &mut Rng, n: usize) -> Vec<f64> {
    loop {
        let v: Vec<f64> = (0..n).map(|_| rng.normal()).collect();
        let nn = norm(&v);
        if nn > 1e-3 {
            return v.iter().map(|x| x / nn).collect();
        }
    }
}

fn regular_case(rng: &mut Rng, rep: &mut Report) {
    let n = 1 + rng.below(4);
    let affine = rng.below(4) == 0;
    let mut sys = gen_sys(rng, n, affine);
    let tol = rng.log10(-10.0, -3.0);
    for which in 0..2 {
        let hmax = if which == 0 { H_NEWTON } else { H_SECANT };
        let rad_max = if affine { 50.0 } else { (hmax / (sys.ainv_norm * sys.lip)).min(1.0) };
        let dir = unit_dir(rng, n);
        let rad = rad_max * rng.f();
        let kind = rng.below(10);
        let mut near_r: Option<Vec<f64>> = None;
        let (start, start_kind): (Vec<f64>, &'static str) = match kind {
            0 => (sys.r.clone(), "on-root"),
            1 | 2 => {
                // start at the origin: move the root so that the origin is inside the radius
                sys.r = dir.iter().map(|d| -d * rad).collect();
                // affine systems, Newton: "from any start including the origin" - half of them with the
                // root 1e3 ... 1e7 away (one exact step; the stopping rule needs the second, whose update is
                // rounding: cond eps |r|, kept below the tolerance by the choice of the distance)
                if affine && which == 0 && (sys.r[0].to_bits() >> 7) % 2 == 0 {
                    let far = 10f64.powf(3.0 + 4.0 * (((sys.r[0].to_bits() >> 9) % 1024) as f64 / 1024.0)).min(tol / (1000.0 * sys.cond * EPS));
                    if far >= 500.0 {
                        near_r = Some(sys.r.clone());
                        sys.r = dir.iter().map(|d| -d * far).collect();
                        rep.count("newton/affine_from_the_origin_with_a_far_root", 1);
                    }
                }
                (vec![0.0; n], "origin")
            }
            _ => (sys.r.iter().zip(&dir).map(|(r, d)| r + d * rad).collect(), if affine { "affine-far" } else { "regular" }),
        };
        let mut n_max = 30 + rng.below(70);
        let method = if which == 0 { Method::Newton } else { Method::Secant { h: rng.log10(-6.0, -3.0) } };
        let rn = norm(&sys.r);
        if rn >= 500.0 {
            rep.count(&format!("{}/runs_with_root_far_from_the_origin", method.name()), 1);
        }
        if which == 0 && rng.below(3) == 0 && tol >= 100.0 * sys.cond * EPS * (1.0 + rn + rad) {
            // a cap that the convergence theory says is sufficient: with h_k = |A^-1| Lip e_k the
            // errors obey e_{k+1} <= h_k e_k / (2 (1 - h_k)); the iteration returns at the first
            // update <= tol, i.e. at the latest one iteration after e_k <= tol/2
            let dist = norm(&start.iter().zip(&sys.r).map(|(a, b)| a - b).collect::<Vec<_>>());
            let mut e = dist;
            let mut k = 1;
            while e > 0.5 * tol && k < 60 {
                let h = (sys.ainv_norm * sys.lip * e).min(H_NEWTON);
                e = if affine { 0.0 } else { h * e / (2.0 * (1.0 - h)) };
                // rounding floor of one step
                e = e.max(4.0 * sys.cond * EPS * (1.0 + rn + dist));
                k += 1;
            }
            n_max = k + NEWTON_CAP_MARGIN;
            rep.count("newton/runs_with_theoretical_cap", 1);
            rep.max("newton/theoretical_cap", n_max as f64);
        }
        if affine {
            rep.count(&format!("{}/affine_runs", method.name()), 1);
        }
        // Newton, one run in eight: every equation multiplied by 2^+-(200..500) (1e60 ... 1e150 and their
        // reciprocals): neither the roots nor the Newton iterates depend on a common factor, the LU solve does
        // not mind it - a determinant does
        if which == 0 && (start[0].to_bits() >> 11) % 8 == 0 {
            let k = 200 + ((start[0].to_bits() >> 15) % 301) as i32;
            sys.fscale = 2f64.powi(if (start[0].to_bits() >> 14) % 2 == 0 { k } else { -k });
            rep.count("newton/runs_with_equations_scaled_by_1e60_to_1e150", 1);
        }
        run_system(rep, &Run { sys: &sys, start, method, tol, n_max, expect: Expect::Root, start_kind });
        sys.fscale = 1.0;
        // (the far root is for this Newton run only: the secant run that follows keeps the usual distances)
        if let Some(r0) = near_r {
            sys.r = r0;
        }
    }
}

fn singular_case(rng: &mut Rng, rep: &mut Report, n: usize) {
    {
        let mut sys = gen_singular(rng, n);
        // singularity does not depend on the scale of the equations: half of the systems are
        // multiplied by a power of two (exact, so the matrix stays exactly singular)
        if rng.bool() {
            let scale = 2f64.powi(rng.int(-20, 40) as i32);
            for v in sys.a.iter_mut() {
                *v *= scale;
            }
            if let Some(b) = sys.b.as_mut() {
                for v in b.iter_mut() {
                    *v *= scale;
                }
            }
            rep.count("singular_systems_scaled", 1);
        }
        let start: Vec<f64> = (0..n).map(|_| rng.int(-8, 8) as f64 * 0.5).collect();
        let tol = rng.log10(-10.0, -3.0);
        let n_max = 10 + rng.below(40);
        run_system(rep, &Run { sys: &sys, start: start.clone(), method: Method::Newton, tol, n_max, expect: Expect::Err("singular-system"), start_kind: "singular" });
        let h = *rng.pick(&[2f64.powi(-7), 2f64.powi(-10), 2f64.powi(-14)]);
        run_system(rep, &Run { sys: &sys, start, method: Method::Secant { h }, tol, n_max, expect: Expect::Err("singular-system"), start_kind: "singular" });
    }
}

/// seed-independent: the input found while building this check (LU of an exactly singular 4x4
/// matrix keeps a rounding-level pivot), then fixed exactly singular 3x3 / 4x4 systems
fn singular_anchor_case(rep: &mut Report, i: u64) {
    if i == 0 {
        let sys = Sys {
            n: 4,
            a: vec![-3.0, 2.0, -2.0, -1.0, 0.0, -1.0, -4.0, -3.0, 3.0, 3.0, 3.0, 4.0, 0.0, -1.0, -4.0, -3.0],
            r: vec![0.0; 4],
            b: Some(vec![5.0, 5.0, 1.0, 6.0]),
            eps: 0.0,
            q: vec![],
            cub: vec![],
            cond: f64::INFINITY,
            fscale: 1.0,
            ainv_norm: f64::INFINITY,
            lip: 0.0,
        };
        let start = vec![-1.0, -3.0, -2.5, -1.0];
        let tol = 3.6139545064061005e-05;
        run_system(rep, &Run { sys: &sys, start: start.clone(), method: Method::Newton, tol, n_max: 44, expect: Expect::Err("singular-system"), start_kind: "singular" });
        run_system(rep, &Run { sys: &sys, start, method: Method::Secant { h: 2f64.powi(-14) }, tol, n_max: 44, expect: Expect::Err("singular-system"), start_kind: "singular" });
        return;
    }
    let mut rng = Rng::for_case(4242, "c08-singular-anchor", i);
    let n = 3 + rng.below(2);
    singular_case(&mut rng, rep, n);
}

fn err_case(rng: &mut Rng, rep: &mut Report, i: u64) {
    let n = 1 + rng.below(4);
    if i % 2 == 0 {
        singular_case(rng, rep, n);
    } else {
        // exhausted cap (n_max <= 1: at most one update under any counting convention): the first
        // update is about |x0 - r| >= 3e-4 >> tol <= 1e-6
        let sys = gen_sys(rng, n, false);
        let tol = rng.log10(-10.0, -6.0);
        let rad_max = (H_SECANT / (sys.ainv_norm * sys.lip)).min(1.0);
        let rad = rad_max * rng.r(0.3, 1.0);
        if rad < 1e-3 {
            rep.count("systems/cap_case_skipped_small_radius", 1);
            return;
        }
        let dir = unit_dir(rng, n);
        let start: Vec<f64> = sys.r.iter().zip(&dir).map(|(r, d)| r + d * rad).collect();
        run_system(rep, &Run { sys: &sys, start: start.clone(), method: Method::Newton, tol, n_max: rng.below(2), expect: Expect::Err("exhausted-cap"), start_kind: "cap" });
        run_system(rep, &Run { sys: &sys, start, method: Method::Secant { h: rng.log10(-6.0, -3.0) }, tol, n_max: rng.below(2), expect: Expect::Err("exhausted-cap"), start_kind: "cap" });
    }
}

fn anchor_case(rep: &mut Report, i: u64) {
    // the affine system of the design round (root (1.5,-0.7)) from four starts, and a 1-d cubic
    let sys = Sys { n: 2, a: vec![2.0, 1.0, -1.0, 3.0], r: vec![1.5, -0.7], b: None, eps: 0.0, q: vec![0.0; 8], cub: vec![0.0; 4], cond: 1.6, ainv_norm: 0.5, lip: 0.0, fscale: 1.0 };
    let starts: [(Vec<f64>, &'static str); 4] = [(vec![0.0, 0.0], "origin"), (vec![1.0, 1.0], "affine-far"), (vec![1.5, -0.7], "on-root"), (vec![10.0, -20.0], "affine-far")];
    let (start, kind) = starts[(i % 4) as usize].clone();
    let tol = [1e-4, 1e-8, 1e-10][((i / 4) % 3) as usize];
    run_system(rep, &Run { sys: &sys, start: start.clone(), method: Method::Newton, tol, n_max: 100, expect: Expect::Root, start_kind: kind });
    run_system(rep, &Run { sys: &sys, start, method: Method::Secant { h: 1e-3 }, tol, n_max: 100, expect: Expect::Root, start_kind: kind });
    rep.count("newton/affine_runs", 1);
    rep.count("secant/affine_runs", 1);
}

pub fn stages(ctx: &Ctx) -> Vec<Stage> {
    let seed = ctx.seed;
    let tier = ctx.tier;
    vec![
        Stage::new("systems-anchors", 12, move |i, rep| anchor_case(rep, i)),
        Stage::new("systems", tier.pick(120_000, 5_000_000), move |i, rep| {
            let mut rng = if i < 500 { Rng::for_case(4242, "c08-sys-anchor", i) } else { Rng::for_case(seed, "c08-sys", i) };
            regular_case(&mut rng, rep);
        }),
        Stage::new("singular-anchors", 20_000, move |i, rep| singular_anchor_case(rep, i)),
        Stage::new("systems-err", tier.pick(40_000, 200_000), move |i, rep| {
            let mut rng = if i < 200 { Rng::for_case(4242, "c08-syserr-anchor", i) } else { Rng::for_case(seed, "c08-syserr", i) };
            err_case(&mut rng, rep, i);
        }),
    ]
}

pub fn thresholds(ctx: &Ctx, rep: &Report) -> Vec<Threshold> {
    let q = |a: f64, b: f64| ctx.tier.pick(a, b);
    let mut t = vec![];
    for m in ["newton", "secant"] {
        t.push(Threshold { what: format!("{}: regular starts judged", m), required: q(18_000.0, 450_000.0), observed: rep.counter(&format!("{}/regular/regular", m)) as f64 });
        t.push(Threshold { what: format!("{}: starts exactly on the root", m), required: q(2_000.0, 50_000.0), observed: rep.counter(&format!("{}/regular/on-root", m)) as f64 });
        if m == "newton" {
            t.push(Threshold { what: "newton: runs whose equations carry a common factor of 1e+-60 ... 1e+-150".into(), required: q(4_000.0, 35_000.0), observed: rep.counter("newton/runs_with_equations_scaled_by_1e60_to_1e150") as f64 });
            t.push(Threshold { what: "newton: affine systems started at the origin with the root 500 or more away".into(), required: q(300.0, 7_000.0), observed: rep.counter("newton/affine_from_the_origin_with_a_far_root") as f64 });
        }
        t.push(Threshold { what: format!("{}: starts at the origin", m), required: q(4_000.0, 100_000.0), observed: rep.counter(&format!("{}/regular/origin", m)) as f64 });
        t.push(Threshold { what: format!("{}: affine systems", m), required: q(5_000.0, 120_000.0), observed: rep.counter(&format!("{}/affine_runs", m)) as f64 });
        t.push(Threshold { what: format!("{}: singular systems (Err expected)", m), required: q(20_000.0, 100_000.0), observed: rep.counter(&format!("{}/err_expected/singular-system", m)) as f64 });
        t.push(Threshold { what: format!("{}: exhausted caps (Err expected)", m), required: q(1_200.0, 30_000.0), observed: rep.counter(&format!("{}/err_expected/exhausted-cap", m)) as f64 });
    }
    t
}
