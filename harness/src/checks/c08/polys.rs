//! newton_polynomial / muller_polynomial on polynomials expanded from separated roots.

use super::EPS;
use crate::json::J;
use crate::probe::{self, Guarded};
use crate::report::*;
use crate::rng::{CaseHash, Rng};
use bacon_sci::polynomial::Polynomial;
use bacon_sci::roots::{muller_polynomial, newton_polynomial};
use num_complex::Complex;

type C = Complex<f64>;

// ---------------------------------------------------------------- frozen constants
/// newton_polynomial: |x - z| <= K_TOL tol + FLOOR eps (ptilde(|z|)/|p'(z)| + |z|).
/// Analysis: Horner + expansion rounding <= ~2 deg eps ptilde/|p'| = 16 eps ptilde/|p'| for
/// degree 8; the last step is quadratically small. Observed maximum of err/bound: 0.0062.
const K_TOL: f64 = 4.0;
const FLOOR: f64 = 64.0;
/// rigorous Newton basin: q(e) = e * sum_j 1/(|z1 - zj| - e) <= Q_MAX gives |e'| <= |e| q/(1-q)
const Q_MAX: f64 = 0.4;
/// muller: |p(z)| <= K_TOL tol |p'(z)| + FLOOR eps ptilde(|z|); observed maximum of the ratio
/// 0.0033 ("near" class; returned point at most 0.55 tol from a root)
/// muller "near" class: the three points lie within this fraction of the Newton basin radius
const MULLER_RADIUS_FRACTION: f64 = 0.25;
const MIN_SEP: f64 = 0.3;
const DISC: f64 = 3.0;

#[derive(Clone, Debug)]
pub struct Poly {
    pub real: bool,
    pub lead: f64,
    pub roots: Vec<C>,
    /// ascending coefficients
    pub coef: Vec<C>,
}

impl Poly {
    fn horner(&self, z: C) -> (C, C) {
        let mut p = C::new(0.0, 0.0);
        let mut dp = C::new(0.0, 0.0);
        for c in self.coef.iter().rev() {
            dp = dp * z + p;
            p = p * z + c;
        }
        (p, dp)
    }
    fn ptilde(&self, x: f64) -> f64 {
        let mut s = 0.0;
        for c in self.coef.iter().rev() {
            s = s * x + c.norm();
        }
        s
    }
    /// |p'(z_k)| from the roots
    fn dp_at_root(&self, k: usize) -> f64 {
        let mut p = self.lead.abs();
        for (j, z) in self.roots.iter().enumerate() {
            if j != k {
                p *= (self.roots[k] - z).norm();
            }
        }
        p
    }
    fn to_json(&self) -> J {
        J::obj()
            .set("field", if self.real { "real" } else { "complex" })
            .set("leading_coefficient", self.lead)
            .set("roots_re", J::fs(&self.roots.iter().map(|z| z.re).collect::<Vec<_>>()))
            .set("roots_im", J::fs(&self.roots.iter().map(|z| z.im).collect::<Vec<_>>()))
            .set("coefficients_ascending_re", J::fs(&self.coef.iter().map(|z| z.re).collect::<Vec<_>>()))
            .set("coefficients_ascending_im", J::fs(&self.coef.iter().map(|z| z.im).collect::<Vec<_>>()))
    }
    fn hash(&self, mut h: CaseHash) -> CaseHash {
        for c in &self.coef {
            h = h.f(c.re).f(c.im);
        }
        h
    }
    /// `zero_tol`: the zero tolerance carried by the polynomial OBJECT (None: the default). It governs
    /// the object's own arithmetic and has no bearing on a root finder, whose tolerance is an argument.
    fn lib_real(&self, zero_tol: Option<f64>) -> Polynomial<f64> {
        let desc: Vec<f64> = self.coef.iter().rev().map(|c| c.re).collect();
        let mut p = Polynomial::from_slice(&desc);
        if let Some(t) = zero_tol {
            p.set_tolerance(t).expect("harness: positive tolerance");
        }
        p
    }
    fn lib_complex(&self, zero_tol: Option<f64>) -> Polynomial<C> {
        let desc: Vec<C> = self.coef.iter().rev().copied().collect();
        let mut p = Polynomial::from_slice(&desc);
        if let Some(t) = zero_tol {
            p.set_tolerance(t).expect("harness: positive tolerance");
        }
        p
    }
}

fn expand(real: bool, lead: f64, roots: &[C]) -> Vec<C> {
    if real {
        // real linear and quadratic factors in real arithmetic
        let mut c: Vec<f64> = vec![lead];
        let mut k = 0;
        while k < roots.len() {
            let z = roots[k];
            if z.im == 0.0 {
                let mut n = vec![0.0; c.len() + 1];
                for (i, ci) in c.iter().enumerate() {
                    n[i + 1] += ci;
                    n[i] -= z.re * ci;
                }
                c = n;
                k += 1;
            } else {
                // the pair z, conj z are adjacent
                let (b1, b0) = (-2.0 * z.re, z.re * z.re + z.im * z.im);
                let mut n = vec![0.0; c.len() + 2];
                for (i, ci) in c.iter().enumerate() {
                    n[i + 2] += ci;
                    n[i + 1] += b1 * ci;
                    n[i] += b0 * ci;
                }
                c = n;
                k += 2;
            }
        }
        c.into_iter().map(|x| C::new(x, 0.0)).collect()
    } else {
        let mut c: Vec<C> = vec![C::new(lead, 0.0)];
        for z in roots {
            let mut n = vec![C::new(0.0, 0.0); c.len() + 1];
            for (i, ci) in c.iter().enumerate() {
                n[i + 1] += ci;
                n[i] -= z * ci;
            }
            c = n;
        }
        c
    }
}

fn separated_by(roots: &[C], z: C, min_sep: f64) -> bool {
    roots.iter().all(|w| (w - z).norm() >= min_sep)
}

/// roots pairwise >= MIN_SEP apart inside the disc of radius DISC; real: conjugate closed
pub fn gen_poly(rng: &mut Rng, real: bool, degree: usize) -> Poly {
    let lead = rng.sign() * rng.log10(-1.0, 1.0);
    gen_poly_with(rng, real, degree, MIN_SEP, DISC, lead)
}

/// the same with a chosen minimal separation, disc radius and leading coefficient (clustered
/// roots with a small leading coefficient make |p'| at and near the roots small)
pub fn gen_poly_with(rng: &mut Rng, real: bool, degree: usize, min_sep: f64, disc: f64, lead: f64) -> Poly {
    let separated = |roots: &[C], z: C| separated_by(roots, z, min_sep);
    let mut roots: Vec<C> = vec![];
    let mut guard = 0;
    while roots.len() < degree && guard < 10_000 {
        guard += 1;
        if real {
            if degree - roots.len() >= 2 && rng.below(3) == 0 {
                let rad = disc * rng.f().sqrt();
                let th = rng.r(0.0, std::f64::consts::PI);
                let z = C::new(rad * th.cos(), rad * th.sin());
                if z.im >= min_sep / 2.0 && separated(&roots, z) && separated(&roots, z.conj()) {
                    roots.push(z);
                    roots.push(z.conj());
                }
            } else {
                let z = C::new(rng.r(-disc, disc), 0.0);
                if separated(&roots, z) {
                    roots.push(z);
                }
            }
        } else {
            let rad = disc * rng.f().sqrt();
            let th = rng.r(0.0, std::f64::consts::TAU);
            let z = C::new(rad * th.cos(), rad * th.sin());
            if separated(&roots, z) {
                roots.push(z);
            }
        }
    }
    let coef = expand(real, lead, &roots);
    Poly { real, lead, roots, coef }
}

/// translate all roots by -shift and re-expand
fn translated(p: &Poly, shift: C, target: usize, exact_zero: bool) -> Poly {
    let mut roots: Vec<C> = p.roots.iter().map(|z| z - shift).collect();
    if exact_zero {
        roots[target] = C::new(0.0, 0.0);
    }
    let coef = expand(p.real, p.lead, &roots);
    Poly { real: p.real, lead: p.lead, roots, coef }
}

/// largest e <= sep/3 with e * sum_j 1/(|z1-zj| - e) <= Q_MAX
fn basin_radius(p: &Poly, k: usize) -> f64 {
    let d: Vec<f64> = p.roots.iter().enumerate().filter(|(j, _)| *j != k).map(|(_, z)| (p.roots[k] - z).norm()).collect();
    if d.is_empty() {
        return DISC;
    }
    let sep = d.iter().cloned().fold(f64::INFINITY, f64::min);
    let q = |e: f64| e * d.iter().map(|dj| 1.0 / (dj - e)).sum::<f64>();
    let (mut lo, mut hi) = (0.0, sep / 3.0);
    if q(hi) <= Q_MAX {
        return hi;
    }
    for _ in 0..60 {
        let m = 0.5 * (lo + hi);
        if q(m) <= Q_MAX {
            lo = m;
        } else {
            hi = m;
        }
    }
    lo
}

fn newton_case(rng: &mut Rng, rep: &mut Report) {
    let real = rng.bool();
    // a fifth of the cases: roots clustered 0.1-0.3 apart in a small disc, small leading coefficient,
    // loose tolerance - the derivative at and near the roots is then of the size of the tolerance,
    // which has no bearing on where the iteration may stop
    let clustered = rng.chance(0.2);
    let degree = if clustered { 4 + rng.below(5) } else { 1 + rng.below(8) };
    let mut p = if clustered {
        let lead = rng.sign() * rng.log10(-2.0, 0.0);
        let sep = rng.r(0.1, 0.3);
        gen_poly_with(rng, real, degree, sep, sep * (degree as f64).sqrt() * 1.2, lead)
    } else {
        gen_poly(rng, real, degree)
    };
    if p.roots.len() != degree {
        rep.count("newton_polynomial/generator_gave_up", 1);
        return;
    }
    // target: a real root for real polynomials
    let cands: Vec<usize> = (0..degree).filter(|k| !real || p.roots[*k].im == 0.0).collect();
    if cands.is_empty() {
        rep.count("newton_polynomial/no_real_root", 1);
        return;
    }
    let k = *rng.pick(&cands);
    let rho = basin_radius(&p, k);
    let tol = if clustered { rng.log10(-5.0, -2.0).min(rho / 8.0) } else { rng.log10(-10.0, -3.0) };
    if clustered {
        rep.count("newton_polynomial/clustered_cases", 1);
        if p.dp_at_root(k) <= tol {
            rep.count("newton_polynomial/clustered_cases_with_derivative_at_root_below_tol", 1);
        }
    }
    let dir = if real { C::new(rng.sign(), 0.0) } else { C::from_polar(1.0, rng.r(0.0, std::f64::consts::TAU)) };
    let kind = rng.below(10);
    let mut expect_err = false;
    let mut n_max = 100;
    let (start, start_kind): (C, &'static str) = match kind {
        0 => (p.roots[k], "on-root"),
        1 | 2 => {
            // start exactly at 0 with the target root inside the basin of 0 (1: the root is 0 itself)
            let off = if kind == 1 { C::new(0.0, 0.0) } else { dir * rho * rng.r(0.05, 0.95) };
            let shift = p.roots[k] - off;
            let shift = if real { C::new(shift.re, 0.0) } else { shift };
            p = translated(&p, shift, k, kind == 1);
            (C::new(0.0, 0.0), if kind == 1 { "zero-start-on-zero-root" } else { "zero-start" })
        }
        3 => {
            // exhausted cap: first update ~ distance >> tol
            expect_err = true;
            n_max = rng.below(2);
            (p.roots[k] + dir * rho * rng.r(0.5, 0.95), "cap")
        }
        _ => (p.roots[k] + dir * rho * rng.f(), "regular"),
    };
    let tol = if expect_err { tol.min(1e-6) } else { tol };
    if expect_err && rho < 1e-3 {
        return;
    }
    // a quarter of the polynomial objects carry a zero tolerance of their own, up to far above the
    // leading coefficient (set_tolerance after construction: nothing is purged)
    let zero_tol = if rng.chance(0.25) { Some(rng.log10(-6.0, 4.0)) } else { None };
    if zero_tol.is_some() {
        rep.count("polynomial_objects_with_their_own_zero_tolerance", 1);
    }
    probe::begin(u64::MAX);
    let res: Guarded<Result<C, String>> = if real {
        let lp = p.lib_real(zero_tol);
        probe::guard(|| newton_polynomial(start.re, &lp, tol, n_max).map(|x| C::new(x, 0.0)))
    } else {
        let lp = p.lib_complex(zero_tol);
        probe::guard(|| newton_polynomial(start, &lp, tol, n_max))
    };
    rep.eval();
    let name = "newton_polynomial";
    let z = p.roots[k];
    let result_str = match &res {
        Guarded::Ok(Ok(x)) => format!("Ok({:e} + {:e} i)", x.re, x.im),
        Guarded::Ok(Err(m)) => format!("Err({})", m),
        Guarded::Budget => "budget".into(),
        Guarded::Panic(m, l) => format!("panic '{}' at {}", m, l),
    };
    let cj = || J::obj().set("routine", name).set("polynomial", p.to_json()).set("polynomial_object_zero_tolerance", zero_tol.unwrap_or(1e-10)).set("start_re", start.re).set("start_im", start.im).set("start_kind", start_kind).set("target_root_re", z.re).set("target_root_im", z.im).set("basin_radius", rho).set("tol", tol).set("n_max", n_max).set("result", result_str.as_str());
    let h = p.hash(CaseHash::new("c08-np")).f(start.re).f(start.im).f(tol).u(n_max as u64);
    rep.count(&format!("{}/{}/{}", name, if real { "real" } else { "complex" }, start_kind), 1);
    match res {
        Guarded::Panic(m, l) => rep.violation(&format!("{}/panic", name), cj(), format!("panicked: '{}' at {}", m, l)),
        Guarded::Budget => {}
        Guarded::Ok(Ok(x)) => {
            if expect_err {
                rep.nontrivial(h.0);
                rep.violation(&format!("{}/ok-on-exhausted-cap", name), cj(), format!("n_max = {} cannot reach tol {:e} from distance {:e}, yet Ok", n_max, tol, (start - z).norm()));
                return;
            }
            if !(x.re.is_finite() && x.im.is_finite()) {
                rep.violation(&format!("{}/non-finite-result", name), cj(), "Ok with a non-finite value".into());
                return;
            }
            let err = (x - z).norm();
            let bound = K_TOL * tol + FLOOR * EPS * (p.ptilde(z.norm()) / p.dp_at_root(k) + z.norm());
            rep.max(&format!("{}/error_over_bound", name), err / bound);
            let moved = (start - z).norm() > 4.0 * tol;
            if moved || start_kind != "regular" {
                rep.nontrivial(h.0);
                if rep.wants_sample() && rep.cur_index % 13 == 4 {
                    rep.sample(cj().set("error", err).set("bound", bound));
                }
            }
            if !(err <= bound) {
                rep.violation(&format!("{}/wrong-root", name), cj(), format!("Ok is {:e} from the root the start belongs to (bound {:e}); start was {:e} away, basin radius {:e}", err, bound, (start - z).norm(), rho));
            }
        }
        Guarded::Ok(Err(m)) => {
            if expect_err {
                rep.nontrivial(h.0);
                rep.count(&format!("{}/err_expected/exhausted-cap", name), 1);
            } else {
                rep.violation(&format!("{}/err-on-regular-problem", name), cj(), format!("start inside the Newton basin of a simple root, result Err({})", m));
            }
        }
    }
}

fn muller_case(rng: &mut Rng, rep: &mut Report) {
    let real = rng.bool();
    let degree = 1 + rng.below(8);
    let p = gen_poly(rng, real, degree);
    if p.roots.len() != degree {
        return;
    }
    let mut tol = rng.log10(-10.0, -3.0);
    let n_max = 200;
    // "near": three distinct points within a quarter of the Newton basin radius of a root (the
    // region where Muller's error recurrence contracts), none of them within 10 tol of it, so a
    // step below tol can only occur once the iteration has converged. "wide": three arbitrary
    // distinct points in the disc; there a small step can occur by accident far from any root
    // (inherent to the stopping rule), so the residual is recorded but not asserted.
    let cands: Vec<usize> = (0..degree).filter(|k| !real || p.roots[*k].im == 0.0).collect();
    let near = !cands.is_empty() && rng.below(10) < 7;
    let mut pts: Vec<C> = vec![];
    let mut rho = 0.0;
    if near {
        let k = *rng.pick(&cands);
        rho = MULLER_RADIUS_FRACTION * basin_radius(&p, k);
        tol = tol.min(rho / 50.0);
        let mut guard = 0;
        while pts.len() < 3 && guard < 1000 {
            guard += 1;
            let d = rho * rng.r(0.2, 1.0);
            let z = p.roots[k] + if real { C::new(rng.sign() * d, 0.0) } else { C::from_polar(d, rng.r(0.0, std::f64::consts::TAU)) };
            if pts.iter().all(|w| (w - z).norm() >= 0.1 * rho) {
                pts.push(z);
            }
        }
        if pts.len() < 3 {
            return;
        }
        // complex type, one case in six: the last two points on one vertical line (equal real parts, imaginary
        // parts at least 0.1 rho apart) - D43: the third point's imaginary part was read from the second
        if !real && (pts[0].re.to_bits() >> 7) % 6 == 0 {
            let z = C::new(pts[1].re, pts[2].im);
            if (z - pts[1]).norm() >= 0.1 * rho && (z - pts[0]).norm() >= 0.1 * rho && (z - p.roots[k]).norm() >= 0.2 * rho {
                pts[2] = z;
                rep.count("muller_polynomial/near/last_two_points_on_a_vertical_line", 1);
            }
        }
    } else {
        while pts.len() < 3 {
            let z = if real { C::new(rng.r(-DISC, DISC), 0.0) } else { C::from_polar(DISC * rng.f().sqrt(), rng.r(0.0, std::f64::consts::TAU)) };
            if pts.iter().all(|w| (w - z).norm() >= 0.05) {
                pts.push(z);
            }
        }
    }
    let class = if near { "near" } else { "wide" };
    // a quarter of the polynomial objects carry a zero tolerance of their own, up to far above the
    // leading coefficient (set_tolerance after construction: nothing is purged)
    let zero_tol = if rng.chance(0.25) { Some(rng.log10(-6.0, 4.0)) } else { None };
    if zero_tol.is_some() {
        rep.count("polynomial_objects_with_their_own_zero_tolerance", 1);
    }
    probe::begin(u64::MAX);
    let res: Guarded<Result<C, String>> = if real {
        let lp = p.lib_real(zero_tol);
        probe::guard(|| muller_polynomial((pts[0].re, pts[1].re, pts[2].re), &lp, tol, n_max))
    } else {
        let lp = p.lib_complex(zero_tol);
        probe::guard(|| muller_polynomial((pts[0], pts[1], pts[2]), &lp, tol, n_max))
    };
    rep.eval();
    let name = "muller_polynomial";
    let result_str = match &res {
        Guarded::Ok(Ok(x)) => format!("Ok({:e} + {:e} i)", x.re, x.im),
        Guarded::Ok(Err(m)) => format!("Err({})", m),
        Guarded::Budget => "budget".into(),
        Guarded::Panic(m, l) => format!("panic '{}' at {}", m, l),
    };
    let cj = || J::obj().set("routine", name).set("polynomial", p.to_json()).set("polynomial_object_zero_tolerance", zero_tol.unwrap_or(1e-10)).set("class", class).set("radius_around_root", rho).set("initial_re", J::fs(&pts.iter().map(|z| z.re).collect::<Vec<_>>())).set("initial_im", J::fs(&pts.iter().map(|z| z.im).collect::<Vec<_>>())).set("tol", tol).set("n_max", n_max).set("result", result_str.as_str());
    let mut h = p.hash(CaseHash::new("c08-mu")).f(tol);
    for z in &pts {
        h = h.f(z.re).f(z.im);
    }
    rep.count(&format!("{}/{}/{}/runs", name, class, if real { "real" } else { "complex" }), 1);
    match res {
        Guarded::Panic(m, l) => rep.violation(&format!("{}/panic", name), cj(), format!("panicked: '{}' at {}", m, l)),
        Guarded::Budget => {}
        Guarded::Ok(Err(m)) => {
            rep.count(&format!("{}/{}/err_results", name, class), 1);
            if near {
                rep.violation(&format!("{}/err-on-regular-problem", name), cj(), format!("three distinct points inside the local convergence region of a simple root, result Err({})", m));
            }
        }
        Guarded::Ok(Ok(z)) => {
            rep.count(&format!("{}/{}/ok_results", name, class), 1);
            if !(z.re.is_finite() && z.im.is_finite()) {
                rep.violation(&format!("{}/non-finite-result", name), cj(), "Ok with a non-finite value".into());
                return;
            }
            let (pz, dpz) = p.horner(z);
            let bound = K_TOL * tol * dpz.norm() + FLOOR * EPS * p.ptilde(z.norm());
            let dist = p.roots.iter().map(|w| (w - z).norm()).fold(f64::INFINITY, f64::min);
            if !near {
                if pz.norm() <= bound {
                    rep.count(&format!("{}/wide/ok_results_within_residual_bound", name), 1);
                }
                return;
            }
            rep.max(&format!("{}/residual_over_bound", name), pz.norm() / bound);
            rep.max(&format!("{}/root_distance_over_tol", name), dist / tol);
            rep.nontrivial(h.0);
            if rep.wants_sample() && rep.cur_index % 13 == 6 {
                rep.sample(cj().set("residual", pz.norm()).set("bound", bound).set("distance_to_nearest_root", dist));
            }
            if !(pz.norm() <= bound) {
                rep.violation(&format!("{}/not-a-root", name), cj(), format!("|p(z)| = {:e} exceeds 4 tol |p'(z)| + 64 eps ptilde = {:e}; nearest root {:e} away (tol {:e})", pz.norm(), bound, dist, tol));
            }
        }
    }
}

/// Even quadratics s (x^2 - c) with the start triple (-a, a, 0): the parabola through the three points is
/// the polynomial itself, its vertex is the third point (the linear coefficient of Muller's parabola is
/// exactly zero), and the first iterate is a root. c > 0: real and complex type; c < 0: complex type.
fn muller_symmetric_case(rng: &mut Rng, rep: &mut Report) {
    let name = "muller_polynomial";
    let real = rng.bool();
    let c = if real { rng.log10(-2.0, 2.0) } else { rng.sign() * rng.log10(-2.0, 2.0) };
    let s = rng.sign() * rng.log10(-1.0, 1.0);
    let a = c.abs().sqrt() * rng.r(0.3, 3.0);
    let tol = rng.log10(-10.0, -3.0);
    let root = if c > 0.0 { C::new(c.sqrt(), 0.0) } else { C::new(0.0, (-c).sqrt()) };
    let p = Poly { real, lead: s, roots: vec![root, -root], coef: vec![C::new(-s * c, 0.0), C::new(0.0, 0.0), C::new(s, 0.0)] };
    probe::begin(u64::MAX);
    let res: Guarded<Result<C, String>> = if real {
        let lp = p.lib_real(None);
        probe::guard(|| muller_polynomial((-a, a, 0.0), &lp, tol, 100))
    } else {
        let lp = p.lib_complex(None);
        probe::guard(|| muller_polynomial((C::new(-a, 0.0), C::new(a, 0.0), C::new(0.0, 0.0)), &lp, tol, 100))
    };
    rep.eval();
    rep.count("muller_polynomial/symmetric_triples_on_even_quadratics", 1);
    let cj = || J::obj().set("routine", name).set("polynomial", p.to_json()).set("class", "even quadratic, start triple (-a, a, 0)").set("a", a).set("tol", tol).set("n_max", 100u64);
    match res {
        Guarded::Panic(m, l) => rep.violation(&format!("{}/panic", name), cj(), format!("panicked: '{}' at {}", m, l)),
        Guarded::Budget => {}
        Guarded::Ok(Err(m)) => rep.violation(&format!("{}/err-on-regular-problem", name), cj(), format!("the parabola through (-a, a, 0) is the polynomial itself, result Err({})", m)),
        Guarded::Ok(Ok(z)) => {
            let (pz, dpz) = p.horner(z);
            let bound = K_TOL * tol * dpz.norm() + FLOOR * EPS * p.ptilde(z.norm());
            rep.nontrivial(CaseHash::new("c08-mu-sym").f(c).f(s).f(a).f(tol).0);
            if !(z.re.is_finite() && z.im.is_finite()) || !(pz.norm() <= bound) {
                rep.violation(&format!("{}/not-a-root", name), cj().set("result_re", z.re).set("result_im", z.im), format!("|p(z)| = {:e} exceeds the bound {:e} at the returned z = {:e} + {:e} i", pz.norm(), bound, z.re, z.im));
            }
        }
    }
}

fn anchor_case(rep: &mut Report, i: u64) {
    // seed-independent members of both workloads
    let mut rng = Rng::for_case(99, "c08-poly-anchor", i);
    if i % 2 == 0 {
        newton_case(&mut rng, rep);
    } else {
        muller_case(&mut rng, rep);
    }
}

pub fn stages(ctx: &Ctx) -> Vec<Stage> {
    let seed = ctx.seed;
    let tier = ctx.tier;
    vec![
        Stage::new("poly-anchors", 400, move |i, rep| anchor_case(rep, i)),
        Stage::new("newton-poly", tier.pick(60_000, 2_500_000), move |i, rep| {
            let mut rng = Rng::for_case(seed, "c08-np", i);
            newton_case(&mut rng, rep);
        }),
        Stage::new("muller", tier.pick(60_000, 2_500_000), move |i, rep| {
            let mut rng = Rng::for_case(seed, "c08-mu", i);
            if i % 20 == 7 {
                muller_symmetric_case(&mut rng, rep);
                return;
            }
            muller_case(&mut rng, rep);
        }),
    ]
}

pub fn thresholds(ctx: &Ctx, rep: &Report) -> Vec<Threshold> {
    let q = |a: f64, b: f64| ctx.tier.pick(a, b);
    let mut t = vec![];
    t.push(Threshold { what: "polynomial root finders called on objects that carry a zero tolerance of their own".into(), required: ctx.tier.pick(8_000.0, 160_000.0), observed: rep.counter("polynomial_objects_with_their_own_zero_tolerance") as f64 });
    t.push(Threshold { what: "newton_polynomial: clustered-root cases whose derivative at the target root is below the tolerance".into(), required: ctx.tier.pick(600.0, 12_000.0), observed: rep.counter("newton_polynomial/clustered_cases_with_derivative_at_root_below_tol") as f64 });
    for f in ["real", "complex"] {
        t.push(Threshold { what: format!("newton_polynomial {}: regular starts", f), required: q(4_000.0, 100_000.0), observed: rep.counter(&format!("newton_polynomial/{}/regular", f)) as f64 });
        t.push(Threshold { what: format!("newton_polynomial {}: starts at exactly 0 beside the root", f), required: q(500.0, 12_000.0), observed: rep.counter(&format!("newton_polynomial/{}/zero-start", f)) as f64 });
        t.push(Threshold { what: format!("newton_polynomial {}: starts on the root", f), required: q(500.0, 12_000.0), observed: rep.counter(&format!("newton_polynomial/{}/on-root", f)) as f64 });
    }
    t.push(Threshold { what: "newton_polynomial: exhausted caps (Err expected)".into(), required: q(1_000.0, 25_000.0), observed: rep.counter("newton_polynomial/err_expected/exhausted-cap") as f64 });
    let ok = rep.counter("muller_polynomial/near/ok_results") as f64;
    t.push(Threshold { what: "muller_polynomial: complex triples near a root whose last two points share their real part".into(), required: q(800.0, 7_000.0), observed: rep.counter("muller_polynomial/near/last_two_points_on_a_vertical_line") as f64 });
    t.push(Threshold { what: "muller_polynomial: symmetric start triples on even quadratics".into(), required: q(2_500.0, 20_000.0), observed: rep.counter("muller_polynomial/symmetric_triples_on_even_quadratics") as f64 });
    t.push(Threshold { what: "muller_polynomial: Ok results judged (points near a root)".into(), required: q(8_000.0, 200_000.0), observed: ok });
    t.push(Threshold { what: "muller_polynomial: runs from three arbitrary points (panic / non-finite only)".into(), required: q(3_000.0, 80_000.0), observed: (rep.counter("muller_polynomial/wide/ok_results") + rep.counter("muller_polynomial/wide/err_results")) as f64 });
    t
}
