//! newton / secant over `Complex<f64>`: affine systems ("affine systems are solved from any start").
//! Added in round 11 after an author of a seeded change reported that the unchanged `secant` ends in
//! Err on a perfectly conditioned complex affine system whose first step is an isotropic vector
//! (s^T s = 0: the Broyden update used the plain transpose of the shift) - D48.
//!
//! Two classes: (i) random complex matrices A = A_re + i B with controlled conditioning, random complex
//! roots and starts; (ii) the exact class: Gaussian-integer triangular matrices, dyadic roots, dyadic
//! finite-difference widths and a start offset that is a multiple of an isotropic vector (1, +-i, ...),
//! so that the finite-difference Jacobian is exact and the first step lands on the root bit for bit.

use super::EPS;
use crate::json::J;
use crate::probe::{self, Guarded};
use crate::report::*;
use crate::rng::{CaseHash, Rng};
use bacon_sci::roots::{newton, secant};
use nalgebra::{Const, DMatrix, DimMin, SMatrix, SVector};
use num_complex::Complex;
use std::cell::Cell;

type C = Complex<f64>;

/// same bound as the real systems: |x - r| <= K_TOL tol max(1,|r|) + FLOOR eps cond (1 + |r| + |x0 - r|)
/// (the start distance enters because an affine system is solved from *any* start: the first step
/// carries the rounding of a vector of that size). Observed maxima (quick + thorough, seeds 1..6):
/// error/bound 0.011 (newton), 0.0063 (secant).
const K_TOL: f64 = 4.0;
const FLOOR: f64 = 64.0;
const PROBE_BUDGET: u64 = 100_000;

struct CSys {
    n: usize,
    a: Vec<C>,
    r: Vec<C>,
    cond: f64,
    class: &'static str,
}

fn cnorm(v: &[C]) -> f64 {
    v.iter().map(|z| z.norm_sqr()).sum::<f64>().sqrt()
}

fn cj(v: &[C]) -> J {
    J::Arr(v.iter().map(|z| J::Arr(vec![J::from(z.re), J::from(z.im)])).collect())
}

fn singular_values(n: usize, a: &[C]) -> (f64, f64) {
    let m = DMatrix::<C>::from_row_slice(n, n, a);
    let sv = m.singular_values();
    let mut lo = f64::INFINITY;
    let mut hi = 0.0f64;
    for s in sv.iter() {
        lo = lo.min(*s);
        hi = hi.max(*s);
    }
    (lo, hi)
}

struct Raw {
    res: Guarded<Result<Vec<C>, String>>,
    fcalls: u64,
}

fn call<const S: usize>(sys: &CSys, start: &[C], h: Option<f64>, tol: f64, n_max: usize) -> Raw
where
    Const<S>: DimMin<Const<S>, Output = Const<S>>,
{
    let fc = Cell::new(0u64);
    let n = sys.n;
    let f = |x: &[C]| -> SVector<C, S> {
        fc.set(fc.get() + 1);
        probe::tick_or_panic();
        let mut out = [C::new(0.0, 0.0); 4];
        for i in 0..n {
            let mut s = C::new(0.0, 0.0);
            for j in 0..n {
                s += sys.a[i * n + j] * (x[j] - sys.r[j]);
            }
            out[i] = s;
        }
        SVector::<C, S>::from_iterator(out[..S].iter().copied())
    };
    let jac = |_x: &[C]| -> SMatrix<C, S, S> {
        probe::tick_or_panic();
        SMatrix::<C, S, S>::from_row_slice(&sys.a[..S * S])
    };
    probe::begin(PROBE_BUDGET);
    let res = probe::guard(|| match h {
        None => newton::<C, _, _, S>(start, f, jac, tol, n_max).map(|v| v.iter().copied().collect::<Vec<C>>()),
        Some(h) => secant::<C, _, S>(start, f, h, tol, n_max).map(|v| v.iter().copied().collect::<Vec<C>>()),
    });
    Raw { res, fcalls: fc.get() }
}

fn run(rep: &mut Report, sys: &CSys, start: &[C], start_kind: &'static str, h: Option<f64>, tol: f64, n_max: usize) {
    let raw = match sys.n {
        1 => call::<1>(sys, start, h, tol, n_max),
        2 => call::<2>(sys, start, h, tol, n_max),
        3 => call::<3>(sys, start, h, tol, n_max),
        _ => call::<4>(sys, start, h, tol, n_max),
    };
    rep.eval();
    let name = if h.is_some() { "secant" } else { "newton" };
    rep.count(&format!("{}/complex/runs", name), 1);
    rep.count(&format!("{}/complex/{}/{}", name, sys.class, start_kind), 1);
    let result_str = match &raw.res {
        Guarded::Ok(Ok(x)) => format!("Ok({:?})", x),
        Guarded::Ok(Err(m)) => format!("Err({})", m),
        Guarded::Budget => "evaluation budget exhausted".to_string(),
        Guarded::Panic(m, l) => format!("panic '{}' at {}", m, l),
    };
    let n = sys.n;
    let case = || {
        let mut j = J::obj()
            .set("routine", name)
            .set("scalar", "Complex<f64>")
            .set("F", "F(x) = A (x - r), complex entries as [re, im]")
            .set("dim", n)
            .set("A_rows", J::Arr((0..n).map(|i| cj(&sys.a[i * n..(i + 1) * n])).collect()))
            .set("r", cj(&sys.r))
            .set("cond", sys.cond)
            .set("class", sys.class)
            .set("start", cj(start))
            .set("start_kind", start_kind)
            .set("tol", tol)
            .set("n_max", n_max);
        if let Some(h) = h {
            j.put("h", h);
        }
        j.put("f_calls", raw.fcalls);
        j.put("result", result_str.as_str());
        j
    };
    let mut hsh = CaseHash::new("c08-csys").s(name).u(n as u64).f(tol).u(n_max as u64).f(h.unwrap_or(0.0));
    for z in sys.a.iter().chain(sys.r.iter()).chain(start.iter()) {
        hsh = hsh.f(z.re).f(z.im);
    }
    rep.nontrivial(hsh.0);
    if rep.wants_sample() && rep.cur_index % 97 == 3 {
        rep.sample(case());
    }
    let sig = |s: &str| format!("{}/complex/{}", name, s);
    match &raw.res {
        Guarded::Panic(m, l) => rep.violation(&sig("panic"), case(), format!("{} over Complex<f64> panicked: '{}' at {}", name, m, l)),
        Guarded::Budget => rep.violation(&sig("no-termination"), case(), format!("still calling back after {} evaluations (n_max = {})", PROBE_BUDGET, n_max)),
        Guarded::Ok(Err(m)) => rep.violation(&sig("err-on-regular-problem"), case(), format!("regular affine system over Complex<f64> (cond {:.1}, start kind {}), result Err({})", sys.cond, start_kind, m)),
        Guarded::Ok(Ok(x)) => {
            let fbound = if h.is_some() { n_max as u64 + 2 * n as u64 + 1 } else { n_max as u64 };
            if raw.fcalls > fbound {
                rep.violation(&sig("beyond-iteration-cap"), case(), format!("{} calls of f (bound {})", raw.fcalls, fbound));
                return;
            }
            if x.iter().any(|z| !z.re.is_finite() || !z.im.is_finite()) {
                rep.violation(&sig("non-finite-result"), case(), format!("Ok with a non-finite component: {:?}", x));
                return;
            }
            let rn = cnorm(&sys.r);
            let dist = cnorm(&start.iter().zip(&sys.r).map(|(a, b)| a - b).collect::<Vec<_>>());
            let err = cnorm(&x.iter().zip(&sys.r).map(|(a, b)| a - b).collect::<Vec<_>>());
            let bound = K_TOL * tol * rn.max(1.0) + FLOOR * EPS * sys.cond * (1.0 + rn + dist);
            rep.max(&format!("{}/complex/error_over_bound", name), err / bound);
            if !(err <= bound) {
                rep.violation(&sig("wrong-point"), case(), format!("Ok({:?}) is {:e} from the root, bound {:e} (tol {:e})", x, err, bound, tol));
            }
        }
    }
}

fn random_sys(rng: &mut Rng, n: usize) -> CSys {
    let real = super::systems::gen_sys(rng, n, true);
    let smin = 1.0 / real.ainv_norm;
    // imaginary part of Frobenius norm <= 0.4 sigma_min: sigma_min(A) >= 0.6 sigma_min(A_re)
    let mut b: Vec<f64> = (0..n * n).map(|_| rng.normal()).collect();
    let bn = b.iter().map(|x| x * x).sum::<f64>().sqrt().max(1e-300);
    let amp = 0.4 * smin * rng.f();
    for v in b.iter_mut() {
        *v *= amp / bn;
    }
    let a: Vec<C> = real.a.iter().zip(&b).map(|(x, y)| C::new(*x, *y)).collect();
    let scale = match rng.below(5) {
        0 => 0.0,
        1 => 100.0,
        2 => 0.01,
        _ => 1.0,
    };
    let r: Vec<C> = (0..n).map(|_| C::new(rng.r(-1.0, 1.0) * scale, rng.r(-1.0, 1.0) * scale)).collect();
    let (lo, hi) = singular_values(n, &a);
    CSys { n, a, r, cond: hi / lo, class: "random" }
}

/// Gaussian-integer upper or lower triangular matrix with diagonal in {+-1, +-2, +-4} x {1, i}; dyadic root
fn exact_sys(rng: &mut Rng, n: usize) -> CSys {
    let mut a = vec![C::new(0.0, 0.0); n * n];
    let upper = rng.bool();
    for i in 0..n {
        for j in 0..n {
            if i == j {
                let m = [1.0, 2.0, 4.0][rng.below(3)] * if rng.bool() { 1.0 } else { -1.0 };
                a[i * n + j] = if rng.below(4) == 0 { C::new(0.0, m) } else { C::new(m, 0.0) };
            } else if (upper && j > i) || (!upper && j < i) {
                if rng.bool() {
                    a[i * n + j] = C::new(rng.below(3) as f64 - 1.0, rng.below(3) as f64 - 1.0);
                }
            }
        }
    }
    let dy = |rng: &mut Rng| (rng.below(65) as f64 - 32.0) / 16.0;
    let zero_root = rng.below(4) == 0;
    let r: Vec<C> = (0..n).map(|_| if zero_root { C::new(0.0, 0.0) } else { C::new(dy(rng), dy(rng)) }).collect();
    let (lo, hi) = singular_values(n, &a);
    CSys { n, a, r, cond: hi / lo, class: "exact" }
}

/// isotropic direction: components (1, +-i) on a random pair of coordinates, optionally a second pair
fn isotropic(rng: &mut Rng, n: usize) -> Vec<C> {
    let mut v = vec![C::new(0.0, 0.0); n];
    let i = rng.below(n);
    let mut j = rng.below(n - 1);
    if j >= i {
        j += 1;
    }
    let s = if rng.bool() { 1.0 } else { -1.0 };
    v[i] = C::new(1.0, 0.0);
    v[j] = C::new(0.0, s);
    if n == 4 && rng.bool() {
        let rest: Vec<usize> = (0..4).filter(|k| *k != i && *k != j).collect();
        v[rest[0]] = C::new(0.0, 1.0);
        v[rest[1]] = C::new(if rng.bool() { 1.0 } else { -1.0 }, 0.0);
    }
    // a common unimodular dyadic-friendly factor keeps s^T s = 0
    let f = [C::new(1.0, 0.0), C::new(0.0, 1.0), C::new(1.0, 1.0), C::new(2.0, -1.0)][rng.below(4)];
    v.iter().map(|z| z * f).collect()
}

fn case(rng: &mut Rng, rep: &mut Report, i: u64) {
    let tol = rng.log10(-10.0, -3.0);
    let n_max = 30 + rng.below(70);
    if i % 2 == 0 {
        let n = 1 + rng.below(4);
        let sys = random_sys(rng, n);
        let kind = rng.below(8);
        let (start, kind): (Vec<C>, &'static str) = match kind {
            0 => (sys.r.clone(), "on-root"),
            1 => (vec![C::new(0.0, 0.0); n], "origin"),
            2 if n >= 2 => {
                let d = rng.log10(-2.0, 1.0);
                (sys.r.iter().zip(isotropic(rng, n)).map(|(r, v)| r + v * d).collect(), "isotropic-offset")
            }
            _ => {
                let rad = 50.0 * rng.f();
                (sys.r.iter().map(|r| r + C::new(rng.normal(), rng.normal()) * (rad / (2.0 * n as f64).sqrt())).collect(), "affine-far")
            }
        };
        run(rep, &sys, &start, kind, None, tol, n_max);
        run(rep, &sys, &start, kind, Some(rng.log10(-6.0, -3.0)), tol, n_max);
    } else {
        let n = 2 + rng.below(3);
        let sys = exact_sys(rng, n);
        let d = [4.0, 2.0, 1.0, 0.5, 0.25, 0.0625][rng.below(6)];
        let start: Vec<C> = sys.r.iter().zip(isotropic(rng, n)).map(|(r, v)| r + v * d).collect();
        let h = [0.5, 0.25, 0.125, 0.0625][rng.below(4)];
        run(rep, &sys, &start, "isotropic-offset", None, tol, n_max);
        run(rep, &sys, &start, "isotropic-offset", Some(h), tol, n_max);
    }
}

fn anchor(rep: &mut Report, i: u64) {
    // the reported input: A = [[2,1],[0,4]], r = (0.5+0.25i, -1+2i), x0 = r + (1, i), h = 0.5, tol 1e-8, cap 200;
    // the same with the root at the origin and start (2+2i)(1, i); A = 2 I; offset (1, -i)
    let c = |re: f64, im: f64| C::new(re, im);
    let mk = |a: Vec<C>, r: Vec<C>| {
        let (lo, hi) = singular_values(2, &a);
        CSys { n: 2, a, r, cond: hi / lo, class: "anchor" }
    };
    let (sys, off): (CSys, Vec<C>) = match i % 4 {
        0 => (mk(vec![c(2.0, 0.0), c(1.0, 0.0), c(0.0, 0.0), c(4.0, 0.0)], vec![c(0.5, 0.25), c(-1.0, 2.0)]), vec![c(1.0, 0.0), c(0.0, 1.0)]),
        1 => (mk(vec![c(2.0, 0.0), c(1.0, 0.0), c(0.0, 0.0), c(4.0, 0.0)], vec![c(0.0, 0.0), c(0.0, 0.0)]), vec![c(2.0, 2.0), c(-2.0, 2.0)]),
        2 => (mk(vec![c(2.0, 0.0), c(0.0, 0.0), c(0.0, 0.0), c(2.0, 0.0)], vec![c(0.5, 0.25), c(-1.0, 2.0)]), vec![c(1.0, 0.0), c(0.0, 1.0)]),
        _ => (mk(vec![c(2.0, 0.0), c(1.0, 0.0), c(0.0, 0.0), c(4.0, 0.0)], vec![c(0.5, 0.25), c(-1.0, 2.0)]), vec![c(1.0, 0.0), c(0.0, -1.0)]),
    };
    let start: Vec<C> = sys.r.iter().zip(&off).map(|(r, o)| r + o).collect();
    let tol = [1e-8, 1e-4, 1e-10][((i / 4) % 3) as usize];
    run(rep, &sys, &start, "isotropic-offset", None, tol, 200);
    run(rep, &sys, &start, "isotropic-offset", Some(0.5), tol, 200);
}

pub fn stages(ctx: &Ctx) -> Vec<Stage> {
    let seed = ctx.seed;
    vec![
        Stage::new("complex-systems-anchors", 12, move |i, rep| anchor(rep, i)),
        Stage::new("complex-systems", ctx.tier.pick(40_000, 400_000), move |i, rep| {
            let mut rng = if i < 400 { Rng::for_case(4242, "c08-csys-anchor", i) } else { Rng::for_case(seed, "c08-csys", i) };
            case(&mut rng, rep, i);
        }),
    ]
}

pub fn thresholds(ctx: &Ctx, rep: &Report) -> Vec<Threshold> {
    let q = |a: f64, b: f64| ctx.tier.pick(a, b);
    let mut t = vec![];
    for m in ["newton", "secant"] {
        t.push(Threshold { what: format!("{}: affine systems over Complex<f64>", m), required: q(30_000.0, 300_000.0), observed: rep.counter(&format!("{}/complex/runs", m)) as f64 });
        t.push(Threshold {
            what: format!("{}: exact complex systems (Gaussian integers, dyadic data) started an isotropic vector away from the root", m),
            required: q(15_000.0, 150_000.0),
            observed: rep.counter(&format!("{}/complex/exact/isotropic-offset", m)) as f64,
        });
    }
    t
}
