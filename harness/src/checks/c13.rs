//! C13 — polynomial evaluation, calculus and coefficient access are mutually consistent.
//!
//! (1) calculus cases: evaluate / evaluate_derivative / derivative / antiderivative / integrate
//! against double-double Horner of exact term-wise calculus, and from_slice/get_coefficients
//! round trips; (2) history monitor: random sequences of set_coefficient / purge_coefficient /
//! purge_leading / assigning arithmetic, compared after every operation with a reference
//! coefficient map through get_coefficient(i), get_coefficients() and order().

#[path = "c11/polyref.rs"]
mod polyref;

use crate::json::J;
use crate::probe::{guard, Guarded};
use crate::report::*;
use crate::rng::{CaseHash, Rng};
use bacon_sci::polynomial::Polynomial;
use polyref::*;

// ---- frozen constants; unit_n(x) = (n+1)·eps·sum|c_k||x|^k
/// |evaluate(x) - p(x)| <= K·unit                                             (observed 0.64)
const K_EVAL: f64 = 8.0;
/// derivative values (evaluate_derivative(x).1 and derivative().evaluate(x)) against
/// sum k c_k x^(k-1): K·(n+1)·eps·sum k|c_k||x|^(k-1)                          (observed 0.55)
const K_DERIV: f64 = 8.0;
/// term-wise coefficients of derivative(), antiderivative(C), antiderivative(C).derivative(): K·eps·|exact| (observed 1.00; analysis: three roundings, 1.5)
const K_TERM: f64 = 8.0;
/// integrate(a,b) against A(b) - A(a), and additivity: K·(n+2)·eps·sum|A_k|X^k, X = max |end point| (observed 1.00 / 1.00)
const K_INT: f64 = 8.0;
/// assigning arithmetic inside histories: K·eps·(magnitude of the operands of that coefficient) (observed 1.41)
const K_ARITH: f64 = 8.0;

pub fn meta() -> CheckMeta {
    CheckMeta {
        id: "C13",
        level: "exploration",
        rule: "calculus cases: G-poly of degree 0..30, real and complex, 4 evaluation points in the disc |x| <= 2 (real axis for f64), integration end points in the same disc; history cases: 5..40 operations out of set_coefficient (absolute power or relative to the current order, ordinary / zero / below-tolerance values), purge_coefficient (below, at, one above and further above the current order), purge_leading, += / -= polynomial (owned and borrowed), *= /= += -= scalar, checked after every operation. Non-trivial: a history that contains a purge at or beyond the current order, or a calculus case of degree >= 5 evaluated at some |x| > 1; distinct = hash of the generated input".into(),
        assumptions: vec![
            "reference values: double-double Horner on the exact term-wise coefficients (k·c_k and c_k/(k+1) formed in double-double)".into(),
            "history monitor: 'pop' and 'set to zero' are indistinguishable (only get_coefficient(i) for all i <= highest power + 2, get_coefficients() and order() consistency are compared); order() itself is only required to be consistent with the readable coefficients".into(),
            "purge_leading may drop only stored leading coefficients whose real and imaginary parts are both <= tolerance in modulus, and must leave a constant or a leading coefficient that is not strictly inside the tolerance (the method's documented contract; signature history/purge_leading-incomplete)".into(),
            "after an assigning arithmetic operation has been verified to K_ARITH·eps the reference map is re-synchronised to the library's values, so rounding does not accumulate over a history".into(),
        ],
        exhaustive: false,
        stuck_is_violation: true,
    }
}

fn zero() -> C64 {
    C64::new(0.0, 0.0)
}
fn same(a: C64, b: C64) -> bool {
    a.re == b.re && a.im == b.im
}

// ------------------------------------------------------------------ calculus cases

#[derive(Clone)]
struct Calc {
    complex: bool,
    c: Vec<C64>,
    tol: Option<f64>,
    from_slice: bool,
    xs: Vec<C64>,
    konst: C64,
    ends: [C64; 3],
    shape: String,
}
impl Calc {
    fn to_json(&self) -> J {
        J::obj()
            .set("field", field_name(self.complex))
            .set("polynomial", pj(self.complex, &self.c))
            .set("tolerance", tolj(self.tol))
            .set("built_with", if self.from_slice { "from_slice (coefficients reversed)" } else { "collect() (ascending)" })
            .set("points", J::Arr(self.xs.iter().map(|x| cj(*x)).collect()))
            .set("antiderivative_constant", cj(self.konst))
            .set("integration_end_points", J::Arr(self.ends.iter().map(|x| cj(*x)).collect()))
            .set("shape", self.shape.as_str())
    }
    fn hash(&self) -> u64 {
        let mut h = hash_poly(CaseHash::new("c13-calc").u(self.complex as u64), &self.c);
        for x in self.xs.iter().chain(self.ends.iter()) {
            h = h.f(x.re).f(x.im);
        }
        h.0
    }
}

/// Unwrap a guarded call or report the panic and leave the case.
macro_rules! g {
    ($rep:expr, $case:expr, $what:expr, $e:expr) => {
        match guard(|| $e) {
            Guarded::Ok(v) => v,
            Guarded::Panic(m, l) => {
                $rep.violation(&format!("{}/panic", $what), $case, format!("{} panicked: '{}' at {}", $what, m, l));
                return;
            }
            Guarded::Budget => return,
        }
    };
}

fn term_check<N: Sc>(rep: &mut Report, c: &Calc, what: &str, p: &Polynomial<N>, exp: &[C64], exact_first: bool) -> bool {
    let allow = tol_allow(c.complex, c.tol.unwrap_or(DEFAULT_TOL));
    let order = p.order();
    for i in 0..exp.len().max(order + 1) + 2 {
        let got = p.get_coefficient(i).to_c();
        let e = exp.get(i).copied().unwrap_or(zero());
        let err = (got - e).norm();
        let u = EPS * e.norm();
        let al = if i > order { allow } else { 0.0 };
        let k = if exact_first && i == 0 { 0.0 } else { K_TERM };
        if u > 0.0 {
            rep.max("termwise_coefficient_err_over_eps|exact|", (err - al).max(0.0) / u);
        }
        if !(err <= k * u + al) {
            rep.violation(&format!("{}/coefficients", what), c.to_json(), format!("{} ({}): coefficient of x^{} is {:e}{:+e}i, exact term-wise value {:e}{:+e}i, difference {:e} > {:e}", what, N::NAME, i, got.re, got.im, e.re, e.im, err, k * u + al));
            return false;
        }
    }
    true
}

fn run_calc<N: Sc>(rep: &mut Report, c: &Calc) {
    let fld = N::NAME;
    let n = c.c.len() - 1;
    let n1 = (n + 1) as f64;
    // ---- build / read back
    let desc: Vec<N> = c.c.iter().rev().map(|v| N::from_c(*v)).collect();
    rep.eval();
    let p: Polynomial<N> = g!(rep, c.to_json(), "from_slice", if c.from_slice { Polynomial::from_slice(&desc) } else { c.c.iter().map(|v| N::from_c(*v)).collect::<Polynomial<N>>() });
    let back = g!(rep, c.to_json(), "get_coefficients", p.get_coefficients());
    rep.count("roundtrips", 1);
    let rt_ok = back.len() == desc.len() && back.iter().zip(&desc).all(|(a, b)| same(a.to_c(), b.to_c()));
    if !rt_ok {
        rep.violation("access/roundtrip", c.to_json(), format!("get_coefficients() of the freshly built polynomial ({}) returned {} values {:?}, built from {} values", fld, back.len(), back.iter().map(|v| v.to_c()).collect::<Vec<_>>(), desc.len()));
        return;
    }
    let ord = g!(rep, c.to_json(), "order", p.order());
    for i in 0..n + 4 {
        let got = g!(rep, c.to_json(), "get_coefficient", p.get_coefficient(i)).to_c();
        let e = c.c.get(i).copied().unwrap_or(zero());
        if !same(got, e) {
            rep.violation("access/roundtrip", c.to_json(), format!("get_coefficient({}) of the freshly built polynomial ({}) is {:e}{:+e}i, built with {:e}{:+e}i (order() = {})", i, fld, got.re, got.im, e.re, e.im, ord));
            return;
        }
    }
    let mut p = p;
    if let Some(t) = c.tol {
        let _ = p.set_tolerance(t);
    }
    // exact term-wise calculus in double-double
    let cd: Vec<CDd> = c.c.iter().map(|v| CDd::from(*v)).collect();
    let dcoef: Vec<CDd> = if n == 0 { vec![CDd::zero()] } else { (1..=n).map(|k| cd[k].mul_f(k as f64)).collect() };
    let dabs: Vec<C64> = dcoef.iter().map(|v| v.val()).collect();
    let mut acoef: Vec<CDd> = vec![CDd::from(c.konst)];
    for k in 0..=n {
        acoef.push(cd[k].div_f((k + 1) as f64));
    }
    let aabs: Vec<C64> = acoef.iter().map(|v| v.val()).collect();

    // ---- derivative() and antiderivative(C), coefficient-wise
    rep.evals(3);
    let dp = g!(rep, c.to_json(), "derivative", p.derivative());
    if !term_check(rep, c, "derivative", &dp, &dabs, false) {
        return;
    }
    let kn = N::from_c(c.konst);
    let ap = g!(rep, c.to_json(), "antiderivative", p.antiderivative(kn));
    if !term_check(rep, c, "antiderivative", &ap, &aabs, true) {
        return;
    }
    let adp = g!(rep, c.to_json(), "antiderivative-derivative", ap.derivative());
    if !term_check(rep, c, "antiderivative-derivative", &adp, &c.c, false) {
        return;
    }
    rep.count("termwise_checks", 3);

    // ---- values
    let mut big = false;
    for x in &c.xs {
        let xn = N::from_c(*x);
        let s = abs_eval(&c.c, *x);
        let sd = abs_eval(&dabs, *x);
        let unit = n1 * EPS * s;
        let unit_d = n1 * EPS * sd;
        let r = horner_dd(&cd, *x).val();
        let rd = horner_dd(&dcoef, *x).val();
        rep.evals(3);
        let v = g!(rep, c.to_json().set("x", cj(*x)), "evaluate", p.evaluate(xn)).to_c();
        let (v2, d2) = g!(rep, c.to_json().set("x", cj(*x)), "evaluate_derivative", p.evaluate_derivative(xn));
        let (v2, d2) = (v2.to_c(), d2.to_c());
        let d3 = g!(rep, c.to_json().set("x", cj(*x)), "derivative-evaluate", dp.evaluate(xn)).to_c();
        rep.count("evaluation_points", 1);
        let chk = |rep: &mut Report, what: &str, sig: &str, got: C64, exact: C64, unit: f64, k: f64, maxname: &str| -> bool {
            let err = (got - exact).norm();
            if unit > 0.0 {
                rep.max(maxname, err / unit);
            }
            if !(err <= k * unit) {
                rep.violation(sig, c.to_json().set("x", cj(*x)), format!("{} at x = {:e}{:+e}i ({}, degree {}): got {:e}{:+e}i, exact {:e}{:+e}i, difference {:e} > {:e} = {}·(n+1)·eps·{:e}", what, x.re, x.im, fld, n, got.re, got.im, exact.re, exact.im, err, k * unit, k, unit / (n1 * EPS)));
                return false;
            }
            true
        };
        let ok = chk(rep, "evaluate(x)", "evaluate/value", v, r, unit, K_EVAL, "evaluate_err_over_(n+1)eps.sum|c_k||x|^k")
            && chk(rep, "evaluate_derivative(x).0", "evaluate_derivative/value", v2, r, unit, K_EVAL, "evaluate_err_over_(n+1)eps.sum|c_k||x|^k")
            && chk(rep, "evaluate_derivative(x).1", "evaluate_derivative/derivative", d2, rd, unit_d, K_DERIV, "derivative_value_err_over_(n+1)eps.sum.k|c_k||x|^(k-1)")
            && chk(rep, "derivative().evaluate(x)", "derivative/value", d3, rd, unit_d, K_DERIV, "derivative_value_err_over_(n+1)eps.sum.k|c_k||x|^(k-1)")
            && chk(rep, "evaluate_derivative(x).1 vs derivative().evaluate(x)", "derivative/two-routes-disagree", d2, d3, 2.0 * unit_d, K_DERIV, "derivative_two_routes_over_2unit");
        if !ok {
            return;
        }
        if x.norm() > 1.0 && n >= 5 {
            big = true;
        }
    }
    // ---- definite integrals
    let [e0, e1, e2] = c.ends;
    let xmax = e0.norm().max(e1.norm()).max(e2.norm());
    let mut a0 = aabs.clone();
    a0[0] = zero();
    let unit_i = (n + 2) as f64 * EPS * abs_eval(&a0, C64::new(xmax, 0.0));
    let mut a0d = acoef.clone();
    a0d[0] = CDd::zero();
    let aref = |x: C64| horner_dd(&a0d, x);
    let mut got = [zero(); 3];
    for (slot, (lo, hi)) in [(e0, e1), (e1, e2), (e0, e2)].iter().enumerate() {
        rep.eval();
        let v = g!(rep, c.to_json(), "integrate", p.integrate(N::from_c(*lo), N::from_c(*hi))).to_c();
        let r = aref(*hi).sub(aref(*lo)).val();
        let err = (v - r).norm();
        if unit_i > 0.0 {
            rep.max("integrate_err_over_(n+2)eps.sum|A_k|X^k", err / unit_i);
        }
        rep.count("integrals", 1);
        if !(err <= K_INT * unit_i) {
            rep.violation("integrate/value", c.to_json(), format!("integrate({:e}{:+e}i, {:e}{:+e}i) = {:e}{:+e}i but A(b) - A(a) = {:e}{:+e}i ({}, degree {}): difference {:e} > {:e}", lo.re, lo.im, hi.re, hi.im, v.re, v.im, r.re, r.im, fld, n, err, K_INT * unit_i));
            return;
        }
        got[slot] = v;
    }
    let add = (got[0] + got[1] - got[2]).norm();
    if unit_i > 0.0 {
        rep.max("integrate_additivity_defect_over_unit", add / unit_i);
    }
    if !(add <= K_INT * unit_i) {
        rep.violation("integrate/additivity", c.to_json(), format!("integrate(a,b) + integrate(b,c) - integrate(a,c) = {:e} > {:e} ({}, degree {})", add, K_INT * unit_i, fld, n));
        return;
    }
    if big {
        rep.nontrivial(c.hash());
        rep.count(&format!("calculus_nontrivial/{}", fld), 1);
    }
    if rep.wants_sample() && n >= 2 && n <= 5 {
        rep.sample(c.to_json().set("derivative", pj(c.complex, &dabs)).set("integrals(a,b),(b,c),(a,c)", J::Arr(got.iter().map(|v| cj(*v)).collect())));
    }
}

fn run_calc_dyn(rep: &mut Report, c: &Calc) {
    if c.complex {
        run_calc::<C64>(rep, c)
    } else {
        run_calc::<f64>(rep, c)
    }
}

fn gen_calc(rng: &mut Rng, complex: bool, deg: usize) -> Calc {
    let (mut c, shape) = gen_poly(rng, complex, deg);
    let mut shape = shape.to_string();
    shape.push_str(decorate(rng, complex, &mut c, DEFAULT_TOL));
    let xs = (0..4).map(|_| rand_point(rng, complex, 2.0)).collect();
    let konst = if rng.chance(0.2) { zero() } else { rand_scalar(rng, complex, -3.0, 3.0) };
    let mut ends = [rand_point(rng, complex, 2.0), rand_point(rng, complex, 2.0), rand_point(rng, complex, 2.0)];
    if complex && rng.chance(0.12) {
        // a vertical segment: the three end points share their real part bit for bit
        ends[1] = C64::new(ends[0].re, ends[1].im);
        ends[2] = C64::new(ends[0].re, ends[2].im);
        shape.push_str("+vertical-integration-path");
    } else if complex && rng.chance(0.06) {
        // horizontal: equal imaginary parts
        ends[1] = C64::new(ends[1].re, ends[0].im);
        ends[2] = C64::new(ends[2].re, ends[0].im);
        shape.push_str("+horizontal-integration-path");
    }
    if rng.chance(0.03) {
        // the zero polynomial with stored zeros: its antiderivative is the integration constant
        for v in c.iter_mut() {
            *v = zero();
        }
        shape.push_str("+all-coefficients-exactly-zero");
    }
    // (a tolerance of 0.05 or 0.5 is larger than many of the integration intervals: the zero
    // tolerance concerns coefficients, never the width of an interval)
    let tol = if rng.chance(0.8) { None } else { Some(*rng.pick(&[1e-6, 1e-12, 0.0, 0.05, 0.5])) };
    Calc { complex, c, tol, from_slice: rng.chance(0.7), xs, konst, ends, shape }
}

// ------------------------------------------------------------------ history monitor

#[derive(Clone, Debug)]
enum GenOp {
    /// set_coefficient(power, value)
    Set(u32, C64),
    /// set_coefficient(order + k, value)
    SetRel(u32, C64),
    /// purge_coefficient(floor(f·order)), f in [0,1): strictly below the order (or 0)
    PurgeBelow(f64),
    /// purge_coefficient(order + k): k = 0 at the degree, k >= 1 beyond it
    PurgeRel(usize),
    PurgeLeading,
    /// += / -= polynomial (ascending coefficients), owned or borrowed right-hand side
    AddPoly(Vec<C64>, bool),
    SubPoly(Vec<C64>, bool),
    MulS(C64),
    /// p = &p * s: the borrowed, non-assigning form; the result replaces p (it must carry p's tolerance on)
    MulSRef(C64),
    DivS(C64),
    AddS(C64),
    SubS(C64),
    /// the consuming (by-value) operator forms, result bound to p again: p = -p, p = p + s, p = p * s,
    /// p = p + q, p = p - &q (round 11: state that an operator must carry over - or must drop - with the value)
    NegV,
    AddSV(C64),
    MulSV(C64),
    AddPolyV(Vec<C64>),
    SubPolyRefV(Vec<C64>),
}

#[derive(Clone)]
struct Hist {
    complex: bool,
    init: Vec<C64>,
    /// None: start from Polynomial::new()
    via_new: bool,
    /// with via_new: start from Polynomial::with_capacity(k) instead (the same zero polynomial)
    via_capacity: Option<usize>,
    tol: Option<f64>,
    ops: Vec<GenOp>,
    x: C64,
}
impl Hist {
    fn hash(&self) -> u64 {
        let mut h = hash_poly(CaseHash::new("c13-hist").u(self.complex as u64), &self.init).u(self.ops.len() as u64);
        for op in &self.ops {
            h = h.s(&format!("{:?}", op));
        }
        h.0
    }
}

fn opname(op: &GenOp) -> &'static str {
    match op {
        GenOp::Set(..) | GenOp::SetRel(..) => "set_coefficient",
        GenOp::PurgeBelow(_) | GenOp::PurgeRel(_) => "purge_coefficient",
        GenOp::PurgeLeading => "purge_leading",
        GenOp::AddPoly(..) => "add_assign_polynomial",
        GenOp::SubPoly(..) => "sub_assign_polynomial",
        GenOp::MulS(_) => "mul_assign_scalar",
        GenOp::MulSRef(_) => "mul_scalar_borrowed_rebound",
        GenOp::DivS(_) => "div_assign_scalar",
        GenOp::AddS(_) => "add_assign_scalar",
        GenOp::SubS(_) => "sub_assign_scalar",
        GenOp::NegV => "neg_by_value",
        GenOp::AddSV(_) => "add_scalar_by_value",
        GenOp::MulSV(_) => "mul_scalar_by_value",
        GenOp::AddPolyV(_) => "add_polynomial_by_value",
        GenOp::SubPolyRefV(_) => "sub_borrowed_polynomial_by_value",
    }
}

fn cfmt(c: C64) -> String {
    format!("{:e}{:+e}i", c.re, c.im)
}

fn run_hist<N: Sc>(rep: &mut Report, h: &Hist) {
    let fld = N::NAME;
    let tol = h.tol.unwrap_or(DEFAULT_TOL);
    let mut p: Polynomial<N> = match (h.via_new, h.via_capacity) {
        (true, Some(k)) => Polynomial::with_capacity(k),
        (true, None) => Polynomial::new(),
        _ => build(&h.init, None, true),
    };
    if let Some(t) = h.tol {
        let _ = p.set_tolerance(t);
    }
    let mut refc: Vec<C64> = if h.via_new { vec![zero()] } else { h.init.clone() };
    // executed operations, written out with the concrete powers, for the violation record
    let mut log: Vec<J> = vec![];
    let base = |log: &Vec<J>| -> J {
        J::obj()
            .set("field", field_name(h.complex))
            .set("initial", if h.via_new { J::from(if h.via_capacity.is_some() { "Polynomial::with_capacity(k)" } else { "Polynomial::new()" }) } else { pj(h.complex, &h.init) })
            .set("built_with", if h.via_new { if h.via_capacity.is_some() { "Polynomial::with_capacity(k)" } else { "Polynomial::new()" } } else { "from_slice (coefficients reversed)" })
            .set("tolerance", tolj(h.tol))
            .set("operations_executed_in_order", J::Arr(log.clone()))
    };
    let mut beyond = false;
    let mut purges_at = 0;
    let mut purges_beyond = 0;
    for (step, op) in h.ops.iter().enumerate() {
        let name = opname(op);
        let order = match guard(|| p.order()) {
            Guarded::Ok(o) => o,
            Guarded::Panic(m, l) => {
                rep.violation("history/order-panic", base(&log), format!("order() panicked before step {}: '{}' at {} ({})", step, m, l, fld));
                return;
            }
            Guarded::Budget => return,
        };
        // ---- concrete operation, reference update, per-index rounding unit
        let mut unit: Vec<f64> = vec![];
        let mut lenient_from: Option<usize> = None; // purge_leading: indices >= this may read 0
        let grow = |v: &mut Vec<C64>, n: usize| {
            while v.len() < n {
                v.push(zero());
            }
        };
        let desc: String;
        let applied: Guarded<()> = match op {
            GenOp::Set(pw, v) | GenOp::SetRel(pw, v) => {
                let power = if matches!(op, GenOp::SetRel(..)) { order as u32 + *pw } else { *pw };
                desc = format!("set_coefficient({}, {})  [order before: {}]", power, cfmt(*v), order);
                grow(&mut refc, power as usize + 1);
                refc[power as usize] = *v;
                let vn = N::from_c(*v);
                guard(|| p.set_coefficient(power, vn))
            }
            GenOp::PurgeBelow(f) => {
                let power = ((*f) * order as f64).floor() as usize;
                desc = format!("purge_coefficient({})  [order before: {}]", power, order);
                if power == order {
                    purges_at += 1;
                    beyond = true;
                }
                if power < refc.len() {
                    refc[power] = zero();
                }
                guard(|| p.purge_coefficient(power))
            }
            GenOp::PurgeRel(k) => {
                let power = order + *k;
                desc = format!("purge_coefficient({})  [order before: {}; {}]", power, order, if *k == 0 { "at the degree" } else { "beyond the degree: must change nothing" });
                beyond = true;
                if *k == 0 {
                    purges_at += 1;
                    if power < refc.len() {
                        refc[power] = zero();
                    }
                } else {
                    purges_beyond += 1;
                    // a power the polynomial does not have: the readable coefficients there are 0
                    // already, nothing changes
                }
                guard(|| p.purge_coefficient(power))
            }
            GenOp::PurgeLeading => {
                desc = format!("purge_leading()  [order before: {}, tolerance {:e}]", order, tol);
                // the stored leading run within tolerance
                let mut i = order.min(refc.len().saturating_sub(1));
                let mut from = order + 1;
                while i >= 1 && refc[i].re.abs() <= tol && refc[i].im.abs() <= tol {
                    from = i;
                    i -= 1;
                }
                lenient_from = Some(from);
                guard(|| p.purge_leading())
            }
            GenOp::AddPoly(q, owned) | GenOp::SubPoly(q, owned) => {
                let sub = matches!(op, GenOp::SubPoly(..));
                desc = format!("p {}= {}q, q = {:?} (ascending)", if sub { "-" } else { "+" }, if *owned { "" } else { "&" }, q.iter().map(|c| cfmt(*c)).collect::<Vec<_>>());
                grow(&mut refc, q.len());
                unit = vec![0.0; refc.len()];
                for (i, qi) in q.iter().enumerate() {
                    unit[i] = EPS * (refc[i].norm() + qi.norm());
                    refc[i] = if sub { refc[i] - *qi } else { refc[i] + *qi };
                }
                let qp: Polynomial<N> = build(q, None, false);
                match (sub, *owned) {
                    (false, true) => guard(|| p += qp),
                    (false, false) => guard(|| p += &qp),
                    (true, true) => guard(|| p -= qp),
                    (true, false) => guard(|| p -= &qp),
                }
            }
            GenOp::MulS(s) => {
                desc = format!("p *= {}", cfmt(*s));
                unit = refc.iter().map(|c| EPS * c.norm() * s.norm()).collect();
                for c in refc.iter_mut() {
                    *c = cmul_exact(*c, *s);
                }
                let sn = N::from_c(*s);
                guard(|| p *= sn)
            }
            GenOp::MulSRef(s) => {
                desc = format!("p = &p * {}", cfmt(*s));
                unit = refc.iter().map(|c| EPS * c.norm() * s.norm()).collect();
                for c in refc.iter_mut() {
                    *c = cmul_exact(*c, *s);
                }
                let sn = N::from_c(*s);
                guard(|| {
                    let q = &p * sn;
                    p = q;
                })
            }
            GenOp::DivS(s) => {
                desc = format!("p /= {}", cfmt(*s));
                unit = refc.iter().map(|c| 2.0 * EPS * c.norm() / s.norm()).collect();
                for c in refc.iter_mut() {
                    *c = cdiv_ref(*c, *s);
                }
                let sn = N::from_c(*s);
                guard(|| p /= sn)
            }
            GenOp::AddS(s) | GenOp::SubS(s) => {
                let sub = matches!(op, GenOp::SubS(..));
                desc = format!("p {}= {}", if sub { "-" } else { "+" }, cfmt(*s));
                unit = vec![0.0; refc.len()];
                unit[0] = EPS * (refc[0].norm() + s.norm());
                refc[0] = if sub { refc[0] - *s } else { refc[0] + *s };
                let sn = N::from_c(*s);
                if sub {
                    guard(|| p -= sn)
                } else {
                    guard(|| p += sn)
                }
            }
            GenOp::NegV => {
                desc = "p = -p".to_string();
                for c in refc.iter_mut() {
                    *c = -*c;
                }
                guard(|| {
                    let old = std::mem::replace(&mut p, Polynomial::new());
                    p = -old;
                })
            }
            GenOp::AddSV(sv) => {
                desc = format!("p = p + {}", cfmt(*sv));
                unit = vec![0.0; refc.len()];
                unit[0] = EPS * (refc[0].norm() + sv.norm());
                refc[0] += *sv;
                let sn = N::from_c(*sv);
                guard(|| {
                    let old = std::mem::replace(&mut p, Polynomial::new());
                    p = old + sn;
                })
            }
            GenOp::MulSV(sv) => {
                desc = format!("p = p * {}", cfmt(*sv));
                unit = refc.iter().map(|c| EPS * c.norm() * sv.norm()).collect();
                for c in refc.iter_mut() {
                    *c = cmul_exact(*c, *sv);
                }
                let sn = N::from_c(*sv);
                guard(|| {
                    let old = std::mem::replace(&mut p, Polynomial::new());
                    p = old * sn;
                })
            }
            GenOp::AddPolyV(q) | GenOp::SubPolyRefV(q) => {
                let sub = matches!(op, GenOp::SubPolyRefV(..));
                desc = format!("p = p {} q, q = {:?} (ascending)", if sub { "- &" } else { "+" }, q.iter().map(|c| cfmt(*c)).collect::<Vec<_>>());
                grow(&mut refc, q.len());
                unit = vec![0.0; refc.len()];
                for (i, qi) in q.iter().enumerate() {
                    unit[i] = EPS * (refc[i].norm() + qi.norm());
                    refc[i] = if sub { refc[i] - *qi } else { refc[i] + *qi };
                }
                let qp: Polynomial<N> = build(q, None, false);
                guard(|| {
                    let old = std::mem::replace(&mut p, Polynomial::new());
                    p = if sub { old - &qp } else { old + qp };
                })
            }
        };
        rep.eval();
        rep.count(&format!("history_ops/{}", name), 1);
        log.push(J::from(desc.clone()));
        if let Guarded::Panic(m, l) = applied {
            rep.violation(&format!("history/{}-panic", name), base(&log), format!("step {}: {} panicked ({}): '{}' at {}", step, desc, fld, m, l));
            return;
        }
        // ---- read everything back
        let read = guard(|| {
            let o = p.order();
            let cs = p.get_coefficients();
            let top = refc.len().max(o + 1) + 3;
            let gs: Vec<N> = (0..top).map(|i| p.get_coefficient(i)).collect();
            (o, cs, gs)
        });
        let (o, cs, gs) = match read {
            Guarded::Ok(v) => v,
            Guarded::Panic(m, l) => {
                rep.violation(&format!("history/{}-panic", name), base(&log), format!("after step {} ({}) reading order()/get_coefficients()/get_coefficient(i) panicked ({}): '{}' at {}", step, desc, fld, m, l));
                return;
            }
            Guarded::Budget => return,
        };
        if cs.len() != o + 1 {
            rep.violation("history/access-inconsistent", base(&log), format!("after step {} ({}): get_coefficients() has {} entries but order() = {} ({})", step, desc, cs.len(), o, fld));
            return;
        }
        for (i, g) in gs.iter().enumerate() {
            let g = g.to_c();
            let e = refc.get(i).copied().unwrap_or(zero());
            // get_coefficients() (descending) agrees with get_coefficient(i); beyond the order reads 0
            let via_vec = if i <= o { cs[o - i].to_c() } else { zero() };
            if !same(g, via_vec) {
                rep.violation("history/access-inconsistent", base(&log), format!("after step {} ({}): get_coefficient({}) = {} but get_coefficients()/order() give {} (order {}) ({})", step, desc, i, cfmt(g), cfmt(via_vec), o, fld));
                return;
            }
            let u = unit.get(i).copied().unwrap_or(0.0);
            let mut ok = if u > 0.0 { (g - e).norm() <= K_ARITH * u } else { same(g, e) };
            if u > 0.0 {
                rep.max("history_arithmetic_err_over_unit", (g - e).norm() / u);
            }
            if !ok {
                if let Some(from) = lenient_from {
                    // a stored leading coefficient within tolerance may have been dropped
                    if i >= from && i > o && same(g, zero()) {
                        ok = true;
                        rep.count("purge_leading/terms_dropped", 1);
                    }
                }
            }
            if !ok {
                let what = match op {
                    GenOp::PurgeRel(k) if *k >= 1 => "purging a power the polynomial does not have changed a coefficient".to_string(),
                    GenOp::PurgeBelow(_) | GenOp::PurgeRel(_) | GenOp::Set(..) | GenOp::SetRel(..) => "a power other than the addressed one changed, or the addressed one has the wrong value".to_string(),
                    GenOp::PurgeLeading => format!("purge_leading changed a coefficient that is not a leading term within tolerance {:e}", tol),
                    _ => format!("coefficient differs from term-wise arithmetic by more than {}·eps·operands", K_ARITH),
                };
                rep.violation(&format!("history/{}", name), base(&log), format!("after step {} ({}): get_coefficient({}) = {}, reference map has {} (order() = {}, {}): {}", step, desc, i, cfmt(g), cfmt(e), o, fld, what));
                return;
            }
        }
        if lenient_from.is_some() && o >= 1 {
            // contract of purge_leading ("remove all leading 0 coefficients"): what is left is a
            // constant or has a leading coefficient that is not inside the tolerance (strictly
            // inside, so that `<` and `<=` implementations are both accepted)
            let lead = gs[o].to_c();
            rep.count("purge_leading/postcondition_checked", 1);
            // (an exactly zero leading coefficient is a "leading 0 coefficient" at every tolerance, 0.0 included)
            if (lead.re.abs() < tol && lead.im.abs() < tol) || (lead.re == 0.0 && lead.im == 0.0) {
                rep.violation("history/purge_leading-incomplete", base(&log), format!("after step {} ({}): order() = {} but the coefficient of x^{} is {}, inside the tolerance {:e} ({})", step, desc, o, o, cfmt(lead), tol, fld));
                return;
            }
        }
        // re-synchronise (rounding of arithmetic, dropped leading terms)
        for (i, g) in gs.iter().enumerate() {
            if i < refc.len() {
                refc[i] = g.to_c();
            }
        }
        // ---- derived quantities after EVERY step (round 11): the definite integral over a fixed interval must be
        // the one of the coefficients just read back - also when the previous call of integrate() was made on the
        // polynomial as it was before this operation (anything remembered between calls must follow the edits)
        {
            let (a, b) = (-1.25f64, 0.5f64);
            let mut r = zero();
            let mut mag = 0.0;
            for (k, ck) in refc.iter().enumerate() {
                let kk = (k + 1) as f64;
                r += *ck * ((b.powi(k as i32 + 1) - a.powi(k as i32 + 1)) / kk);
                mag += ck.norm() * (b.abs().powi(k as i32 + 1) + a.abs().powi(k as i32 + 1)) / kk;
            }
            let unit_i = (refc.len() + 2) as f64 * EPS * mag;
            rep.eval();
            match guard(|| p.integrate(N::from_c(C64::new(a, 0.0)), N::from_c(C64::new(b, 0.0)))) {
                Guarded::Ok(v) => {
                    let err = (v.to_c() - r).norm();
                    rep.count("history_integrals_after_a_step", 1);
                    if unit_i > 0.0 {
                        rep.max("history_integrate_err_over_(n+2)eps.sum|c_k|(|a|^(k+1)+|b|^(k+1))/(k+1)", err / unit_i);
                    }
                    if !(err <= 2.0 * K_INT * unit_i) {
                        rep.violation("history/integrate-after-step", base(&log), format!("after step {} ({}): integrate(-1.25, 0.5) = {} but the coefficients read back integrate to {} ({}): difference {:e} > {:e}", step, desc, cfmt(v.to_c()), cfmt(r), fld, err, 2.0 * K_INT * unit_i));
                        return;
                    }
                }
                Guarded::Panic(m, l) => {
                    rep.violation("history/integrate-panic", base(&log), format!("integrate after step {} ({}) panicked ({}): '{}' at {}", step, desc, fld, m, l));
                    return;
                }
                Guarded::Budget => return,
            }
        }
    }
    rep.count("histories", 1);
    rep.count("history_purges_at_degree", purges_at);
    rep.count("history_purges_beyond_degree", purges_beyond);
    // ---- the edited polynomial still evaluates to its coefficient expansion
    let xn = N::from_c(h.x);
    rep.eval();
    match guard(|| p.evaluate(xn)) {
        Guarded::Ok(v) => {
            let r = eval_ref(&refc, h.x);
            let unit = refc.len() as f64 * EPS * abs_eval(&refc, h.x);
            let err = (v.to_c() - r).norm();
            if unit > 0.0 {
                rep.max("evaluate_err_over_(n+1)eps.sum|c_k||x|^k", err / unit);
            }
            if !(err <= K_EVAL * unit) {
                rep.violation("history/evaluate", base(&log).set("x", cj(h.x)), format!("after the history evaluate({}) = {} but the coefficients read back give {} ({}): difference {:e} > {:e}", cfmt(h.x), cfmt(v.to_c()), cfmt(r), fld, err, K_EVAL * unit));
                return;
            }
        }
        Guarded::Panic(m, l) => {
            rep.violation("history/evaluate-panic", base(&log), format!("evaluate after the history panicked ({}): '{}' at {}", fld, m, l));
            return;
        }
        Guarded::Budget => return,
    }
    if beyond {
        rep.nontrivial(h.hash());
        rep.count(&format!("history_nontrivial/{}", fld), 1);
    }
    if rep.wants_sample() && h.ops.len() <= 8 && beyond {
        rep.sample(base(&log).set("final_coefficients", pj(h.complex, &refc)));
    }
}

fn run_hist_dyn(rep: &mut Report, h: &Hist) {
    if h.complex {
        run_hist::<C64>(rep, h)
    } else {
        run_hist::<f64>(rep, h)
    }
}

fn gen_value(rng: &mut Rng, complex: bool, tol: f64) -> C64 {
    match rng.below(10) {
        0 => zero(),
        1 => rand_unit(rng, complex) * (tol * *rng.pick(&[0.01, 0.5, 0.999, 1.0])),
        2 if complex => C64::new(tol * 0.5, rng.log10(-3.0, 3.0)), // small real part, large imaginary part
        3 if complex => C64::new(rng.log10(-3.0, 3.0), -tol * 0.5),
        _ => rand_scalar(rng, complex, -3.0, 3.0),
    }
}

fn gen_op(rng: &mut Rng, complex: bool, tol: f64) -> GenOp {
    match rng.below(24) {
        20 => GenOp::NegV,
        21 => {
            if rng.bool() {
                GenOp::AddSV(rand_scalar(rng, complex, -3.0, 3.0))
            } else {
                GenOp::MulSV(rand_scalar(rng, complex, -1.0, 1.0))
            }
        }
        22 | 23 => {
            let n = 1 + rng.below(10);
            let q: Vec<C64> = (0..n).map(|_| gen_value(rng, complex, tol)).collect();
            if rng.bool() {
                GenOp::AddPolyV(q)
            } else {
                GenOp::SubPolyRefV(q)
            }
        }
        0..=3 => GenOp::Set(rng.below(16) as u32, gen_value(rng, complex, tol)),
        4 | 5 => GenOp::SetRel(rng.below(4) as u32, gen_value(rng, complex, tol)),
        6 | 7 => GenOp::PurgeBelow(rng.f()),
        8 | 9 => GenOp::PurgeRel(0),
        10 => GenOp::PurgeRel(1),
        11 => GenOp::PurgeRel(2 + rng.below(6)),
        12 | 13 => GenOp::PurgeLeading,
        14 | 15 => {
            let n = 1 + rng.below(10);
            let q: Vec<C64> = (0..n).map(|_| gen_value(rng, complex, tol)).collect();
            if rng.bool() {
                GenOp::AddPoly(q, rng.bool())
            } else {
                GenOp::SubPoly(q, rng.bool())
            }
        }
        16 => {
            let sc = rand_scalar(rng, complex, -1.0, 1.0);
            if rng.bool() {
                GenOp::MulS(sc)
            } else {
                GenOp::MulSRef(sc)
            }
        }
        17 => GenOp::DivS(rand_scalar(rng, complex, -1.0, 1.0)),
        18 => GenOp::AddS(rand_scalar(rng, complex, -3.0, 3.0)),
        _ => GenOp::SubS(rand_scalar(rng, complex, -3.0, 3.0)),
    }
}

fn gen_hist(rng: &mut Rng, complex: bool) -> Hist {
    let tol = if rng.chance(0.7) { None } else { Some(*rng.pick(&[1e-6, 1e-3, 1e-12, 0.0])) };
    let t = tol.unwrap_or(DEFAULT_TOL);
    let via_new = rng.chance(0.15);
    let deg = if rng.chance(0.2) { 0 } else { rng.below(13) };
    let (mut init, _) = gen_poly(rng, complex, deg);
    decorate(rng, complex, &mut init, t);
    let n = 5 + rng.below(36);
    let ops = (0..n).map(|_| gen_op(rng, complex, t)).collect();
    let via_capacity = if via_new && rng.bool() { Some(rng.below(20)) } else { None };
    Hist { complex, init, via_new, via_capacity, tol, ops, x: rand_point(rng, complex, 1.5) }
}

fn fixed_hists() -> Vec<Hist> {
    let r = |v: &[f64]| -> Vec<C64> { v.iter().map(|x| C64::new(*x, 0.0)).collect() };
    let c = |re: f64, im: f64| C64::new(re, im);
    let mk = |complex: bool, init: Vec<C64>, via_new: bool, ops: Vec<GenOp>| Hist { complex, init, via_new, via_capacity: None, tol: None, ops, x: C64::new(0.75, 0.0) };
    let mut v = vec![];
    for complex in [false, true] {
        // purge exactly one above the degree (pinned tree: pops the leading term), then further above (pinned: panics)
        v.push(mk(complex, r(&[3.0, 2.0, 1.0]), false, vec![GenOp::PurgeRel(1)]));
        v.push(mk(complex, r(&[3.0, 2.0, 1.0]), false, vec![GenOp::PurgeRel(2)]));
        v.push(mk(complex, r(&[3.0, 2.0, 1.0]), false, vec![GenOp::PurgeRel(7), GenOp::PurgeRel(1), GenOp::PurgeRel(0), GenOp::PurgeRel(1)]));
        // purge at the degree, repeatedly, down to the constant and on the constant
        v.push(mk(complex, r(&[3.0, 2.0, 1.0]), false, vec![GenOp::PurgeRel(0), GenOp::PurgeRel(0), GenOp::PurgeRel(0), GenOp::PurgeRel(0), GenOp::PurgeRel(1), GenOp::PurgeLeading]));
        v.push(mk(complex, r(&[5.0]), false, vec![GenOp::PurgeRel(0), GenOp::PurgeRel(1), GenOp::PurgeRel(3), GenOp::PurgeLeading, GenOp::Set(0, c(2.0, 0.0))]));
        v.push(mk(complex, vec![], true, vec![GenOp::PurgeLeading, GenOp::PurgeRel(0), GenOp::PurgeRel(1), GenOp::Set(4, c(1.0, 0.0)), GenOp::PurgeBelow(0.5), GenOp::PurgeRel(0), GenOp::PurgeLeading]));
        // interior purge and set far beyond the degree
        v.push(mk(complex, r(&[1.0, 2.0, 3.0, 4.0, 5.0]), false, vec![GenOp::PurgeBelow(0.5), GenOp::Set(10, c(127.0, 0.0)), GenOp::PurgeBelow(0.99), GenOp::Set(0, c(0.0, 0.0)), GenOp::PurgeRel(0), GenOp::PurgeLeading]));
        // leading coefficients inside the tolerance, purge_leading, then arithmetic
        v.push(mk(complex, r(&[1.0, 2.0, 5e-11, -1e-10, 3e-12]), false, vec![GenOp::PurgeLeading, GenOp::AddPoly(r(&[1.0, 1.0, 1.0, 1.0, 1.0, 1.0]), true), GenOp::SubPoly(r(&[0.0, 0.0, 0.0, 0.0, 0.0, 1.0]), false), GenOp::PurgeLeading, GenOp::MulS(c(-2.0, 0.0)), GenOp::DivS(c(4.0, 0.0)), GenOp::AddS(c(1.0, 0.0)), GenOp::SubS(c(0.5, 0.0))]));
    }
    // complex: small real part with large imaginary part must survive purge_leading
    v.push(mk(true, vec![c(1.0, 0.0), c(2.0, 1.0), c(1e-12, 3.0)], false, vec![GenOp::PurgeLeading, GenOp::Set(3, c(4.0, -1e-12)), GenOp::PurgeLeading, GenOp::Set(4, c(1e-11, 1e-11)), GenOp::PurgeLeading]));
    v
}

// ------------------------------------------------------------------ stages

pub fn stages(ctx: &Ctx) -> Vec<Stage> {
    let seed = ctx.seed;
    let tier = ctx.tier;
    let mut st = vec![];
    let fixed = fixed_hists();
    let nf = fixed.len() as u64;
    st.push(Stage::new("history-anchors", nf + 200, move |i, rep| {
        if i < nf {
            run_hist_dyn(rep, &fixed[i as usize]);
            return;
        }
        let mut rng = Rng::for_case(0xC13, "c13-history-anchor", i);
        let h = gen_hist(&mut rng, i % 2 == 1);
        run_hist_dyn(rep, &h);
    }));
    // calculus anchors: every degree 0..30 in both fields, fixed seed; plus the empty slice
    st.push(Stage::new("calculus-anchors", 2 * 31 * 3 + 2, move |i, rep| {
        if i >= 2 * 31 * 3 {
            // from_slice(&[]) is the zero polynomial
            rep.eval();
            let ok = if i % 2 == 0 {
                let p: Polynomial<f64> = Polynomial::from_slice(&[]);
                p.order() == 0 && p.get_coefficients() == vec![0.0] && p.get_coefficient(0) == 0.0 && p.evaluate(1.5) == 0.0
            } else {
                let p: Polynomial<C64> = Polynomial::from_slice(&[]);
                p.order() == 0 && p.get_coefficients() == vec![zero()] && p.get_coefficient(0) == zero() && p.evaluate(C64::new(1.5, 1.0)) == zero()
            };
            if !ok {
                rep.violation("access/roundtrip", J::obj().set("call", "Polynomial::from_slice(&[])"), "from_slice(&[]) is not the zero polynomial with one zero coefficient".into());
            }
            return;
        }
        let complex = i % 2 == 1;
        let deg = ((i / 2) % 31) as usize;
        let mut rng = Rng::for_case(0xC13, "c13-calc-anchor", i);
        let c = gen_calc(&mut rng, complex, deg);
        run_calc_dyn(rep, &c);
    }));
    st.push(Stage::new("calculus", tier.pick(20_000, 1_000_000), move |i, rep| {
        let mut rng = Rng::for_case(seed, "c13-calc", i);
        let deg = if rng.chance(0.15) { rng.below(3) } else { rng.below(31) };
        let c = gen_calc(&mut rng, i % 2 == 1, deg);
        run_calc_dyn(rep, &c);
    }));
    st.push(Stage::new("history", tier.pick(16_000, 1_000_000), move |i, rep| {
        let mut rng = Rng::for_case(seed, "c13-history", i);
        let h = gen_hist(&mut rng, i % 2 == 1);
        run_hist_dyn(rep, &h);
    }));
    st
}

pub fn thresholds(ctx: &Ctx, rep: &Report) -> Vec<Threshold> {
    let mut t = vec![];
    let q = |a: f64, b: f64| ctx.tier.pick(a, b);
    for fld in ["f64", "c64"] {
        t.push(Threshold { what: format!("calculus cases of degree >= 5 with an evaluation point |x| > 1 that passed every check ({})", fld), required: q(800.0, 30_000.0), observed: rep.counter(&format!("calculus_nontrivial/{}", fld)) as f64 });
        t.push(Threshold { what: format!("completed histories containing a purge at or beyond the degree ({})", fld), required: q(1_200.0, 45_000.0), observed: rep.counter(&format!("history_nontrivial/{}", fld)) as f64 });
    }
    t.push(Threshold { what: "evaluation points".into(), required: q(15_000.0, 600_000.0), observed: rep.counter("evaluation_points") as f64 });
    t.push(Threshold { what: "definite integrals".into(), required: q(10_000.0, 450_000.0), observed: rep.counter("integrals") as f64 });
    t.push(Threshold { what: "from_slice / get_coefficients round trips".into(), required: q(4_000.0, 150_000.0), observed: rep.counter("roundtrips") as f64 });
    t.push(Threshold { what: "purge_coefficient calls at the degree inside completed histories".into(), required: q(4_000.0, 150_000.0), observed: rep.counter("history_purges_at_degree") as f64 });
    t.push(Threshold { what: "purge_coefficient calls beyond the degree inside completed histories".into(), required: q(4_000.0, 150_000.0), observed: rep.counter("history_purges_beyond_degree") as f64 });
    t.push(Threshold { what: "definite integrals taken after a history step (the previous one taken before it)".into(), required: q(100_000.0, 1_000_000.0), observed: rep.counter("history_integrals_after_a_step") as f64 });
    for op in ["set_coefficient", "purge_coefficient", "purge_leading", "add_assign_polynomial", "sub_assign_polynomial", "mul_assign_scalar", "div_assign_scalar", "add_assign_scalar", "sub_assign_scalar", "neg_by_value", "add_polynomial_by_value", "sub_borrowed_polynomial_by_value"] {
        t.push(Threshold { what: format!("history operations of kind {}", op), required: q(1_500.0, 60_000.0), observed: rep.counter(&format!("history_ops/{}", op)) as f64 });
    }
    t.push(Threshold { what: "leading terms within tolerance seen to be dropped by purge_leading".into(), required: q(200.0, 8_000.0), observed: rep.counter("purge_leading/terms_dropped") as f64 });
    t
}
