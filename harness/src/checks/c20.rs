//! C20 — the CODATA table and the named constants reproduce the bundled NIST listing.
//!
//! Reference model: an independent parser of `/repo/codata.txt` (read at run time, so edits to the
//! working tree are seen). It does not slice fixed columns like `build.rs` does: the data region
//! starts after the dashed rule, fields are separated by runs of >= 2 blanks, digit-group blanks
//! and the "..." truncation mark are removed, "(exact)" is uncertainty 0. Every row is a case
//! (exhaustive); so is every named constant, every defining SI value and every derived relation.

use crate::json::J;
use crate::report::*;
use crate::rng::CaseHash;
use bacon_sci::constants as k;
use bacon_sci::constants::CODATA;
use std::sync::Arc;

const LISTING: &str = concat!(env!("BACON_REPO_DIR"), "/codata.txt");

/// rows of the 2018 listing shipped with the pinned tree; fewer parsed rows => INCONCLUSIVE
const ROWS_EXPECTED: usize = 354;

/// a constant given with the full precision of its defining expression (instead of the listing's
/// truncated digits) must agree with the harness' evaluation of that expression to this relative
/// accuracy (the expressions are a handful of f64 operations: a few ulp)
const DEFINING_REL: f64 = 64.0 * f64::EPSILON;

pub fn meta() -> CheckMeta {
    CheckMeta {
        id: "C20",
        level: "exploration",
        rule: "exhaustive: every data row of /repo/codata.txt (independent parser: data start = line after the dashed rule, fields = runs of >= 2 blanks) is a case — name must be a key of CODATA with bit-equal value, bit-equal uncertainty (0 for '(exact)') and equal unit string; one case for the table as a whole (len == number of rows, no key that is not a listed name, names unique); one case per named pub const (bit-equal to the listed value/uncertainty; where the listing truncates an exact value with '...', the full-precision value of the defining expression is accepted too), per defining SI value (c, h, e, k, N_A, g_n: bit-equal to the exact decimal) and per derived relation (h_bar = h/2pi, R = N_A k, sigma = 2pi^5k^4/(15h^3c^2), Wien b = hc/(x5 k), b' = x3 k/h: within one unit of the last listed digit). distinct = distinct (kind, name)".into(),
        assumptions: vec![
            "the listing is the ground truth: an edit of codata.txt itself is only noticed through the named constants and the defining SI values".into(),
            "decimal-to-binary conversion of the cleaned value string by Rust's str::parse::<f64> is correctly rounded, as is rustc's literal conversion in the generated map, so bit equality is the expected outcome".into(),
        ],
        exhaustive: true,
        stuck_is_violation: false,
    }
}

// ------------------------------------------------------------------ independent parser

#[derive(Clone, Debug)]
pub struct Row {
    pub line_no: usize,
    pub raw: String,
    pub name: String,
    pub value_text: String,
    pub unc_text: String,
    pub unit: String,
    pub value: f64,
    pub unc: f64,
    pub exact: bool,
    pub truncated: bool,
    /// one unit of the last listed digit of the value
    pub last_digit: f64,
}

pub enum Line {
    Row(Row),
    Unparsed(usize, String, String),
}

/// split on runs of >= 2 blanks
fn fields(s: &str) -> Vec<String> {
    let mut out = vec![];
    let mut cur = String::new();
    let mut blanks = 0usize;
    for ch in s.chars() {
        if ch == ' ' || ch == '\t' {
            blanks += if ch == '\t' { 2 } else { 1 };
            continue;
        }
        if blanks >= 2 && !cur.is_empty() {
            out.push(std::mem::take(&mut cur));
        } else if blanks == 1 && !cur.is_empty() {
            cur.push(' ');
        }
        blanks = 0;
        cur.push(ch);
    }
    if !cur.is_empty() {
        out.push(cur);
    }
    out
}

/// 10^(exponent - number of decimals) of a cleaned decimal string such as "5.670374419e-8"
fn last_digit_unit(clean: &str) -> Option<f64> {
    let (mant, exp) = match clean.find(|c| c == 'e' || c == 'E') {
        Some(p) => (&clean[..p], clean[p + 1..].parse::<i32>().ok()?),
        None => (clean, 0),
    };
    let decimals = match mant.find('.') {
        Some(p) => (mant.len() - p - 1) as i32,
        None => 0,
    };
    format!("1e{}", exp - decimals).parse::<f64>().ok()
}

fn parse_number(text: &str) -> Option<(f64, String, bool)> {
    let truncated = text.contains("...");
    let clean: String = text.replace("...", "").chars().filter(|c| *c != ' ').collect();
    if clean.is_empty() || !clean.chars().all(|c| c.is_ascii_digit() || matches!(c, '.' | '-' | '+' | 'e' | 'E')) {
        return None;
    }
    let v = clean.parse::<f64>().ok()?;
    Some((v, clean, truncated))
}

pub fn parse_listing(text: &str) -> Result<Vec<Line>, String> {
    let lines: Vec<&str> = text.lines().collect();
    let rule = lines
        .iter()
        .position(|l| {
            let t = l.trim();
            t.len() >= 20 && t.chars().all(|c| c == '-')
        })
        .ok_or_else(|| "no dashed rule found: cannot locate the data region".to_string())?;
    let mut out = vec![];
    for (i, l) in lines.iter().enumerate().skip(rule + 1) {
        if l.trim().is_empty() {
            continue;
        }
        let f = fields(l.trim_end());
        let bad = |why: &str| Line::Unparsed(i + 1, l.to_string(), why.to_string());
        if f.len() != 3 && f.len() != 4 {
            out.push(bad(&format!("{} fields", f.len())));
            continue;
        }
        let (value, clean, truncated) = match parse_number(&f[1]) {
            Some(x) => x,
            None => {
                out.push(bad("value is not a number"));
                continue;
            }
        };
        let exact = f[2] == "(exact)";
        let unc = if exact {
            0.0
        } else {
            match parse_number(&f[2]) {
                Some((u, _, false)) => u,
                _ => {
                    out.push(bad("uncertainty is neither a number nor (exact)"));
                    continue;
                }
            }
        };
        let last_digit = match last_digit_unit(&clean) {
            Some(u) => u,
            None => {
                out.push(bad("cannot determine the last listed digit"));
                continue;
            }
        };
        out.push(Line::Row(Row {
            line_no: i + 1,
            raw: l.to_string(),
            name: f[0].clone(),
            value_text: f[1].clone(),
            unc_text: f[2].clone(),
            unit: if f.len() == 4 { f[3].clone() } else { String::new() },
            value,
            unc,
            exact,
            truncated,
            last_digit,
        }));
    }
    Ok(out)
}

struct Listing {
    lines: Vec<Line>,
    error: Option<String>,
}

fn load() -> Listing {
    match std::fs::read_to_string(LISTING) {
        Err(e) => Listing { lines: vec![], error: Some(format!("cannot read {}: {}", LISTING, e)) },
        Ok(t) => match parse_listing(&t) {
            Ok(lines) => Listing { lines, error: None },
            Err(e) => Listing { lines: vec![], error: Some(format!("{}: {}", LISTING, e)) },
        },
    }
}

impl Listing {
    fn find(&self, name: &str) -> Option<&Row> {
        self.lines.iter().find_map(|l| match l {
            Line::Row(r) if r.name == name => Some(r),
            _ => None,
        })
    }
}

fn bits(x: f64) -> String {
    format!("0x{:016x}", x.to_bits())
}

// ------------------------------------------------------------------ named constants

#[derive(Clone, Copy)]
enum Field {
    Value,
    Unc,
}

struct Named {
    ident: &'static str,
    got: f64,
    listing_name: &'static str,
    field: Field,
}

fn named() -> Vec<Named> {
    let n = |ident, got, listing_name, field| Named { ident, got, listing_name, field };
    vec![
        n("c", k::c, "speed of light in vacuum", Field::Value),
        n("permittivity", k::permittivity, "vacuum electric permittivity", Field::Value),
        n("permittivity_uncertainty", k::permittivity_uncertainty, "vacuum electric permittivity", Field::Unc),
        n("permeability", k::permeability, "vacuum mag. permeability", Field::Value),
        n("permeability_uncertainty", k::permeability_uncertainty, "vacuum mag. permeability", Field::Unc),
        n("h", k::h, "Planck constant", Field::Value),
        n("h_bar", k::h_bar, "reduced Planck constant", Field::Value),
        n("G", k::G, "Newtonian constant of gravitation", Field::Value),
        n("G_uncertainty", k::G_uncertainty, "Newtonian constant of gravitation", Field::Unc),
        n("g", k::g, "standard acceleration of gravity", Field::Value),
        n("e_charge", k::e_charge, "elementary charge", Field::Value),
        n("R", k::R, "molar gas constant", Field::Value),
        n("fine_structure", k::fine_structure, "fine-structure constant", Field::Value),
        n("fine_structure_uncertainty", k::fine_structure_uncertainty, "fine-structure constant", Field::Unc),
        n("avogadro", k::avogadro, "Avogadro constant", Field::Value),
        n("boltzmann", k::boltzmann, "Boltzmann constant", Field::Value),
        n("stefan_boltzmann", k::stefan_boltzmann, "Stefan-Boltzmann constant", Field::Value),
        n("wien", k::wien, "Wien wavelength displacement law constant", Field::Value),
        n("wien_frequency", k::wien_frequency, "Wien frequency displacement law constant", Field::Value),
        n("rydberg", k::rydberg, "Rydberg constant", Field::Value),
        n("rydberg_uncertainty", k::rydberg_uncertainty, "Rydberg constant", Field::Unc),
        n("electron_mass", k::electron_mass, "electron mass", Field::Value),
        n("electron_mass_uncertainty", k::electron_mass_uncertainty, "electron mass", Field::Unc),
        n("proton_mass", k::proton_mass, "proton mass", Field::Value),
        n("proton_mass_uncertainty", k::proton_mass_uncertainty, "proton mass", Field::Unc),
        n("neutron_mass", k::neutron_mass, "neutron mass", Field::Value),
        n("neutron_mass_uncertainty", k::neutron_mass_uncertainty, "neutron mass", Field::Unc),
    ]
}

/// defining values of the SI (2019 redefinition; g_n: 3rd CGPM 1901), written out here
fn defining() -> Vec<(&'static str, f64, f64)> {
    vec![
        ("c", k::c, 299_792_458.0),
        ("h", k::h, 6.626_070_15e-34),
        ("e_charge", k::e_charge, 1.602_176_634e-19),
        ("boltzmann", k::boltzmann, 1.380_649e-23),
        ("avogadro", k::avogadro, 6.022_140_76e23),
        ("g", k::g, 9.806_65),
    ]
}

/// root of x = n (1 - exp(-x)), x > 0 (Wien's displacement law: n = 5 wavelength, n = 3 frequency)
fn wien_root(n: f64) -> f64 {
    let mut x = n;
    for _ in 0..200 {
        let nx = n * (1.0 - (-x).exp());
        if nx == x {
            break;
        }
        x = nx;
    }
    x
}

struct Relation {
    name: &'static str,
    formula: &'static str,
    got: f64,
    derived: f64,
    listing_name: &'static str,
}

fn relations() -> Vec<Relation> {
    let pi = std::f64::consts::PI;
    vec![
        Relation { name: "h_bar", formula: "h/(2 pi)", got: k::h_bar, derived: k::h / (2.0 * pi), listing_name: "reduced Planck constant" },
        Relation { name: "R", formula: "avogadro*boltzmann", got: k::R, derived: k::avogadro * k::boltzmann, listing_name: "molar gas constant" },
        Relation {
            name: "stefan_boltzmann",
            formula: "2 pi^5 k^4/(15 h^3 c^2)",
            got: k::stefan_boltzmann,
            // grouped so that no intermediate under/overflows: (k/h)^3 * k / c^2
            derived: 2.0 * pi.powi(5) / 15.0 * (k::boltzmann / k::h).powi(3) * k::boltzmann / (k::c * k::c),
            listing_name: "Stefan-Boltzmann constant",
        },
        Relation { name: "wien", formula: "h c/(k x), x = 5(1-exp(-x))", got: k::wien, derived: k::h * k::c / (k::boltzmann * wien_root(5.0)), listing_name: "Wien wavelength displacement law constant" },
        Relation { name: "wien_frequency", formula: "x k/h, x = 3(1-exp(-x))", got: k::wien_frequency, derived: wien_root(3.0) * k::boltzmann / k::h, listing_name: "Wien frequency displacement law constant" },
    ]
}

// ------------------------------------------------------------------ stages

pub fn stages(_ctx: &Ctx) -> Vec<Stage> {
    let listing = Arc::new(load());
    let mut st = vec![];

    // ---- the table as a whole
    let l = listing.clone();
    st.push(Stage::new("table", 1, move |_i, rep| {
        if let Some(e) = &l.error {
            rep.harness_errors.push(e.clone());
            return;
        }
        rep.eval();
        let rows: Vec<&Row> = l.lines.iter().filter_map(|x| if let Line::Row(r) = x { Some(r) } else { None }).collect();
        let unparsed = l.lines.len() - rows.len();
        rep.count("listing/data_lines", l.lines.len() as i64);
        rep.count("listing/rows_parsed", rows.len() as i64);
        rep.count("listing/rows_unparsed", unparsed as i64);
        rep.count("table/len", CODATA.len() as i64);
        rep.nontrivial(CaseHash::new("c20-table").0);
        let mut names = std::collections::BTreeSet::new();
        for r in &rows {
            if !names.insert(r.name.as_str()) {
                rep.inconclusive("duplicate-name-in-listing");
            }
        }
        rep.count("listing/distinct_names", names.len() as i64);
        let case = || J::obj().set("listing", LISTING).set("rows_parsed", rows.len()).set("rows_unparsed", unparsed).set("distinct_names", names.len()).set("table_len", CODATA.len());
        if unparsed == 0 && CODATA.len() != names.len() {
            rep.violation("codata/len", case(), format!("CODATA.len() = {} but the listing has {} quantities", CODATA.len(), names.len()));
        }
        let mut extra = 0;
        for (key, (v, u, unit)) in CODATA.entries() {
            rep.count("table/keys_checked", 1);
            if !names.contains(*key) && unparsed == 0 {
                extra += 1;
                rep.violation("codata/extra-key", case().set("key", *key).set("value", *v).set("uncertainty", *u).set("unit", *unit), format!("CODATA has the key {:?} which is not a quantity name of the listing", key));
            }
        }
        if rep.wants_sample() {
            rep.sample(case().set("keys_not_in_listing", extra));
        }
    }));

    // ---- every row
    let l = listing.clone();
    let n_rows = listing.lines.len() as u64;
    st.push(Stage::new("rows", n_rows, move |i, rep| {
        let r = match &l.lines[i as usize] {
            Line::Unparsed(no, raw, why) => {
                rep.inconclusive("row-not-parsed");
                rep.count("rows/unparsed", 1);
                if rep.wants_sample() {
                    rep.sample(J::obj().set("line", *no).set("raw", raw.as_str()).set("unparsed_because", why.as_str()));
                }
                return;
            }
            Line::Row(r) => r,
        };
        rep.eval();
        rep.count("rows/checked", 1);
        rep.nontrivial(CaseHash::new("c20-row").s(&r.name).0);
        if r.exact {
            rep.count("rows/exact", 1);
        }
        if r.truncated {
            rep.count("rows/value_truncated_with_dots", 1);
        }
        if !r.unit.is_empty() {
            rep.count("rows/with_unit", 1);
        } else {
            rep.count("rows/dimensionless", 1);
        }
        if r.value < 0.0 {
            rep.count("rows/negative_value", 1);
        }
        if r.value_text.contains('e') {
            rep.count("rows/with_exponent", 1);
        }
        if r.value_text.split('.').next().map(|s| s.contains(' ')).unwrap_or(false) {
            rep.count("rows/grouped_integer_part", 1);
        }
        let case = |got: Option<&(f64, f64, &str)>| {
            let mut j = J::obj()
                .set("line", r.line_no)
                .set("raw", r.raw.as_str())
                .set("name", r.name.as_str())
                .set("listed_value_text", r.value_text.as_str())
                .set("listed_uncertainty_text", r.unc_text.as_str())
                .set("listed_unit", r.unit.as_str())
                .set("expected_value", r.value)
                .set("expected_value_bits", bits(r.value))
                .set("expected_uncertainty", r.unc)
                .set("expected_uncertainty_bits", bits(r.unc));
            if let Some((v, u, unit)) = got {
                j.put("table_value", *v);
                j.put("table_value_bits", bits(*v));
                j.put("table_uncertainty", *u);
                j.put("table_uncertainty_bits", bits(*u));
                j.put("table_unit", *unit);
            }
            j
        };
        match CODATA.get(r.name.as_str()) {
            None => {
                rep.violation("codata/missing", case(None), format!("CODATA.get({:?}) is None (listing line {})", r.name, r.line_no));
            }
            Some(e) => {
                if e.0.to_bits() != r.value.to_bits() {
                    rep.violation("codata/value", case(Some(e)), format!("{:?}: table value {:e} differs from the listed {} = {:e}", r.name, e.0, r.value_text, r.value));
                }
                if e.1.to_bits() != r.unc.to_bits() {
                    rep.violation("codata/uncertainty", case(Some(e)), format!("{:?}: table uncertainty {:e} differs from the listed {} = {:e}", r.name, e.1, r.unc_text, r.unc));
                }
                if e.2 != r.unit {
                    rep.violation("codata/unit", case(Some(e)), format!("{:?}: table unit {:?} differs from the listed {:?}", r.name, e.2, r.unit));
                }
                if rep.wants_sample() && (i % 71 == 0) {
                    rep.sample(case(Some(e)));
                }
            }
        }
    }));

    // ---- named constants
    let l = listing.clone();
    let n_named = named().len() as u64;
    st.push(Stage::new("named", n_named, move |i, rep| {
        let c = &named()[i as usize];
        let row = match l.find(c.listing_name) {
            Some(r) => r,
            None => {
                rep.inconclusive("listing-row-for-named-constant-not-found");
                return;
            }
        };
        rep.eval();
        rep.count("named/checked", 1);
        rep.nontrivial(CaseHash::new("c20-named").s(c.ident).0);
        let (expected, text, what) = match c.field {
            Field::Value => (row.value, &row.value_text, "value"),
            Field::Unc => (row.unc, &row.unc_text, "uncertainty"),
        };
        let case = J::obj()
            .set("constant", format!("bacon_sci::constants::{}", c.ident))
            .set("got", c.got)
            .set("got_bits", bits(c.got))
            .set("listing_name", c.listing_name)
            .set("field", what)
            .set("listed_text", text.as_str())
            .set("expected", expected)
            .set("expected_bits", bits(expected))
            .set("listing_line", row.line_no);
        let equal = c.got.to_bits() == expected.to_bits();
        // "equals the table entry (or the defining exact value)": where the listing truncates an exact
        // quantity ("...") the full-precision value of its defining expression is accepted as well
        let exact_alt = if matches!(c.field, Field::Value) && row.truncated { relations().into_iter().find(|r| r.name == c.ident).map(|r| r.derived) } else { None };
        let by_definition = exact_alt.map(|d| (c.got - d).abs() <= DEFINING_REL * d.abs()).unwrap_or(false);
        let ok = equal || by_definition;
        if equal {
            rep.count("named/bit_equal", 1);
        } else if by_definition {
            rep.count("named/equal_to_defining_expression", 1);
        }
        rep.max("named/abs_rel_difference", ((c.got - expected) / if expected != 0.0 { expected } else { 1.0 }).abs());
        if !ok {
            rep.violation(&format!("named/{}", c.ident), case.clone(), format!("constants::{} = {:e} but the listing gives {} {} = {:e}", c.ident, c.got, c.listing_name, what, expected));
        }
        if rep.wants_sample() && i % 9 == 0 {
            rep.sample(case);
        }
    }));

    // ---- defining SI values
    let n_def = defining().len() as u64;
    st.push(Stage::new("defining", n_def, move |i, rep| {
        let (ident, got, exact) = defining()[i as usize];
        rep.eval();
        rep.count("defining/checked", 1);
        rep.nontrivial(CaseHash::new("c20-defining").s(ident).0);
        if got.to_bits() != exact.to_bits() {
            rep.violation(
                &format!("defining/{}", ident),
                J::obj().set("constant", format!("bacon_sci::constants::{}", ident)).set("got", got).set("got_bits", bits(got)).set("defining_value", exact).set("defining_bits", bits(exact)),
                format!("constants::{} = {:e} is not the defining value {:e}", ident, got, exact),
            );
        }
    }));

    // ---- derived relations
    let l = listing.clone();
    let n_rel = relations().len() as u64;
    st.push(Stage::new("relations", n_rel, move |i, rep| {
        let r = &relations()[i as usize];
        let row = match l.find(r.listing_name) {
            Some(x) => x,
            None => {
                rep.inconclusive("listing-row-for-relation-not-found");
                return;
            }
        };
        rep.eval();
        rep.count("relations/checked", 1);
        rep.nontrivial(CaseHash::new("c20-relation").s(r.name).0);
        // "to the precision quoted": one unit of the last listed digit (the listing truncates)
        let unit = row.last_digit;
        let diff = (r.got - r.derived).abs();
        rep.max("relations/difference_in_units_of_last_listed_digit", diff / unit);
        rep.max(&format!("relations/{}/difference_in_units_of_last_listed_digit", r.name), diff / unit);
        let case = J::obj()
            .set("constant", format!("bacon_sci::constants::{}", r.name))
            .set("got", r.got)
            .set("formula", r.formula)
            .set("derived_from_library_constants", r.derived)
            .set("listed_text", row.value_text.as_str())
            .set("one_unit_of_last_listed_digit", unit)
            .set("difference", diff);
        if !(diff <= unit) {
            rep.violation(&format!("relation/{}", r.name), case.clone(), format!("constants::{} = {:e} but {} = {:e}: differs by {:e}, more than one unit {:e} of the last digit quoted", r.name, r.got, r.formula, r.derived, diff, unit));
        }
        if rep.wants_sample() && i == 2 {
            rep.sample(case);
        }
    }));
    st
}

pub fn thresholds(_ctx: &Ctx, rep: &Report) -> Vec<Threshold> {
    vec![
        Threshold { what: "listing rows parsed and compared with the table".into(), required: ROWS_EXPECTED as f64, observed: rep.counter("rows/checked") as f64 },
        Threshold { what: "fraction of data lines the independent parser understood".into(), required: 1.0, observed: if rep.counter("listing/data_lines") > 0 { rep.counter("listing/rows_parsed") as f64 / rep.counter("listing/data_lines") as f64 } else { 0.0 } },
        Threshold { what: "keys of the compiled table checked against the listing".into(), required: ROWS_EXPECTED as f64, observed: rep.counter("table/keys_checked") as f64 },
        Threshold { what: "named constants compared with their listing row".into(), required: named().len() as f64, observed: rep.counter("named/checked") as f64 },
        Threshold { what: "defining SI values compared".into(), required: defining().len() as f64, observed: rep.counter("defining/checked") as f64 },
        Threshold { what: "derived relations evaluated".into(), required: relations().len() as f64, observed: rep.counter("relations/checked") as f64 },
        Threshold { what: "exact rows (uncertainty 0) seen".into(), required: 50.0, observed: rep.counter("rows/exact") as f64 },
        Threshold { what: "rows with a negative value seen".into(), required: 20.0, observed: rep.counter("rows/negative_value") as f64 },
        Threshold { what: "rows with a truncated ('...') value seen".into(), required: 50.0, observed: rep.counter("rows/value_truncated_with_dots") as f64 },
    ]
}
