//! C06 — IVP builders validate input; user errors end iteration exactly once.
//! (1) exhaustive small-scope enumeration of builder call sequences against a reference model of
//!     the builder contract; (2) fault enumeration: the derivative fails at call k for every k.

use crate::gen::ivp::*;
use crate::ivpdrv::*;
use crate::json::J;
use crate::probe::{self, Guarded};
use crate::report::*;
use crate::rng::{CaseHash, Rng};
use bacon_sci::ivp::{adams::*, bdf::*, rk::*, Euler, IVPError, IVPSolver, UserError};
use bacon_sci::BVector;
use nalgebra::{Const, Dyn, U1};

pub fn meta() -> CheckMeta {
    CheckMeta {
        id: "C06",
        level: "fault_enumeration",
        rule: "(1) builder sequences: alphabet of 19 builder calls (with_tolerance{1e-3,1e-17,0,-}, with_maximum_dt{0.25,0.5,0,-1}, with_minimum_dt{0.125,1.0,0,-0.5}, with_initial_time{0,10}, with_ending_time{0,10}, with_initial_conditions{[1.0],[-2.5]}, with_derivative); ALL sequences up to length 4 (quick) / 5 (thorough), each alone and with two completing suffixes, for all 7 builders on a static dimension, and all sequences up to length 3 on a dynamic dimension; every call's outcome is compared with a reference model of the contract, complete configurations must build and their first item on y'=0 must carry the initial condition set last and lie at the model's (dt_min+dt_max)/2 from t0 (Euler: the averaged dt). (2) faults: for every solver and problem a reference run counts N derivative calls, then for EVERY k = 1..N the derivative fails at call k with Boom(k): history must be Ok*, exactly one Err carrying Boom(k), then None on 5 further next() calls with no further derivative call; collect_vec must return that error. Non-trivial: a sequence containing an invalid value or a min/max pair in coupling order, and every distinct (solver, problem, k); distinct = hash of the sequence / fault point".into(),
        assumptions: vec![
            "Euler::with_tolerance is documented 'unused, no-op': for a non-positive tolerance the model accepts Ok or Err(ToleranceOOB), never a panic".into(),
            "only the first yielded item of the y'=0 probe solve is inspected (gaps/end time are C01's statement, at-rest failures C05's)".into(),
        ],
        exhaustive: true,
        stuck_is_violation: false,
    }
}

// ---------------------------------------------------------------------------- builder model

#[derive(Clone, Copy, Debug, PartialEq)]
enum Sym {
    Tol(f64),
    Max(f64),
    Min(f64),
    T0(f64),
    T1(f64),
    Ic(f64),
    Der,
}

const ALPHABET: [Sym; 20] = [
    Sym::Tol(1e-3),
    Sym::Tol(2.0),
    Sym::Tol(1e-17),
    Sym::Tol(0.0),
    Sym::Tol(-1.0),
    Sym::Max(0.25),
    Sym::Max(0.5),
    Sym::Max(0.0),
    Sym::Max(-1.0),
    Sym::Min(0.125),
    Sym::Min(1.0),
    Sym::Min(0.0),
    Sym::Min(-0.5),
    Sym::T0(0.0),
    Sym::T0(10.0),
    Sym::T1(0.0),
    Sym::T1(10.0),
    Sym::Ic(1.0),
    Sym::Ic(-2.5),
    Sym::Der,
];

fn sym_name(s: Sym) -> String {
    match s {
        Sym::Tol(v) => format!("with_tolerance({})", v),
        Sym::Max(v) => format!("with_maximum_dt({})", v),
        Sym::Min(v) => format!("with_minimum_dt({})", v),
        Sym::T0(v) => format!("with_initial_time({})", v),
        Sym::T1(v) => format!("with_ending_time({})", v),
        Sym::Ic(v) => format!("with_initial_conditions_slice([{}])", v),
        Sym::Der => "with_derivative(zero)".into(),
    }
}

#[derive(Clone, Copy, Debug, PartialEq)]
enum Out {
    Ok,
    TolOOB,
    DtOOB,
    StartOOB,
    EndOOB,
    Missing,
    Other,
    Panic,
}

fn classify_err(e: &IVPError) -> Out {
    match e {
        IVPError::ToleranceOOB => Out::TolOOB,
        IVPError::TimeDeltaOOB => Out::DtOOB,
        IVPError::TimeStartOOB => Out::StartOOB,
        IVPError::TimeEndOOB => Out::EndOOB,
        IVPError::MissingParameters => Out::Missing,
        _ => Out::Other,
    }
}

/// Reference model of the builder contract (written from the trait documentation and the
/// property text, not from the implementations).
#[derive(Default, Clone)]
struct Model {
    tol: Option<f64>,
    max: Option<f64>,
    min: Option<f64>,
    t0: Option<f64>,
    t1: Option<f64>,
    ic: Option<f64>,
    der: bool,
    euler: bool,
    dt: Option<f64>,
    saw_invalid: bool,
    saw_coupling: bool,
}

impl Model {
    /// returns the acceptable outcomes of this call
    fn apply(&mut self, s: Sym) -> Vec<Out> {
        match s {
            Sym::Tol(v) => {
                if v > 0.0 {
                    if !self.euler {
                        self.tol = Some(v);
                    }
                    vec![Out::Ok]
                } else {
                    self.saw_invalid = true;
                    if self.euler {
                        vec![Out::Ok, Out::TolOOB]
                    } else {
                        vec![Out::TolOOB]
                    }
                }
            }
            Sym::Max(v) => {
                if v <= 0.0 {
                    self.saw_invalid = true;
                    return vec![Out::DtOOB];
                }
                if self.euler {
                    self.dt = Some(match self.dt {
                        Some(d) => (d + v) / 2.0,
                        None => v,
                    });
                } else {
                    self.max = Some(v);
                    if let Some(m) = self.min {
                        if m > v {
                            self.min = Some(v);
                            self.saw_coupling = true;
                        }
                    }
                }
                vec![Out::Ok]
            }
            Sym::Min(v) => {
                if v <= 0.0 {
                    self.saw_invalid = true;
                    return vec![Out::DtOOB];
                }
                if self.euler {
                    self.dt = Some(match self.dt {
                        Some(d) => (d + v) / 2.0,
                        None => v,
                    });
                } else {
                    self.min = Some(v);
                    if let Some(m) = self.max {
                        if m < v {
                            self.max = Some(v);
                            self.saw_coupling = true;
                        }
                    }
                }
                vec![Out::Ok]
            }
            Sym::T0(v) => {
                self.t0 = Some(v);
                if let Some(e) = self.t1 {
                    if e <= v {
                        self.saw_invalid = true;
                        return vec![Out::StartOOB];
                    }
                }
                vec![Out::Ok]
            }
            Sym::T1(v) => {
                self.t1 = Some(v);
                if let Some(b) = self.t0 {
                    if b >= v {
                        self.saw_invalid = true;
                        return vec![Out::EndOOB];
                    }
                }
                vec![Out::Ok]
            }
            Sym::Ic(v) => {
                // "should reset any previous values": the last call wins
                self.ic = Some(v);
                vec![Out::Ok]
            }
            Sym::Der => {
                self.der = true;
                vec![Out::Ok]
            }
        }
    }
    fn complete(&self) -> bool {
        self.t0.is_some() && self.t1.is_some() && self.ic.is_some() && self.der && if self.euler { self.dt.is_some() } else { self.tol.is_some() && self.max.is_some() && self.min.is_some() }
    }
}

type F1 = fn(f64, &[f64], &mut ()) -> Result<BVector<f64, Const<1>>, UserError>;
type FD = fn(f64, &[f64], &mut ()) -> Result<BVector<f64, Dyn>, UserError>;
fn zero1(_t: f64, _y: &[f64], _: &mut ()) -> Result<BVector<f64, Const<1>>, UserError> {
    Ok(BVector::<f64, Const<1>>::from_element_generic(Const::<1>, U1::from_usize(1), 0.0))
}
fn zerod(_t: f64, y: &[f64], _: &mut ()) -> Result<BVector<f64, Dyn>, UserError> {
    Ok(BVector::<f64, Dyn>::from_element_generic(Dyn(y.len()), U1::from_usize(1), 0.0))
}
use nalgebra::Dim;

struct SeqStats {
    runs: u64,
    complete: u64,
    first_step_checked: u64,
    first_item_err: u64,
}

/// Drive one sequence through builder type S. Returns Err(description) on a deviation.
fn drive<S, D>(seq: &[Sym], euler: bool, dynamic: bool, der: S::Derivative, st: &mut SeqStats) -> Result<(bool, bool), (String, String)>
where
    D: bacon_sci::Dimension,
    nalgebra::DefaultAllocator: nalgebra::allocator::Allocator<f64, D>,
    S: IVPSolver<'static, D, Field = f64, RealField = f64, UserData = (), Error = IVPError>,
    S::Derivative: Copy,
{
    st.runs += 1;
    let mut model = Model { euler, ..Default::default() };
    let made = probe::guard(|| if dynamic { S::new_dyn(1) } else { S::new() });
    let mut b = match made {
        Guarded::Ok(Ok(b)) => b,
        Guarded::Ok(Err(e)) => return Err(("constructor-rejected".into(), format!("constructor failed: {:?}", e))),
        _ => return Err(("panic".into(), "constructor panicked".into())),
    };
    for (i, s) in seq.iter().enumerate() {
        let allowed = model.apply(*s);
        let r = probe::guard(|| match *s {
            Sym::Tol(v) => b.with_tolerance(v),
            Sym::Max(v) => b.with_maximum_dt(v),
            Sym::Min(v) => b.with_minimum_dt(v),
            Sym::T0(v) => b.with_initial_time(v),
            Sym::T1(v) => b.with_ending_time(v),
            Sym::Ic(v) => b.with_initial_conditions_slice(&[v]),
            Sym::Der => Ok(b.with_derivative(der)),
        });
        let (out, nb) = match r {
            Guarded::Ok(Ok(nb)) => (Out::Ok, Some(nb)),
            Guarded::Ok(Err(e)) => (classify_err(&e), None),
            _ => (Out::Panic, None),
        };
        if !allowed.contains(&out) {
            let sig = if out == Out::Panic { "panic" } else if out == Out::Ok { "invalid-value-accepted" } else { "wrong-outcome" };
            return Err((sig.into(), format!("call {} {}: got {:?}, contract allows {:?}", i, sym_name(*s), out, allowed)));
        }
        match nb {
            Some(x) => b = x,
            None => return Ok((model.saw_invalid, model.saw_coupling)),
        }
    }
    let complete = model.complete();
    let r = probe::guard(|| b.solve(()));
    match r {
        Guarded::Panic(m, l) => Err(("panic".into(), format!("solve() panicked: {} at {}", m, l))),
        Guarded::Budget => Err(("panic".into(), "solve() hit the budget sentinel".into())),
        Guarded::Ok(Err(e)) => {
            if complete {
                Err(("complete-config-rejected".into(), format!("solve() returned {:?} on a complete valid configuration", e)))
            } else if classify_err(&e) == Out::Missing {
                Ok((model.saw_invalid, model.saw_coupling))
            } else {
                Err(("wrong-outcome".into(), format!("solve() on an incomplete configuration returned {:?}, expected MissingParameters", e)))
            }
        }
        Guarded::Ok(Ok(mut it)) => {
            if !complete {
                return Err(("incomplete-config-accepted".into(), "solve() returned Ok although a mandatory parameter is missing".into()));
            }
            st.complete += 1;
            // observe the effective step through the first item(s) of y' = 0
            let t0 = model.t0.unwrap();
            let t1 = model.t1.unwrap();
            let first = probe::guard(|| {
                let a = it.next();
                let b = if euler { it.next() } else { None };
                (a, b)
            });
            let (a, b2) = match first {
                Guarded::Ok(x) => x,
                _ => return Err(("panic".into(), "next() panicked on y' = 0".into())),
            };
            if euler {
                let dt = model.dt.unwrap();
                match (a, b2) {
                    (Some(Ok((ta, ya))), Some(Ok((tb, _)))) => {
                        st.first_step_checked += 1;
                        if ya.len() != 1 || ya[0] != model.ic.unwrap() {
                            return Err(("initial-conditions".into(), format!("Euler: first item carries state {:?}, the last with_initial_conditions call set {}", ya.as_slice(), model.ic.unwrap())));
                        }
                        if ta != t0 || ((tb - ta) - dt.min(t1 - t0)).abs() > 1e-12 {
                            return Err(("effective-step".into(), format!("Euler: first items at {} and {}: step {} but the contract gives dt = {}", ta, tb, tb - ta, dt)));
                        }
                    }
                    _ => st.first_item_err += 1,
                }
            } else {
                let (mn, mx) = (model.min.unwrap(), model.max.unwrap());
                let dt0 = (mn + mx) / 2.0;
                match a {
                    Some(Ok((ta, ya))) => {
                        st.first_step_checked += 1;
                        // y' = 0: every yielded state equals the initial condition that was set last
                        if ya.len() != 1 || ya[0] != model.ic.unwrap() {
                            return Err(("initial-conditions".into(), format!("first item carries state {:?}, the last with_initial_conditions call set {}", ya.as_slice(), model.ic.unwrap())));
                        }
                        // alphabet: t0 = 0, t1 = 10, dt0 <= 1 : no clipping, no shortened start-up
                        if !((ta - t0 - dt0).abs() <= 1e-12) {
                            return Err((
                                "effective-step".into(),
                                format!("first yielded time {} is t0 + {}, but minimum <= maximum coupling gives (dt_min, dt_max) = ({}, {}) and a first step of {}", ta, ta - t0, mn, mx, dt0),
                            ));
                        }
                    }
                    // On y' = 0 every error estimate is exactly zero, so no solver ever shrinks its step:
                    // MinimumTimeDeltaExceeded can only mean that the builder handed over
                    // dt_min > dt_max, i.e. the min/max coupling rule was not applied.
                    Some(Err(IVPError::MinimumTimeDeltaExceeded)) => {
                        return Err((
                            "minimum-exceeds-maximum".into(),
                            format!("the y' = 0 probe solve reported MinimumTimeDeltaExceeded at its first step: the builder left minimum > maximum (contract: ({}, {}))", mn, mx),
                        ));
                    }
                    _ => st.first_item_err += 1,
                }
            }
            Ok((model.saw_invalid, model.saw_coupling))
        }
    }
}

fn drive_solver(solver: Solver, dynamic: bool, seq: &[Sym], st: &mut SeqStats) -> Result<(bool, bool), (String, String)> {
    macro_rules! go {
        ($S:ident, $e:expr) => {{
            if dynamic {
                drive::<$S<'static, f64, Dyn, (), FD>, Dyn>(seq, $e, true, zerod as FD, st)
            } else {
                drive::<$S<'static, f64, Const<1>, (), F1>, Const<1>>(seq, $e, false, zero1 as F1, st)
            }
        }};
    }
    match solver {
        Solver::Euler => go!(Euler, true),
        Solver::RK45 => go!(RungeKutta45, false),
        Solver::RK23 => go!(RungeKutta23, false),
        Solver::Adams5 => go!(Adams5, false),
        Solver::Adams3 => go!(Adams3, false),
        Solver::BDF6 => go!(BDF6, false),
        Solver::BDF2 => go!(BDF2, false),
    }
}

const SUFFIXES: [&[Sym]; 3] = [
    &[],
    &[Sym::Tol(1e-3), Sym::Ic(1.0), Sym::Der],
    &[Sym::T0(0.0), Sym::T1(10.0), Sym::Ic(1.0), Sym::Der, Sym::Tol(1e-3)],
];

fn run_sequence(rep: &mut Report, solver: Solver, dynamic: bool, idx: &[usize], st: &mut SeqStats) {
    let base: Vec<Sym> = idx.iter().map(|i| ALPHABET[*i]).collect();
    for suf in SUFFIXES.iter() {
        let mut full = base.clone();
        full.extend_from_slice(suf);
        rep.eval();
        match drive_solver(solver, dynamic, &full, st) {
            Ok((inv, coup)) => {
                if inv || coup {
                    let mut h = CaseHash::new("c06-seq").u(solver.idx() as u64).u(dynamic as u64);
                    for s in &full {
                        h = h.s(&sym_name(*s));
                    }
                    rep.nontrivial(h.0);
                    if coup {
                        rep.count("sequences_with_min_max_coupling", 1);
                    }
                    if inv {
                        rep.count("sequences_with_invalid_value", 1);
                    }
                    if coup && rep.wants_sample() && full.len() <= 6 {
                        rep.sample(J::obj().set("kind", "builder-sequence").set("solver", solver.name()).set("dynamic", dynamic).set("calls", J::Arr(full.iter().map(|s| J::from(sym_name(*s))).collect())).set("outcome", "every call matched the contract model"));
                    }
                }
            }
            Err((sig, detail)) => {
                rep.violation(
                    &format!("builder/{}/{}", solver.name(), sig),
                    J::obj().set("solver", solver.name()).set("dynamic", dynamic).set("calls", J::Arr(full.iter().map(|s| J::from(sym_name(*s))).collect())),
                    detail,
                );
            }
        }
    }
}

fn enumerate(rep: &mut Report, solver: Solver, dynamic: bool, idx: &mut Vec<usize>, maxlen: usize, st: &mut SeqStats) {
    run_sequence(rep, solver, dynamic, idx, st);
    if idx.len() < maxlen {
        for i in 0..ALPHABET.len() {
            idx.push(i);
            enumerate(rep, solver, dynamic, idx, maxlen, st);
            idx.pop();
        }
    }
}

// ---------------------------------------------------------------------------- fault enumeration

fn fault_case(rep: &mut Report, solver: Solver, prob: &IvpProblem, cfg: &Cfg, mode: DimMode, stride: u64) {
    fault_case_rhs(rep, solver, &FaultProblem { rhs: prob, y0: &prob.y0, json: prob.to_json(), key: &prob.a }, cfg, mode, stride, u64::MAX);
}

/// the problem of a fault enumeration: any right-hand side of the harness
struct FaultProblem<'a> {
    rhs: &'a dyn Rhs<f64>,
    y0: &'a [f64],
    json: J,
    key: &'a [f64],
}

/// y' = -y^3: with a step cap far beyond what the problem tolerates the first trial steps overflow, and later
/// stages of those trials are evaluated at infinite / NaN states (the steppers reject such a trial)
struct CubicDecayRhs;
impl Rhs<f64> for CubicDecayRhs {
    fn dim(&self) -> usize {
        1
    }
    fn eval(&self, _t: f64, y: &[f64], out: &mut [f64]) {
        out[0] = -y[0] * y[0] * y[0];
    }
}

fn fault_case_rhs(rep: &mut Report, solver: Solver, prob: &FaultProblem, cfg: &Cfg, mode: DimMode, stride: u64, k_limit: u64) {
    let sname = solver.name();
    let base = Opts { budget: 2_000_000, max_items: 100_000, mode, extra_next: 5, collect_after: true, ..Default::default() };
    let reference = solve_real(solver, cfg, prob.y0, prob.rhs, &base);
    rep.eval();
    let case0 = || J::obj().set("solver", sname).set("mode", format!("{:?}", mode)).set("cfg", cfg.to_json()).set("problem", prob.json.clone());
    if !reference.clean() {
        rep.inconclusive("reference-run-not-clean(C05)");
        return;
    }
    // after normal completion the iterator stays exhausted
    if reference.extra_some > 0 || reference.extra_calls > 0 {
        rep.violation(&format!("fault/{}/items-after-normal-end", sname), case0(), format!("{} item(s) and {} derivative call(s) after the iterator returned None", reference.extra_some, reference.extra_calls));
        return;
    }
    if let Some((n_items, is_err, c)) = reference.collect_after {
        if n_items > 0 || is_err || c > 0 {
            rep.violation(&format!("fault/{}/collect-vec-after-normal-end", sname), case0(), format!("collect_vec() on the exhausted iterator returned {} item(s){} and called the derivative {} time(s)", n_items, if is_err { " / an error" } else { "" }, c));
            return;
        }
    }
    let n = reference.calls;
    rep.count(&format!("{}/reference_calls", sname), n as i64);
    let ref_pts = reference.ok_points();
    let mut k = 1;
    while k <= n.min(k_limit) {
        // the value the failing call returns: mostly the harness's own error type carrying k; every
        // fourth fault point returns a boxed solver status instead (what a derivative that drives a nested
        // stepper forwards with `?`): Done, Redo or Failure(MinimumTimeDeltaExceeded) - the user's error all the same
        let payload: u8 = if k % 4 == 2 { 1 + ((k / 4) % 3) as u8 } else { 0 };
        let want = if payload == 0 { k } else { STATUS_PAYLOAD + payload as u64 };
        if payload != 0 {
            rep.count(&format!("{}/fault_points_with_a_solver_status_as_error_value", sname), 1);
        }
        let opts = Opts { fail_at: Some(k), fail_payload: payload, ..base.clone() };
        let out = solve_real(solver, cfg, prob.y0, prob.rhs, &opts);
        rep.eval();
        rep.count(&format!("{}/fault_points", sname), 1);
        let case = || case0().set("fail_at_call", k).set("reference_calls", n).set("error_value_returned_by_the_failing_call", ["the harness's error type Boom(k)", "boxed IVPStatus::Done", "boxed IVPStatus::Redo", "boxed IVPStatus::Failure(MinimumTimeDeltaExceeded)"][payload as usize]);
        let mut ok = true;
        if let Some((m, l)) = &out.panic {
            rep.violation(&format!("fault/{}/panic", sname), case(), format!("panicked with a failing derivative: {} at {}", m, l));
            ok = false;
        } else if out.build_err.is_some() {
            rep.violation(&format!("fault/{}/build", sname), case(), format!("{:?}", out.build_err));
            ok = false;
        } else {
            // history: Ok*, then exactly one Err carrying Boom(k)
            let n_items = out.items.len();
            let errs = out.n_err();
            let last_is_err = matches!(out.items.last(), Some(Item::Err(_)));
            if errs != 1 || !last_is_err {
                rep.violation(
                    &format!("fault/{}/not-exactly-one-err", sname),
                    case(),
                    format!("history has {} items with {} Err item(s); last item is {}an Err (derivative calls made: {})", n_items, errs, if last_is_err { "" } else { "not " }, out.calls),
                );
                ok = false;
            } else {
                match out.items.last() {
                    Some(Item::Err(ErrKind::User(_, Some(kk)))) if *kk == want => {}
                    Some(Item::Err(e)) => {
                        rep.violation(&format!("fault/{}/err-does-not-carry-user-error", sname), case(), format!("the Err item is {} instead of UserError(<the value the failing call {} returned>)", e.short(), k));
                        ok = false;
                    }
                    _ => {}
                }
            }
            if ok && (out.extra_some > 0 || out.extra_calls > 0 || out.calls != k) {
                rep.violation(
                    &format!("fault/{}/iteration-continues-after-error", sname),
                    case(),
                    format!("after the Err item: {} further item(s) from 5 next() calls, {} further derivative call(s); total calls {} (fault at {})", out.extra_some, out.extra_calls, out.calls, k),
                );
                ok = false;
            }
            if ok {
                // mixed consumption: next() up to the Err item, then collect_vec() on the same iterator
                if let Some((n_items, is_err, c)) = out.collect_after {
                    if n_items > 0 || is_err || c > 0 {
                        rep.violation(
                            &format!("fault/{}/collect-vec-continues-after-error", sname),
                            case(),
                            format!("after the Err item was taken with next(), collect_vec() on the same iterator returned {} further item(s){} and called the derivative {} more time(s)", n_items, if is_err { " / another error" } else { "" }, c),
                        );
                        ok = false;
                    }
                }
            }
            if ok {
                // the Ok prefix must be a prefix of the reference path (same problem, same arithmetic)
                let pts = out.ok_points();
                let same = pts.len() <= ref_pts.len() && pts.iter().zip(&ref_pts).all(|(a, b)| a.0 == b.0 && a.1 == b.1);
                if !same {
                    rep.violation(&format!("fault/{}/prefix-differs", sname), case(), format!("the {} points yielded before the error are not a prefix of the fault-free path", pts.len()));
                    ok = false;
                }
            }
        }
        if ok {
            // collect_vec on an identically configured run returns that error
            let o2 = solve_real(solver, cfg, prob.y0, prob.rhs, &Opts { collect_vec: true, ..opts.clone() });
            rep.eval();
            match o2.items.as_slice() {
                [Item::Err(ErrKind::User(_, Some(kk)))] if *kk == want => {}
                other => {
                    rep.violation(
                        &format!("fault/{}/collect-vec", sname),
                        case(),
                        format!("collect_vec returned {} item(s) / {:?} instead of Err(UserError(Boom({})))", other.len(), o2.first_err().map(|e| e.short()), k),
                    );
                    ok = false;
                }
            }
        }
        if ok {
            rep.nontrivial(CaseHash::new("c06-fault").u(solver.idx() as u64).fs(prob.key).f(cfg.tol).f(cfg.t1).u(k).0);
            if rep.wants_sample() && k == n / 2 + 1 {
                let hist: Vec<J> = out.items.iter().map(|i| match i {
                    Item::Ok(t, _) => J::from(format!("Ok(t={:.6})", t)),
                    Item::Err(e) => J::from(format!("Err({})", e.short())),
                }).collect();
                rep.sample(case().set("kind", "fault").set("history", J::Arr(hist)).set("then", "None x5, no further derivative call; collect_vec -> same error"));
            }
        }
        k += stride;
    }
}

pub fn stages(ctx: &Ctx) -> Vec<Stage> {
    let seed = ctx.seed;
    let tier = ctx.tier;
    let mut st = vec![];
    // (1a) static dimension: 7 solvers x prefixes of length <= 2; each length-2 prefix expands its subtree
    let a = ALPHABET.len() as u64;
    let per_solver = 1 + a + a * a;
    let maxlen = tier.pick(4usize, 5usize);
    st.push(Stage::new("builder-static", 7 * per_solver, move |i, rep| {
        let solver = Solver::ALL[(i / per_solver) as usize];
        let r = i % per_solver;
        let mut stt = SeqStats { runs: 0, complete: 0, first_step_checked: 0, first_item_err: 0 };
        if r == 0 {
            run_sequence(rep, solver, false, &[], &mut stt);
        } else if r <= a {
            run_sequence(rep, solver, false, &[(r - 1) as usize], &mut stt);
        } else {
            let q = r - 1 - a;
            let mut idx = vec![(q / a) as usize, (q % a) as usize];
            enumerate(rep, solver, false, &mut idx, maxlen, &mut stt);
        }
        rep.count(&format!("{}/sequence_runs", solver.name()), stt.runs as i64);
        rep.count(&format!("{}/complete_configs_built", solver.name()), stt.complete as i64);
        rep.count(&format!("{}/first_step_observed", solver.name()), stt.first_step_checked as i64);
        rep.count("first_item_err_inconclusive", stt.first_item_err as i64);
    }));
    // (1b) dynamic dimension, length <= 3
    st.push(Stage::new("builder-dynamic", 7 * (1 + a), move |i, rep| {
        let solver = Solver::ALL[(i / (1 + a)) as usize];
        let r = i % (1 + a);
        let mut stt = SeqStats { runs: 0, complete: 0, first_step_checked: 0, first_item_err: 0 };
        if r == 0 {
            run_sequence(rep, solver, true, &[], &mut stt);
        } else {
            let mut idx = vec![(r - 1) as usize];
            enumerate(rep, solver, true, &mut idx, 3, &mut stt);
        }
        rep.count(&format!("{}/sequence_runs_dynamic", solver.name()), stt.runs as i64);
        rep.count(&format!("{}/first_step_observed", solver.name()), stt.first_step_checked as i64);
        rep.count("first_item_err_inconclusive", stt.first_item_err as i64);
    }));
    // (1c) static/dynamic dimension misuse
    st.push(Stage::new("dimension-misuse", 7, move |i, rep| {
        let solver = Solver::ALL[i as usize];
        for (what, got) in dimension_misuse(solver) {
            rep.eval();
            let expect = match what.as_str() {
                "new() on Dyn" => "StaticOnDynamic",
                "new_dyn(2) on Const<1>" | "new_dyn(1) on Const<1>" | "new_dyn(3) on Const<3>" => "DynamicOnStatic",
                _ => "Ok",
            };
            rep.count("dimension_misuse_probes", 1);
            if got != expect {
                rep.violation(&format!("builder/{}/dimension-misuse", solver.name()), J::obj().set("solver", solver.name()).set("call", what.as_str()), format!("{} returned {}, contract: {}", what, got, expect));
            } else {
                rep.nontrivial(CaseHash::new("c06-dim").u(solver.idx() as u64).s(&what).0);
            }
        }
    }));
    // (2) fault enumeration
    let n_prob = tier.pick(4u64, 12u64);
    st.push(Stage::new("faults", 7 * n_prob, move |i, rep| {
        let solver = Solver::ALL[(i % 7) as usize];
        let p = i / 7;
        // the first four problems are seed-independent anchors
        let mut rng = if p < 4 { Rng::for_case(606, "c06-fault-anchor", p) } else { Rng::for_case(seed, "c06-fault", p) };
        let n = 1 + (p as usize) % 3;
        let prob = IvpProblem::gen(&mut rng, n, [0usize, 2, 1, 5][(p % 4) as usize]);
        let tol = rng.log10(-7.0, -4.0);
        let dt_max = if solver == Solver::Euler { 0.02 } else { dtmax_for(solver, prob.lip, tol, 0.9) * 3.0 };
        // interval lengths: many steps; a single (clipped) first step - the multistep solvers then finish
        // with an empty history; two or three steps
        let steps = match p % 4 {
            1 => rng.r(0.15, 0.5),
            2 => rng.r(1.0, 3.5),
            _ => {
                if solver == Solver::Euler {
                    40.0
                } else {
                    rng.r(12.0, 30.0)
                }
            }
        };
        let cfg = Cfg { t0: 0.0, t1: dt_max * steps, dt_min: dt_max * 1e-7, dt_max, tol };
        fault_case(rep, solver, &prob, &cfg, if p % 2 == 0 { DimMode::Static } else { DimMode::Dynamic }, 1);
    }));
    // (2b) faults at calls that receive a non-finite state (round 11): Runge-Kutta solvers on y' = -y^3 from a large
    // state with a step cap of the whole interval; the first trials overflow, and the calls of their later stages
    // get an infinite or NaN state (calls 6, 12, 18 for RK45 from 1000; observed and counted by the stage itself). An error returned there is the user's
    // error like any other. Every call of the first 400 is a fault point.
    st.push(Stage::new("faults-on-overflowing-trials", 2 * 4, move |i, rep| {
        // (RK45 only: the three-stage scheme needs a state of 1e12 for a stage to overflow within one trial, and its
        // fault-free path from there is longer than the item cap of the driver; step() is shared by both schemes)
        let solver = Solver::RK45;
        let y0 = [1000.0, 300.0, 100.0, 3000.0][(i / 2) as usize];
        let cfg = Cfg { t0: 0.0, t1: 1.0, dt_min: 1e-12, dt_max: 1.0, tol: 1e-4 };
        // count the calls of a fault-free run that receive a non-finite state
        struct Watch(std::sync::atomic::AtomicU64);
        impl Rhs<f64> for Watch {
            fn dim(&self) -> usize {
                1
            }
            fn eval(&self, _t: f64, y: &[f64], out: &mut [f64]) {
                if !y[0].is_finite() {
                    self.0.fetch_add(1, std::sync::atomic::Ordering::Relaxed);
                }
                out[0] = -y[0] * y[0] * y[0];
            }
        }
        let w = Watch(std::sync::atomic::AtomicU64::new(0));
        let r0 = solve_real(solver, &cfg, &[y0], &w, &Opts { budget: 2_000_000, max_items: 100_000, mode: DimMode::Static, ..Default::default() });
        let nonfinite = w.0.load(std::sync::atomic::Ordering::Relaxed);
        if r0.clean() && nonfinite > 0 {
            rep.count(&format!("{}/derivative_calls_with_a_non_finite_state_in_the_fault_free_run", solver.name()), nonfinite as i64);
            rep.count(&format!("{}/fault_enumerations_over_a_run_with_overflowing_trials", solver.name()), 1);
        }
        let y0v = [y0];
        let key = [y0, -3.0];
        fault_case_rhs(rep, solver, &FaultProblem { rhs: &CubicDecayRhs, y0: &y0v, json: J::obj().set("rhs", "y' = -y^3").set("y0", y0), key: &key }, &cfg, if i % 2 == 0 { DimMode::Static } else { DimMode::Dynamic }, 1, 400);
    }));
    // (3) valid configurations far from the enumerated values: every complete configuration with
    // t1 > t0, 0 < dt_min <= dt_max and tol > 0 must build, whatever the scales involved (start
    // times up to 1e10 in magnitude, minimum steps below the spacing of the floats at the start
    // time, tolerances from 1e-16 to 1) and whatever the order of the builder calls.
    let nsc = tier.pick(21_000u64, 420_000u64);
    st.push(Stage::new("valid-configurations-across-scales", nsc, move |i, rep| {
        let mut rng = Rng::for_case(seed, "c06-scales", i);
        let solver = Solver::ALL[(i % 7) as usize];
        let t0 = match rng.below(5) {
            0 => 0.0,
            1 => rng.sign() * rng.log10(-3.0, 1.0),
            _ => rng.sign() * rng.log10(1.0, 10.0),
        };
        let ulp = (t0.abs() * f64::EPSILON).max(f64::MIN_POSITIVE);
        let span = rng.log10(-6.0, 6.0).max(4096.0 * ulp);
        let dt_max = (span * rng.log10(-4.0, 0.0)).max(64.0 * ulp);
        let dt_min = dt_max * if rng.chance(0.1) { 1.0 } else { rng.log10(-14.0, 0.0) };
        let tol = rng.log10(-16.0, 3.0);
        // "no cap": an infinite maximum step is a positive step bound like any other (4 % of the cases)
        let unbounded = i % 25 == 7;
        let dt_max = if unbounded { f64::INFINITY } else { dt_max };
        let cfg = Cfg { t0, t1: t0 + span, dt_min, dt_max, tol };
        if !(cfg.t1 > cfg.t0 && dt_min > 0.0 && dt_min <= dt_max) {
            return;
        }
        let n = 1 + rng.below(2);
        let prob = IvpProblem::gen(&mut rng, n, 4);
        let opts = Opts { budget: 100_000, max_items: 2, mode: if rng.bool() { DimMode::Static } else { DimMode::Dynamic }, order: rng.below(6) as u8, euler_min: rng.bool(), ..Default::default() };
        let out = solve_real(solver, &cfg, &prob.y0, &prob, &opts);
        rep.eval();
        rep.count(&format!("{}/scaled_valid_configs", solver.name()), 1);
        if unbounded {
            rep.count(&format!("{}/scaled_valid_configs_unbounded_maximum_step", solver.name()), 1);
        }
        if dt_min < ulp {
            rep.count(&format!("{}/scaled_valid_configs_min_step_below_time_resolution", solver.name()), 1);
        }
        let case = || J::obj().set("solver", solver.name()).set("cfg", cfg.to_json()).set("builder_call_order", opts.order as u64).set("mode", format!("{:?}", opts.mode)).set("problem", prob.to_json());
        if let Some((m, l)) = &out.panic {
            rep.violation(&format!("builder/{}/panic", solver.name()), case(), format!("panicked: '{}' at {}", m, l));
        } else if let Some((call, e)) = &out.build_err {
            rep.violation(&format!("builder/{}/complete-config-rejected", solver.name()), case(), format!("valid configuration (t1 > t0, 0 < dt_min <= dt_max, tol > 0) rejected by {}: {}", call, e));
        } else {
            if out.n_err() > 0 && !unbounded {
                rep.inconclusive("scaled-config-first-items-err(C05)");
            }
            rep.nontrivial(CaseHash::new("c06-scales").u(solver.idx() as u64).f(cfg.t0).f(cfg.t1).f(dt_min).f(dt_max).f(tol).u(opts.order as u64).0);
        }
    }));
    st
}

pub fn thresholds(ctx: &Ctx, rep: &Report) -> Vec<Threshold> {
    let mut t = vec![];
    t.push(Threshold { what: "RK45: fault enumerations over a fault-free run in which derivative calls received a non-finite state".into(), required: 6.0, observed: rep.counter("RK45/fault_enumerations_over_a_run_with_overflowing_trials") as f64 });
    for sv in Solver::ALL {
        t.push(Threshold { what: format!("{}: valid configurations whose minimum step is below the spacing of the floats at the start time", sv.name()), required: ctx.tier.pick(300.0, 6_000.0), observed: rep.counter(&format!("{}/scaled_valid_configs_min_step_below_time_resolution", sv.name())) as f64 });
    }
    for sv in Solver::ALL {
        t.push(Threshold { what: format!("{}: valid configurations with an infinite maximum step", sv.name()), required: ctx.tier.pick(80.0, 1_600.0), observed: rep.counter(&format!("{}/scaled_valid_configs_unbounded_maximum_step", sv.name())) as f64 });
    }
    let per_builder = if ctx.tier == Tier::Quick { 460_000.0 } else { 9_000_000.0 };
    for s in Solver::ALL {
        t.push(Threshold { what: format!("{}: builder sequences driven (static)", s.name()), required: per_builder, observed: rep.counter(&format!("{}/sequence_runs", s.name())) as f64 });
        t.push(Threshold { what: format!("{}: complete configurations whose first step was observed", s.name()), required: 100.0, observed: rep.counter(&format!("{}/first_step_observed", s.name())) as f64 });
        t.push(Threshold { what: format!("{}: fault points enumerated", s.name()), required: 50.0, observed: rep.counter(&format!("{}/fault_points", s.name())) as f64 });
    }
    t.push(Threshold { what: "sequences exercising the min/max coupling rule".into(), required: 1000.0, observed: rep.counter("sequences_with_min_max_coupling") as f64 });
    t.push(Threshold { what: "dimension misuse probes".into(), required: 49.0, observed: rep.counter("dimension_misuse_probes") as f64 });
    t
}
