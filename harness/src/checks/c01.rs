//! C01 — IVP solution paths are ordered, gap-bounded and reach the end time.
//! Trace invariants over the complete item sequence of `solve(..)`.

use crate::gen::ivp::*;
use crate::ivpdrv::*;
use crate::json::J;
use crate::report::*;
use crate::rng::{CaseHash, Rng};

const EPS: f64 = f64::EPSILON;

pub fn meta() -> CheckMeta {
    CheckMeta {
        id: "C01",
        level: "exploration",
        rule: "cases: 7 solvers x G-ivp problems (dim 1-4, six flavours) x random configurations (span = dt_max*10^[-0.7,3.3], tol 1e-10..1e-3, static/dynamic dimension) + complete boundary sweep span=(m+delta)*dt0, m=0..2*history+2, 17 deltas. A case is non-trivial when its path has >= 2 items and (a rejected step was seen via the call count, or two different step lengths occur among non-final steps (restart), or the multistep start-up was shortened (span < startup*dt0), or span < dt0); distinct = distinct hash of (solver, mode, problem, configuration)".into(),
        assumptions: vec![
            "time comparisons are exact except the gap bound, which allows dt_max*(1+4eps) + 4eps*|t| for the rounding of t+dt".into(),
            "solves that end in an Err item or exhaust the evaluation budget are judged on their prefix only (their termination is C05's statement)".into(),
        ],
        exhaustive: false,
        stuck_is_violation: false,
    }
}

pub struct Judged {
    pub nontrivial: bool,
    pub clean: bool,
}

/// The C01 oracle over one recorded execution.
pub fn judge(rep: &mut Report, solver: Solver, cfg: &Cfg, n: usize, y0: &[f64], out: &Outcome<f64>, case: &dyn Fn() -> J) -> Judged {
    let sname = solver.name();
    let mut j = Judged { nontrivial: false, clean: false };
    if let Some((m, l)) = &out.panic {
        rep.violation(&format!("{}/panic", sname), case(), format!("solver panicked: '{}' at {}", m, l));
        return j;
    }
    if let Some((call, e)) = &out.build_err {
        rep.violation(&format!("{}/valid-config-rejected", sname), case(), format!("valid configuration rejected by {}: {}", call, e));
        return j;
    }
    if out.dim_mismatch {
        rep.violation(&format!("{}/dimension", sname), case(), "a yielded state does not have the problem's dimension".into());
    }
    let pts = out.ok_points();
    let adaptive = solver != Solver::Euler;
    let mut prev_t = cfg.t0;
    for (i, (t, y)) in pts.iter().enumerate() {
        let first = i == 0;
        if !t.is_finite() {
            rep.violation(&format!("{}/time-not-finite", sname), case(), format!("item {} has time {}", i, t));
            return j;
        }
        let increasing = if first && !adaptive { *t >= prev_t } else { *t > prev_t };
        if !increasing {
            rep.violation(&format!("{}/order", sname), case(), format!("item {} time {:e} is not after the previous time {:e}", i, t, prev_t));
            return j;
        }
        if *t < cfg.t0 || *t > cfg.t1 {
            rep.violation(&format!("{}/outside-interval", sname), case(), format!("item {} time {:.17e} outside [{:.17e}, {:.17e}]", i, t, cfg.t0, cfg.t1));
            return j;
        }
        let gap = *t - prev_t;
        // (times are accumulated sums: their rounding errors are of the size of eps x the largest time of the
        // path, not of the local time - a start-up that began at |t| = 0.23 leaves 5e-17 in a gap near t = 0.01)
        let allowed = cfg.dt_max * (1.0 + 4.0 * EPS) + 16.0 * EPS * t.abs().max(prev_t.abs()).max(cfg.t0.abs()).max(cfg.t1.abs());
        rep.max(&format!("{}/gap_over_dtmax", sname), gap / cfg.dt_max);
        if gap > allowed {
            rep.violation(&format!("{}/gap", sname), case(), format!("item {}: gap {:e} from {:e} to {:e} exceeds dt_max {:e}", i, gap, prev_t, t, cfg.dt_max));
            return j;
        }
        if y.len() != n {
            rep.violation(&format!("{}/dimension", sname), case(), format!("item {} has {} entries, problem has {}", i, y.len(), n));
            return j;
        }
        if !y.iter().all(|v| v.is_finite()) {
            rep.violation(&format!("{}/non-finite-state", sname), case(), format!("item {} at t={:e} has a non-finite entry {:?}", i, t, y));
            return j;
        }
        prev_t = *t;
    }
    let ended_clean = out.clean();
    j.clean = ended_clean;
    if ended_clean {
        if adaptive {
            match pts.last() {
                None => {
                    rep.violation(&format!("{}/empty-path", sname), case(), "solve ended without error and without yielding any point".into());
                    return j;
                }
                Some((t, _)) => {
                    if *t != cfg.t1 {
                        rep.violation(
                            &format!("{}/end-time", sname),
                            case(),
                            format!("solve ended without error at t={:.17e}, ending time is {:.17e} (difference {:e}, {} items)", t, cfg.t1, t - cfg.t1, pts.len()),
                        );
                        return j;
                    }
                }
            }
        } else {
            // Euler: initial state first, then one point per step time strictly before the end
            if pts.is_empty() || pts[0].0 != cfg.t0 || pts[0].1.as_slice() != y0 {
                rep.violation("Euler/initial-item", case(), format!("first item is not (t0, y0): {:?}", pts.first()));
                return j;
            }
            let dt = if out.euler_min_applied { cfg.dt0() } else { cfg.dt_max };
            // plain repeated addition, and repeated addition with the final step clipped to the end
            let mut plain = vec![cfg.t0];
            let mut t = cfg.t0;
            loop {
                t += dt;
                if t >= cfg.t1 || plain.len() > pts.len() + 2 {
                    break;
                }
                plain.push(t);
            }
            let mut clipped = vec![cfg.t0];
            let mut t = cfg.t0;
            loop {
                let step = if t + dt >= cfg.t1 { cfg.t1 - t } else { dt };
                t += step;
                if t >= cfg.t1 || clipped.len() > pts.len() + 2 {
                    break;
                }
                clipped.push(t);
            }
            let got: Vec<f64> = pts.iter().map(|p| p.0).collect();
            if got != plain && got != clipped {
                let k = got.iter().zip(&plain).position(|(a, b)| a != b).unwrap_or(got.len().min(plain.len()));
                rep.violation(
                    "Euler/step-times",
                    case(),
                    format!("item times differ from t_k+1 = t_k + dt for all t_k < t_end: got {} items, model {}; first difference at {} ({:?} vs {:?})", got.len(), plain.len(), k, got.get(k), plain.get(k)),
                );
                return j;
            }
        }
    }
    // non-trivial rule
    if pts.len() >= 2 {
        let span = cfg.span();
        let dt0 = cfg.dt0();
        let mut nt = false;
        if adaptive {
            if solver.is_rk() && ended_clean {
                let accepted = pts.len() as u64;
                if out.calls / solver.stages() > accepted {
                    nt = true;
                    rep.count(&format!("{}/solves_with_rejections", sname), 1);
                }
            }
            if solver.is_multistep() {
                // two different step lengths among non-final steps
                let mut hs: Vec<f64> = vec![];
                let mut p = cfg.t0;
                for (t, _) in pts.iter().take(pts.len() - 1) {
                    hs.push(*t - p);
                    p = *t;
                }
                if hs.windows(2).any(|w| (w[0] - w[1]).abs() > 1e-9 * w[0].abs()) {
                    nt = true;
                    rep.count(&format!("{}/solves_with_restart", sname), 1);
                }
                let startup = if solver.is_bdf() { solver.history() + 1 } else { solver.history() };
                if span < startup as f64 * dt0 {
                    nt = true;
                    rep.count(&format!("{}/solves_startup_shortened", sname), 1);
                }
            }
            if span < dt0 {
                nt = true;
            }
        } else {
            nt = true;
        }
        j.nontrivial = nt;
    }
    j
}

fn run_case(rep: &mut Report, solver: Solver, mode: DimMode, prob: &IvpProblem, cfg: &Cfg, max_items: usize, also_collect: bool) {
    // Euler: in half of the cases the minimum step is configured too (the step is then the mean of the two bounds)
    let opts = Opts { budget: 3_000_000, max_items, mode, extra_next: 2, order: ((cfg.t1.to_bits() >> 7) % 6) as u8, euler_min: (cfg.t1.to_bits() >> 11) % 2 == 1, ..Default::default() };
    if solver == Solver::Euler && opts.euler_min {
        rep.count("Euler/solves_with_both_step_bounds_configured", 1);
    }
    let out = solve_real(solver, cfg, &prob.y0, prob, &opts);
    rep.eval();
    let case = || J::obj().set("solver", solver.name()).set("mode", format!("{:?}", mode)).set("cfg", cfg.to_json()).set("problem", prob.to_json());
    rep.count(&format!("{}/solves", solver.name()), 1);
    rep.count(&format!("{}/items", solver.name()), out.items.len() as i64);
    if out.budget_hit {
        rep.inconclusive("budget-exhausted(C05)");
    }
    if out.n_err() > 0 {
        rep.inconclusive("err-item(C05)");
        rep.count(&format!("{}/err_solves", solver.name()), 1);
    }
    if out.truncated {
        rep.count("truncated_long_paths", 1);
    }
    let j = judge(rep, solver, cfg, prob.n, &prob.y0, &out, &case);
    if out.extra_some > 0 && out.clean() {
        rep.violation(&format!("{}/items-after-end", solver.name()), case(), format!("{} item(s) yielded after the iterator returned None", out.extra_some));
    }
    if j.clean {
        rep.count("clean_solves", 1);
    }
    if j.nontrivial {
        let h = CaseHash::new("c01").u(solver.idx() as u64).u(mode as u64).fs(&prob.a).fs(&prob.y0).f(cfg.t0).f(cfg.t1).f(cfg.dt_max).f(cfg.dt_min).f(cfg.tol);
        rep.nontrivial(h.0);
        if rep.wants_sample() {
            let pts = out.ok_points();
            rep.sample(case().set("items", pts.len()).set("derivative_calls", out.calls).set("first_times", J::fs(&pts.iter().take(6).map(|p| p.0).collect::<Vec<_>>())).set("last_time", pts.last().map(|p| p.0).unwrap_or(f64::NAN)));
        }
    }
    if also_collect && out.clean() {
        // collect_vec on an identically configured run must give the same path bit for bit
        let o2 = solve_real(solver, cfg, &prob.y0, prob, &Opts { collect_vec: true, ..opts.clone() });
        rep.eval();
        let a = out.ok_points();
        let b = o2.ok_points();
        let same = o2.n_err() == 0 && a.len() == b.len() && a.iter().zip(&b).all(|(p, q)| p.0 == q.0 && p.1 == q.1);
        rep.count("collect_vec_compared", 1);
        if !same {
            rep.violation(&format!("{}/collect-vec-differs", solver.name()), case(), format!("collect_vec returned {} points / {:?}, iteration {} points", b.len(), o2.first_err(), a.len()));
        }
    }
}

fn anchor_cfgs(solver: Solver, lip: f64) -> Vec<Cfg> {
    // fixed, seed-independent: one loose and one tight tolerance, short and long spans
    let mut v = vec![];
    for (tol, steps) in [(1e-4, 40.0), (1e-8, 25.0), (1e-6, 3.3), (1e-5, 0.4)] {
        let dt_max = if solver == Solver::Euler { 0.01 } else { dtmax_for(solver, lip, tol, 0.8) };
        v.push(Cfg { t0: -0.5, t1: -0.5 + dt_max * steps, dt_min: dt_max * 1e-7, dt_max, tol });
    }
    v
}

pub fn stages(ctx: &Ctx) -> Vec<Stage> {
    let seed = ctx.seed;
    let tier = ctx.tier;
    let mut st = vec![];
    // anchors: 7 solvers x 6 flavours x 4 cfgs, fixed seed
    st.push(Stage::new("anchors", 7 * 6 * 4, move |i, rep| {
        let solver = Solver::ALL[(i % 7) as usize];
        let flavour = ((i / 7) % 6) as usize;
        let k = (i / 42) as usize;
        let mut rng = Rng::for_case(12345, "c01-anchor", flavour as u64);
        let prob = IvpProblem::gen(&mut rng, 1 + flavour % 4, flavour);
        let cfg = anchor_cfgs(solver, prob.lip)[k].clone();
        run_case(rep, solver, if k % 2 == 0 { DimMode::Static } else { DimMode::Dynamic }, &prob, &cfg, 20_000, true);
    }));
    let n_random = tier.pick(12_000, 240_000);
    st.push(Stage::new("random", n_random, move |i, rep| {
        let mut rng = Rng::for_case(seed, "c01-random", i);
        let solver = Solver::ALL[(i % 7) as usize];
        let n = 1 + rng.below(4);
        let flavour = rng.below(6);
        let prob = IvpProblem::gen(&mut rng, n, flavour);
        let mut cfg = gen_cfg(&mut rng, solver, prob.lip, (-10.0, -3.0), (-0.7, 3.3));
        if rng.chance(0.3) {
            // larger steps than the accuracy rule: forces rejections
            cfg.dt_max *= rng.r(2.0, 20.0);
            cfg.t1 = cfg.t0 + cfg.dt_max * rng.log10(-0.7, 2.5);
        }
        if rng.chance(0.04) {
            // a step cap hundreds to thousands of times above what the tolerance accepts: the solver has
            // to cut its first step a dozen times in a row before anything is yielded
            cfg.dt_max *= rng.log10(2.0, 3.7);
            cfg.dt_min = cfg.dt_max * 1e-12;
            cfg.t1 = cfg.t0 + cfg.dt_max * rng.r(1.5, 4.0);
            rep.count("random_cases_with_a_step_cap_far_above_the_accepted_step", 1);
        }
        if rng.chance(0.1) {
            // an interval far from the origin: t + dt is then rounded to a coarser grid than dt itself
            let shift = rng.sign() * rng.log10(2.0, 5.0);
            cfg.t0 += shift;
            cfg.t1 = cfg.t0 + (cfg.t1 - (cfg.t0 - shift));
            rep.count("random_cases_far_from_the_origin", 1);
        }
        if rng.chance(0.25) {
            // a minimum step that is a sizeable fraction of the maximum (a solve may then legitimately
            // end in MinimumTimeDeltaExceeded; its prefix is judged all the same)
            cfg.dt_min = cfg.dt_max * *rng.pick(&[0.1, 0.3, 0.6, 1.0]);
        }
        let mode = if rng.bool() { DimMode::Static } else { DimMode::Dynamic };
        run_case(rep, solver, mode, &prob, &cfg, 5_000, i % 5 == 0);
    }));
    // boundary sweep: every solver x m x delta x problems
    let n_prob = tier.pick(10u64, 50u64);
    let per_solver: Vec<(Solver, u64)> = Solver::ALL.iter().map(|s| (*s, (2 * s.history() as u64 + 3 + if s.is_bdf() { 2 } else { 0 }) * SWEEP_DELTAS as u64)).collect();
    let total: u64 = per_solver.iter().map(|p| p.1).sum::<u64>() * n_prob;
    st.push(Stage::new("sweep", total, move |i, rep| {
        let pi = i % n_prob;
        let mut r = i / n_prob;
        let mut solver = Solver::Euler;
        for (s, cnt) in &per_solver {
            if r < *cnt {
                solver = *s;
                break;
            }
            r -= *cnt;
        }
        let m = (r / SWEEP_DELTAS as u64) as usize;
        let k = (r % SWEEP_DELTAS as u64) as usize;
        let mut rng = Rng::for_case(seed, "c01-sweep", pi * 1000 + solver.idx() as u64);
        let n = 1 + rng.below(3);
        let fl = rng.below(4);
        let prob = IvpProblem::gen(&mut rng, n, fl);
        let tol = rng.log10(-9.0, -4.0);
        let dt_max = if solver == Solver::Euler { 0.02 } else { dtmax_for(solver, prob.lip, tol, rng.r(0.5, 1.0)) };
        // the minimum step is a free parameter of the configuration: mostly far below the maximum,
        // but also a sizeable fraction of it, or equal to it (then the step is fixed)
        let dt_min = dt_max * [1e-7, 1e-7, 0.3, 0.6, 1.0][(pi % 5) as usize];
        let t0 = rng.r(-2.0, 2.0);
        let dt0 = if solver == Solver::Euler { dt_max } else { (dt_max + dt_min) * 0.5 };
        let span = sweep_span(dt0, m, k);
        if !(span > 0.0) || !(t0 + span > t0) {
            rep.count("sweep_skipped_nonpositive_span", 1);
            return;
        }
        let cfg = Cfg { t0, t1: t0 + span, dt_min, dt_max, tol };
        rep.count("sweep_cases", 1);
        run_case(rep, solver, if (m + k) % 2 == 0 { DimMode::Dynamic } else { DimMode::Static }, &prob, &cfg, 5_000, k == 0);
    }));
    // end-time rounding: the clipped final step is t + (t_end - t), which does not always round to
    // t_end when the final step is longer than |t| (intervals starting at or straddling zero, a
    // handful of steps). Short, cheap solves, all adaptive solvers. (D5, D7, D13)
    let n_end = tier.pick(60_000u64, 1_200_000u64);
    st.push(Stage::new("end-time-rounding", n_end, move |i, rep| {
        let mut rng = Rng::for_case(seed, "c01-endtime", i);
        let solver = Solver::ADAPTIVE[(i % 6) as usize];
        let n = 1 + rng.below(2);
        let fl = rng.below(4);
        let prob = IvpProblem::gen(&mut rng, n, fl);
        let tol = rng.log10(-6.0, -3.0);
        let dt_max = dtmax_for(solver, prob.lip, tol, rng.r(0.5, 1.0));
        let dt_min = dt_max * 1e-7;
        let steps = rng.r(0.3, 6.0) + if solver.is_multistep() { solver.history() as f64 } else { 0.0 };
        let span = dt_max * steps;
        let t0 = match rng.below(4) {
            0 => 0.0,
            1 => -span * rng.f(),
            2 => rng.sign() * dt_max * rng.log10(-6.0, 0.0),
            _ => -span * 0.5,
        };
        let cfg = Cfg { t0, t1: t0 + span, dt_min, dt_max, tol };
        if !(cfg.t1 > cfg.t0) {
            return;
        }
        rep.count("end_time_rounding_cases", 1);
        run_case(rep, solver, DimMode::Dynamic, &prob, &cfg, 5_000, false);
    }));
    // "end just past a step": the ending time lies a sliver beyond a time at which the solver would have
    // produced a point anyway (the final clipped step is then far shorter than dt_min)
    let n_sl = tier.pick(7_000u64, 140_000u64);
    st.push(Stage::new("end-just-past-a-step", n_sl, move |i, rep| {
        let mut rng = Rng::for_case(seed, "c01-sliver", i);
        let solver = Solver::ALL[(i % 7) as usize];
        let n = 1 + rng.below(3);
        let fl = rng.below(4);
        let prob = IvpProblem::gen(&mut rng, n, fl);
        let mut cfg = gen_cfg(&mut rng, solver, prob.lip, (-8.0, -3.0), (0.8, 1.6));
        if rng.bool() {
            cfg.dt_min = cfg.dt_max * rng.r(0.05, 1.0);
        }
        let probe = solve_real(solver, &cfg, &prob.y0, &prob, &Opts { budget: 2_000_000, max_items: 5_000, mode: DimMode::Dynamic, ..Default::default() });
        rep.eval();
        let pts = probe.ok_points();
        if pts.len() < 4 {
            return;
        }
        let k = 1 + rng.below(pts.len() - 2);
        let tk = pts[k].0;
        let t1 = tk + cfg.dt_max * rng.log10(-12.0, -3.0);
        if !(t1 > tk) {
            return;
        }
        let cfg2 = Cfg { t1, ..cfg.clone() };
        rep.count("end_just_past_a_step_cases", 1);
        run_case(rep, solver, DimMode::Dynamic, &prob, &cfg2, 5_000, false);
    }));
    // start-up boundary: spans that are (nearly) whole multiples of the initial trial step around the
    // length of the multistep start-up, where an unshortened start-up adds up to the end time (D38:
    // one ulp past it) — many more problems than the general sweep, only the critical rows
    let nb_prob = tier.pick(120u64, 1_200u64);
    const BK: [usize; 7] = [0, 1, 2, 3, 4, 15, 16];
    st.push(Stage::new("startup-boundary", 4 * 3 * BK.len() as u64 * nb_prob, move |i, rep| {
        let pi = i % nb_prob;
        let r = i / nb_prob;
        let k = BK[(r % BK.len() as u64) as usize];
        let r = r / BK.len() as u64;
        let dm = (r % 3) as i64 - 1;
        let solver = [Solver::Adams5, Solver::Adams3, Solver::BDF6, Solver::BDF2][(r / 3) as usize];
        let startup = if solver.is_bdf() { solver.history() + 1 } else { solver.history() };
        let m = (startup as i64 + dm) as usize;
        // the first 10 problems are seed-independent
        let mut rng = if pi < 10 { Rng::for_case(2024, "c01-boundary-anchor", pi * 10 + solver.idx() as u64) } else { Rng::for_case(seed, "c01-boundary", pi * 10 + solver.idx() as u64) };
        let n = 1 + rng.below(3);
        let fl = rng.below(4);
        let prob = IvpProblem::gen(&mut rng, n, fl);
        let tol = rng.log10(-9.0, -4.0);
        let dt_max = dtmax_for(solver, prob.lip, tol, rng.r(0.5, 1.0));
        let dt_min = dt_max * [1e-7, 0.3, 0.6, 1.0][(pi % 4) as usize];
        let t0 = rng.r(-2.0, 2.0);
        let span = sweep_span((dt_max + dt_min) * 0.5, m, k);
        if !(span > 0.0) {
            return;
        }
        let cfg = Cfg { t0, t1: t0 + span, dt_min, dt_max, tol };
        rep.count("startup_boundary_cases", 1);
        run_case(rep, solver, if pi % 2 == 0 { DimMode::Dynamic } else { DimMode::Static }, &prob, &cfg, 5_000, false);
    }));
    // Boundary coincidence "estimate == tolerance" (see C03): at the two adjacent tolerances between
    // which the first accept/reject decision flips, an accepted step must also be yielded — a step
    // that is taken but not yielded shows here as a gap of two steps or as a missing end point.
    let neq = ctx.tier.pick(200, 4_000);
    st.push(Stage::new("estimate-equals-tolerance", neq, move |i, rep| {
        let mut rng = if i < 20 { Rng::for_case(7117, "c01-eqtol-anchor", i) } else { Rng::for_case(seed, "c01-eqtol", i) };
        let solver = if i % 2 == 0 { Solver::RK45 } else { Solver::RK23 };
        let n = 1 + rng.below(3);
        let fl = rng.below(6);
        let prob = IvpProblem::gen(&mut rng, n, fl);
        let tol_scale = rng.log10(-9.0, -5.0);
        // a cap well above the accuracy rule, so that the first trial is a large share of dt_max
        let dt_max = dtmax_for(solver, prob.lip, tol_scale, 1.0) * rng.r(2.0, 6.0);
        // half of the cases with a sizeable minimum step: the first trial is then well above dt_max/2
        let dt_min = if rng.bool() { dt_max * 1e-9 } else { dt_max * rng.r(0.1, 0.8) };
        let t0 = rng.r(-1.0, 1.0);
        // the first step is the final step in a third of the cases (interval = one trial step)
        let steps = if rng.chance(0.33) { 1.0 } else { rng.r(3.0, 6.0) };
        let base = Cfg { t0, t1: t0 + (dt_max + dt_min) * 0.5 * steps, dt_min, dt_max, tol: 1.0 };
        if steps == 1.0 {
            // final-step variant: acceptance is observed through the end point itself
            rep.count("eq_tol/single_step_intervals", 1);
        }
        match crate::checks::c03::locate_equal_tolerance(solver, &prob, &prob.y0, &base) {
            Ok((lo, hi, probes)) => {
                rep.evals(probes);
                rep.count(&format!("{}/estimate_equals_tolerance_cases", solver.name()), 1);
                for bits in [lo, hi] {
                    let cfg = Cfg { tol: f64::from_bits(bits), ..base.clone() };
                    run_case(rep, solver, DimMode::Dynamic, &prob, &cfg, 5_000, false);
                }
            }
            Err(why) => rep.count(&format!("eq_tol/{}", why), 1),
        }
    }));
    st
}

pub fn thresholds(ctx: &Ctx, rep: &Report) -> Vec<Threshold> {
    let mut t = vec![];
    let solves: i64 = Solver::ALL.iter().map(|s| rep.counter(&format!("{}/solves", s.name()))).sum();
    t.push(Threshold { what: "fraction of solves that ended without error/budget/cap (others are judged on their prefix only)".into(), required: 0.9, observed: rep.counter("clean_solves") as f64 / (solves.max(1) as f64) });
    for s in [Solver::RK45, Solver::RK23] {
        t.push(Threshold { what: format!("{} solves in which a rejected step was observed", s.name()), required: ctx.tier.pick(20.0, 200.0), observed: rep.counter(&format!("{}/solves_with_rejections", s.name())) as f64 });
    }
    for s in [Solver::RK45, Solver::RK23] {
        t.push(Threshold { what: format!("{}: tolerances located where the first trial's estimate equals the tolerance exactly", s.name()), required: ctx.tier.pick(40.0, 800.0), observed: rep.counter(&format!("{}/estimate_equals_tolerance_cases", s.name())) as f64 });
    }
    t.push(Threshold { what: "Euler solves with both step bounds configured".into(), required: ctx.tier.pick(500.0, 10_000.0), observed: rep.counter("Euler/solves_with_both_step_bounds_configured") as f64 });
    for s in [Solver::Adams5, Solver::Adams3, Solver::BDF6, Solver::BDF2] {
        t.push(Threshold { what: format!("{} solves with a multistep restart", s.name()), required: ctx.tier.pick(20.0, 200.0), observed: rep.counter(&format!("{}/solves_with_restart", s.name())) as f64 });
        t.push(Threshold { what: format!("{} solves with shortened start-up", s.name()), required: 10.0, observed: rep.counter(&format!("{}/solves_startup_shortened", s.name())) as f64 });
    }
    t
}
