//! C18 — orthogonal polynomial constructors return the exact classical polynomials.
//!
//! Reference: closed-form coefficients in exact integer/rational arithmetic (i128 numerator,
//! u128 denominator), cross-checked inside the harness against the integer three-term recurrences
//! and a few literal textbook polynomials (stage `selfcheck`; a disagreement is a harness error,
//! never a verdict). The space 5 families x n = 0..20 x 5 zero tolerances x {f64, Complex<f64>} is
//! enumerated completely (stage `exhaustive`), nothing depends on the seed.

use crate::json::J;
use crate::probe::{self, Guarded};
use crate::report::*;
use crate::rng::CaseHash;
use bacon_sci::polynomial::Polynomial;
use bacon_sci::special;
use nalgebra::ComplexField;
use num_complex::Complex;
use num_traits::FromPrimitive;

const EPS: f64 = f64::EPSILON;
const NMAX: u32 = 20;
const TOLS: [f64; 5] = [1e-14, 1e-12, 1e-10, 1e-8, 1e-6];

// ---- frozen constants (observed maxima on the repaired tree in brackets; see evidence `observed_maxima`)
/// |c_k - exact_k| <= KC * eps * max(n,1) * (|exact_k| + theta * max_j |exact_j|), theta = 1 for chebyshev
/// (FFT products), 0 for the other four families                            [worst 0.205 chebyshev, 0.055 laguerre, exactly 0 for the other three]
const KC: f64 = 16.0;
/// identities evaluated through `evaluate`: |lhs - rhs| <= KE * eps * max(n,1) * max_j|exact_j| * sum_k |x|^k   [worst 0.054]
const KE: f64 = 16.0;
/// three-term recurrence between three consecutive outputs, coefficient-wise:
/// |residual_k| <= KR * eps * max(n,1) * (sum of the magnitudes of the three terms' scales)   [worst 0.13]
const KR: f64 = 16.0;

type C64 = Complex<f64>;

#[derive(Clone, Copy, PartialEq, Eq, Debug)]
enum Fam {
    Legendre,
    Hermite,
    Laguerre,
    Cheb1,
    Cheb2,
}
const FAMS: [Fam; 5] = [Fam::Legendre, Fam::Hermite, Fam::Laguerre, Fam::Cheb1, Fam::Cheb2];
impl Fam {
    fn name(self) -> &'static str {
        match self {
            Fam::Legendre => "legendre",
            Fam::Hermite => "hermite",
            Fam::Laguerre => "laguerre",
            Fam::Cheb1 => "chebyshev",
            Fam::Cheb2 => "chebyshev_second",
        }
    }
    /// 1 when the constructor multiplies polynomials by FFT (rounding noise of every coefficient is
    /// proportional to the largest coefficient), 0 when every coefficient is produced by a
    /// cancellation-free small-integer recurrence or its own closed form (rounding relative to itself;
    /// coefficients that are exactly zero stay exactly zero)
    fn absolute_noise(self) -> f64 {
        match self {
            Fam::Cheb1 => 1.0,
            _ => 0.0,
        }
    }
}

// ------------------------------------------------------------------ exact reference

mod exact {
    use super::Fam;

    /// exact rational num/den (den > 0)
    #[derive(Clone, Copy, Debug, PartialEq, Eq)]
    pub struct Q {
        pub num: i128,
        pub den: u128,
    }
    impl Q {
        pub fn int(v: i128) -> Q {
            Q { num: v, den: 1 }
        }
        /// nearest f64: numerator and denominator are both exactly representable (asserted), so the
        /// single IEEE division is the correctly rounded value of the rational
        pub fn to_f64(self) -> f64 {
            let a = self.num as f64;
            let b = self.den as f64;
            assert!(a as i128 == self.num, "numerator {} not exactly representable", self.num);
            assert!(b as u128 == self.den, "denominator {} not exactly representable", self.den);
            a / b
        }
    }

    pub fn fact(k: u32) -> u128 {
        (1..=k as u128).product::<u128>().max(1)
    }
    pub fn binom(n: u32, k: u32) -> u128 {
        if k > n {
            return 0;
        }
        // multiplicative, exact at every step
        let mut acc: u128 = 1;
        for i in 0..k as u128 {
            acc = acc * (n as u128 - i) / (i + 1);
        }
        acc
    }
    fn sgn(k: u32) -> i128 {
        if k % 2 == 0 {
            1
        } else {
            -1
        }
    }

    /// ascending exact coefficients (index = power) from the classical closed forms
    pub fn closed_form(f: Fam, n: u32) -> Vec<Q> {
        let mut c = vec![Q::int(0); n as usize + 1];
        match f {
            Fam::Legendre => {
                // P_n = 2^-n sum_k (-1)^k C(n,k) C(2n-2k,n) x^(n-2k)
                for k in 0..=n / 2 {
                    let v = binom(n, k) * binom(2 * n - 2 * k, n);
                    c[(n - 2 * k) as usize] = Q { num: sgn(k) * v as i128, den: 1u128 << n };
                }
            }
            Fam::Hermite => {
                // H_n = sum_k (-1)^k n!/(k!(n-2k)!) 2^(n-2k) x^(n-2k)
                for k in 0..=n / 2 {
                    let v = fact(n) / (fact(k) * fact(n - 2 * k));
                    assert!(fact(n) % (fact(k) * fact(n - 2 * k)) == 0);
                    c[(n - 2 * k) as usize] = Q::int(sgn(k) * (v << (n - 2 * k)) as i128);
                }
            }
            Fam::Laguerre => {
                // L_n = sum_k (-1)^k C(n,k)/k! x^k
                for k in 0..=n {
                    c[k as usize] = Q { num: sgn(k) * binom(n, k) as i128, den: fact(k) };
                }
            }
            Fam::Cheb1 => {
                if n == 0 {
                    c[0] = Q::int(1);
                } else {
                    // T_n = n/2 sum_k (-1)^k (n-k-1)!/(k!(n-2k)!) (2x)^(n-2k)
                    for k in 0..=n / 2 {
                        let num = n as u128 * fact(n - k - 1) * (1u128 << (n - 2 * k));
                        let den = 2 * fact(k) * fact(n - 2 * k);
                        assert!(num % den == 0);
                        c[(n - 2 * k) as usize] = Q::int(sgn(k) * (num / den) as i128);
                    }
                }
            }
            Fam::Cheb2 => {
                // U_n = sum_k (-1)^k C(n-k,k) (2x)^(n-2k)
                for k in 0..=n / 2 {
                    c[(n - 2 * k) as usize] = Q::int(sgn(k) * (binom(n - k, k) << (n - 2 * k)) as i128);
                }
            }
        }
        c
    }

    /// Integer three-term recurrences for an integer multiple s_n * p_n of the family:
    /// returns (scaled integer coefficients, the scale s_n)
    pub fn by_recurrence(f: Fam, n: u32) -> (Vec<i128>, u128) {
        // a(x) shifted by one power
        fn xmul(a: &[i128]) -> Vec<i128> {
            let mut v = vec![0];
            v.extend_from_slice(a);
            v
        }
        fn comb(len: usize, terms: &[(i128, &[i128])]) -> Vec<i128> {
            let mut v = vec![0i128; len];
            for (m, a) in terms {
                for (i, x) in a.iter().enumerate() {
                    v[i] += m * x;
                }
            }
            v
        }
        let (mut p0, mut p1): (Vec<i128>, Vec<i128>) = match f {
            Fam::Legendre | Fam::Cheb1 => (vec![1], vec![0, 1]),
            Fam::Hermite | Fam::Cheb2 => (vec![1], vec![0, 2]),
            Fam::Laguerre => (vec![1], vec![1, -1]),
        };
        // scales: Legendre q_n = n! 2^n P_n?  use q_n = n! P_n:  q_{n+1} = (2n+1) x q_n - n^2 q_{n-1}
        //         Laguerre l_n = n! L_n:       l_{n+1} = (2n+1-x) l_n - n^2 l_{n-1}
        if n == 0 {
            return (p0, 1);
        }
        for i in 1..n {
            let ii = i as i128;
            let xp = xmul(&p1);
            let next = match f {
                Fam::Legendre => comb(xp.len(), &[(2 * ii + 1, &xp), (-ii * ii, &p0)]),
                Fam::Hermite => comb(xp.len(), &[(2, &xp), (-2 * ii, &p0)]),
                Fam::Laguerre => comb(xp.len(), &[(2 * ii + 1, &p1), (-1, &xp), (-ii * ii, &p0)]),
                Fam::Cheb1 | Fam::Cheb2 => comb(xp.len(), &[(2, &xp), (-1, &p0)]),
            };
            p0 = p1;
            p1 = next;
        }
        let scale = match f {
            Fam::Legendre | Fam::Laguerre => fact(n),
            _ => 1,
        };
        (p1, scale)
    }
}


fn exact_f64(f: Fam, n: u32) -> Vec<f64> {
    exact::closed_form(f, n).iter().map(|q| q.to_f64()).collect()
}

// ------------------------------------------------------------------ field abstraction

trait Fld: ComplexField<RealField = f64> + FromPrimitive + Copy + 'static {
    const NAME: &'static str;
    const COMPLEX: bool;
    fn mk(re: f64, im: f64) -> Self;
    fn c(self) -> C64;
}
impl Fld for f64 {
    const NAME: &'static str = "f64";
    const COMPLEX: bool = false;
    fn mk(re: f64, _im: f64) -> f64 {
        re
    }
    fn c(self) -> C64 {
        C64::new(self, 0.0)
    }
}
impl Fld for C64 {
    const NAME: &'static str = "Complex<f64>";
    const COMPLEX: bool = true;
    fn mk(re: f64, im: f64) -> C64 {
        C64::new(re, im)
    }
    fn c(self) -> C64 {
        self
    }
}

fn construct<N: Fld>(f: Fam, n: u32, tol: f64) -> Guarded<Result<Polynomial<N>, String>> {
    probe::guard(|| match f {
        Fam::Legendre => special::legendre::<N>(n, tol),
        Fam::Hermite => special::hermite::<N>(n, tol),
        Fam::Laguerre => special::laguerre::<N>(n, tol),
        Fam::Cheb1 => special::chebyshev::<N>(n, tol),
        Fam::Cheb2 => special::chebyshev_second::<N>(n, tol),
    })
}

fn cj(v: C64) -> J {
    J::Arr(vec![J::from(v.re), J::from(v.im)])
}

/// Construct and turn Err / panic into a violation. Returns the coefficients (ascending) and order.
fn build<N: Fld>(rep: &mut Report, f: Fam, n: u32, tol: f64, case: &dyn Fn() -> J) -> Option<(Polynomial<N>, Vec<C64>)> {
    rep.eval();
    rep.count(&format!("{}/constructions", f.name()), 1);
    match construct::<N>(f, n, tol) {
        Guarded::Ok(Ok(p)) => {
            let ord = p.order();
            let cs: Vec<C64> = (0..=ord).map(|k| p.get_coefficient(k).c()).collect();
            Some((p, cs))
        }
        Guarded::Ok(Err(e)) => {
            rep.violation(&format!("{}/err", f.name()), case().set("n_constructed", n as u64), format!("{}({}, {:e}) returned Err({})", f.name(), n, tol, e));
            None
        }
        Guarded::Panic(m, l) => {
            rep.violation(&format!("{}/panic", f.name()), case().set("n_constructed", n as u64), format!("{}({}, {:e}) panicked: '{}' at {}", f.name(), n, tol, m, l));
            None
        }
        Guarded::Budget => None,
    }
}

/// order and coefficient oracle for one output; returns false when violated
fn judge_coefficients(rep: &mut Report, f: Fam, n: u32, cs: &[C64], ex: &[f64], case: &dyn Fn() -> J) -> bool {
    let name = f.name();
    let ord = cs.len() - 1;
    if ord != n as usize {
        let lead: Vec<J> = cs.iter().skip(n as usize).take(6).map(|c| cj(*c)).collect();
        rep.violation(
            &format!("{}/order", name),
            case().set("order", ord).set("coefficients_from_power_n", J::Arr(lead)),
            format!("{}({}) has order() = {}, the classical polynomial has degree exactly {}", name, n, ord, n),
        );
        return false;
    }
    let mx = ex.iter().fold(0.0f64, |a, b| a.max(b.abs()));
    let theta = f.absolute_noise();
    let mut ok = true;
    for k in 0..=ord.max(n as usize) {
        let got = cs.get(k).copied().unwrap_or(C64::new(0.0, 0.0));
        let want = ex.get(k).copied().unwrap_or(0.0);
        let err = (got - C64::new(want, 0.0)).norm();
        // rounding unit of this coefficient: its own magnitude, plus (FFT family only) the largest one
        let unit = EPS * (n.max(1) as f64) * (want.abs() + theta * mx);
        let ratio = if err == 0.0 { 0.0 } else { err / unit };
        rep.max(&format!("{}/coef_err_over_unit", name), ratio);
        if want == 0.0 {
            rep.count(&format!("{}/zero_coefficients_checked", name), 1);
        }
        if k == n as usize {
            rep.max(&format!("{}/leading_coef_relerr_over_eps", name), err / (EPS * want.abs()));
        }
        if !(err <= KC * unit) {
            if ok {
                rep.violation(
                    &format!("{}/coefficient", name),
                    case().set("power", k).set("got", cj(got)).set("exact", want),
                    format!("{}({}): coefficient of x^{} is {:e}{:+e}i, exact value {:e} (|error| {:e} > bound {:e})", name, n, k, got.re, got.im, want, err, KC * unit),
                );
            }
            ok = false;
        }
    }
    ok
}

fn powsum(x: f64, n: u32) -> f64 {
    let mut s = 0.0;
    let mut p = 1.0;
    for _ in 0..=n {
        s += p;
        p *= x;
    }
    s
}

/// identities observed through `evaluate`
fn judge_identities<N: Fld>(rep: &mut Report, f: Fam, n: u32, p: &Polynomial<N>, ex: &[f64], n_theta: usize, case: &dyn Fn() -> J) {
    let name = f.name();
    let mx = ex.iter().fold(0.0f64, |a, b| a.max(b.abs()));
    let nn = n.max(1) as f64;
    let check = |rep: &mut Report, what: &str, sig: &str, x: C64, lhs: C64, rhs: C64, extra: f64| {
        let err = (lhs - rhs).norm();
        let unit = EPS * nn * mx * powsum(x.norm(), n) + extra;
        rep.max(&format!("{}/{}_err_over_unit", name, sig), err / unit);
        rep.count(&format!("{}/identity_points", name), 1);
        if !(err <= KE * unit) {
            rep.violation(
                &format!("{}/{}", name, sig),
                case().set("x", cj(x)).set("lhs", cj(lhs)).set("rhs", cj(rhs)),
                format!("{}({}): {} at x = {:e}{:+e}i: {:e}{:+e}i vs {:e}{:+e}i (|difference| {:e} > {:e})", name, n, what, x.re, x.im, lhs.re, lhs.im, rhs.re, rhs.im, err, KE * unit),
            );
        }
    };
    let ev = |x: C64| -> C64 { p.evaluate(N::mk(x.re, x.im)).c() };
    let one = C64::new(1.0, 0.0);
    let sgn = if n % 2 == 0 { 1.0 } else { -1.0 };
    // parity through evaluation (all families but Laguerre)
    if f != Fam::Laguerre {
        for x in [0.3, 0.77, 1.25] {
            let x = C64::new(x, if N::COMPLEX { 0.2 } else { 0.0 });
            check(rep, "p(-x) = (-1)^n p(x)", "parity", x, ev(-x), ev(x) * sgn, 0.0);
        }
    }
    match f {
        Fam::Legendre => {
            check(rep, "P_n(1) = 1", "value-at-one", one, ev(one), one, 0.0);
            check(rep, "P_n(-1) = (-1)^n", "value-at-one", -one, ev(-one), one * sgn, 0.0);
        }
        Fam::Laguerre => {
            let z = C64::new(0.0, 0.0);
            check(rep, "L_n(0) = 1", "value-at-zero", z, ev(z), one, 0.0);
        }
        Fam::Hermite => {
            // H_n(0) = 0 (n odd), (-1)^(n/2) n!/(n/2)! (n even)
            let z = C64::new(0.0, 0.0);
            let want = if n % 2 == 1 { 0.0 } else { (if (n / 2) % 2 == 0 { 1.0 } else { -1.0 }) * (exact::fact(n) / exact::fact(n / 2)) as f64 };
            check(rep, "H_n(0) = (-1)^(n/2) n!/(n/2)!", "value-at-zero", z, ev(z), C64::new(want, 0.0), 0.0);
        }
        Fam::Cheb1 | Fam::Cheb2 => {
            for j in 0..n_theta {
                let th = (j as f64 + 0.37) * std::f64::consts::PI / n_theta as f64;
                // real angle for both fields, additionally a complex angle for the complex field
                let mut angles = vec![C64::new(th, 0.0)];
                if N::COMPLEX {
                    angles.push(C64::new(th, 0.3));
                }
                for z in angles {
                    let x = z.cos();
                    // rounding of cos(z) and of n*z moves the right-hand side by <= (n+1)^2 eps |.|
                    let (lhs, rhs, what) = if f == Fam::Cheb1 {
                        (ev(x), (z * n as f64).cos(), "T_n(cos t) = cos(n t)")
                    } else {
                        (ev(x) * z.sin(), (z * (n as f64 + 1.0)).sin(), "U_n(cos t) sin t = sin((n+1) t)")
                    };
                    let extra = 4.0 * EPS * ((n + 1) * (n + 1)) as f64 * (1.0 + rhs.norm());
                    check(rep, what, "trigonometric-identity", x, lhs, rhs, extra);
                }
            }
        }
    }
}

/// coefficient-wise three-term recurrence between the outputs for n-1, n, n+1
fn judge_recurrence(rep: &mut Report, f: Fam, n: u32, lo: &[C64], mid: &[C64], hi: &[C64], exs: [&[f64]; 3], case: &dyn Fn() -> J) {
    let name = f.name();
    let nf = n as f64;
    let g = |v: &[C64], k: i64| -> C64 {
        if k < 0 {
            C64::new(0.0, 0.0)
        } else {
            v.get(k as usize).copied().unwrap_or(C64::new(0.0, 0.0))
        }
    };
    let m = |e: &[f64]| e.iter().fold(0.0f64, |a, b| a.max(b.abs()));
    let (mlo, mmid, mhi) = (m(exs[0]), m(exs[1]), m(exs[2]));
    let len = hi.len().max(mid.len() + 1).max(lo.len());
    let mut worst = 0.0f64;
    let mut worst_k = 0usize;
    let mut scale = 0.0;
    for k in 0..len as i64 {
        let (res, sc) = match f {
            // (n+1) P_{n+1} = (2n+1) x P_n - n P_{n-1}
            Fam::Legendre => (g(hi, k) * (nf + 1.0) - g(mid, k - 1) * (2.0 * nf + 1.0) + g(lo, k) * nf, (nf + 1.0) * mhi + (2.0 * nf + 1.0) * mmid + nf * mlo),
            // H_{n+1} = 2x H_n - 2n H_{n-1}
            Fam::Hermite => (g(hi, k) - g(mid, k - 1) * 2.0 + g(lo, k) * (2.0 * nf), mhi + 2.0 * mmid + 2.0 * nf * mlo),
            // (n+1) L_{n+1} = (2n+1-x) L_n - n L_{n-1}
            Fam::Laguerre => (g(hi, k) * (nf + 1.0) - g(mid, k) * (2.0 * nf + 1.0) + g(mid, k - 1) + g(lo, k) * nf, (nf + 1.0) * mhi + (2.0 * nf + 2.0) * mmid + nf * mlo),
            // X_{n+1} = 2x X_n - X_{n-1}
            Fam::Cheb1 | Fam::Cheb2 => (g(hi, k) - g(mid, k - 1) * 2.0 + g(lo, k), mhi + 2.0 * mmid + mlo),
        };
        scale = sc;
        if res.norm() > worst || res.norm().is_nan() {
            worst = res.norm();
            worst_k = k as usize;
        }
    }
    let unit = EPS * (nf + 1.0) * scale;
    rep.max(&format!("{}/recurrence_residual_over_unit", name), worst / unit);
    rep.count(&format!("{}/recurrences_checked", name), 1);
    if !(worst <= KR * unit) {
        rep.violation(
            &format!("{}/three-term-recurrence", name),
            case().set("power", worst_k).set("residual", worst),
            format!("{}: outputs for n = {}, {}, {} violate the three-term recurrence at x^{}: residual {:e} > {:e}", name, n - 1, n, n + 1, worst_k, worst, KR * unit),
        );
    }
}

fn run_case<N: Fld>(rep: &mut Report, f: Fam, n: u32, tol: f64, n_theta: usize) {
    let ex = exact_f64(f, n);
    let exq = exact::closed_form(f, n);
    let case = || {
        J::obj()
            .set("family", f.name())
            .set("n", n as u64)
            .set("zero_tolerance", tol)
            .set("field", N::NAME)
            .set("exact_coefficients_ascending", J::Arr(exq.iter().map(|q| J::from(format!("{}/{}", q.num, q.den))).collect::<Vec<_>>()))
    };
    rep.nontrivial(CaseHash::new("c18").s(f.name()).u(n as u64).f(tol).u(N::COMPLEX as u64).0);
    rep.count("cells", 1);
    rep.count(&format!("{}/cells", f.name()), 1);
    let (p, cs) = match build::<N>(rep, f, n, tol, &case) {
        Some(v) => v,
        None => return,
    };
    let case_full = || case().set("order", cs.len() - 1).set("coefficients_ascending", J::Arr(cs.iter().map(|c| if N::COMPLEX { cj(*c) } else { J::from(c.re) }).collect::<Vec<_>>()));
    let ok = judge_coefficients(rep, f, n, &cs, &ex, &case_full);
    if ok {
        rep.count(&format!("{}/exact_to_rounding", f.name()), 1);
    }
    judge_identities::<N>(rep, f, n, &p, &ex, n_theta, &case_full);
    // recurrence between consecutive outputs (needs n-1 and n+1 inside 0..=20)
    if n >= 1 && n < NMAX {
        let lo = build::<N>(rep, f, n - 1, tol, &case_full);
        let hi = build::<N>(rep, f, n + 1, tol, &case_full);
        if let (Some((_, lo)), Some((_, hi))) = (lo, hi) {
            let e0 = exact_f64(f, n - 1);
            let e2 = exact_f64(f, n + 1);
            judge_recurrence(rep, f, n, &lo, &cs, &hi, [&e0, &ex, &e2], &case_full);
        }
    }
    if rep.wants_sample() && n >= 6 {
        rep.sample(case_full().set("coefficients_exact_to_rounding", ok));
    }
}

// ------------------------------------------------------------------ harness self-check of the reference

/// The constructors are generic over the coefficient field; `f32` is a real field too. Order and
/// coefficients only (single precision: rounding unit f32::EPSILON), zero tolerances 1e-6 and 1e-5.
/// A generic-type slip that special-cases `f64` (seeded change C18-m6: the inverse transform keyed
/// its real fast path on `TypeId::of::<f64>()`) is invisible to the f64 / Complex<f64> sweep.
/// single precision: `f32` and `Complex<f32>` (the imaginary parts must be exactly zero)
trait F32Field: nalgebra::ComplexField<RealField = f32> + num_traits::FromPrimitive + Copy {
    const NAME: &'static str;
    fn parts(self) -> (f64, f64);
}
impl F32Field for f32 {
    const NAME: &'static str = "f32";
    fn parts(self) -> (f64, f64) {
        (self as f64, 0.0)
    }
}
impl F32Field for num_complex::Complex<f32> {
    const NAME: &'static str = "Complex<f32>";
    fn parts(self) -> (f64, f64) {
        (self.re as f64, self.im as f64)
    }
}

fn run_case_f32(rep: &mut Report, f: Fam, n: u32, tol: f32) {
    run_case_single::<f32>(rep, f, n, tol);
}

fn run_case_single<N: F32Field>(rep: &mut Report, f: Fam, n: u32, tol: f32) {
    let name = f.name();
    let fld = N::NAME;
    rep.eval();
    rep.count("f32/cells", 1);
    rep.count(&format!("{}/cells", fld), 1);
    let case = || J::obj().set("family", name).set("n", n as u64).set("zero_tolerance", tol as f64).set("field", fld);
    let res = probe::guard(|| match f {
        Fam::Legendre => special::legendre::<N>(n, tol),
        Fam::Hermite => special::hermite::<N>(n, tol),
        Fam::Laguerre => special::laguerre::<N>(n, tol),
        Fam::Cheb1 => special::chebyshev::<N>(n, tol),
        Fam::Cheb2 => special::chebyshev_second::<N>(n, tol),
    });
    let p = match res {
        Guarded::Ok(Ok(p)) => p,
        Guarded::Ok(Err(e)) => {
            rep.violation(&format!("{}/f32/err", name), case(), format!("{}::<{}>({}, {:e}) returned Err({})", name, fld, n, tol, e));
            return;
        }
        Guarded::Panic(m, l) => {
            rep.violation(&format!("{}/f32/panic", name), case(), format!("{}::<{}>({}, {:e}) panicked: '{}' at {}", name, fld, n, tol, m, l));
            return;
        }
        Guarded::Budget => return,
    };
    let ex = exact_f64(f, n);
    // single precision cannot hold the leading coefficient 1/n! of high Laguerre indices above the
    // tolerance, nor 2^n n! sized Hermite coefficients beyond its range: keep to representable cells
    let mx = ex.iter().fold(0.0f64, |a, b| a.max(b.abs()));
    if !(mx < 1e30) || !(ex[n as usize].abs() > 4.0 * tol as f64) || !(ex[n as usize].abs() > 1e-30) {
        rep.count("f32/cells_not_representable", 1);
        return;
    }
    let ord = p.order();
    if ord != n as usize {
        rep.violation(&format!("{}/f32/order", name), case().set("order", ord), format!("{}::<{}>({}) has order() = {}, expected {}", name, fld, n, ord, n));
        return;
    }
    let e32 = f32::EPSILON as f64;
    let theta = f.absolute_noise();
    for k in 0..=n as usize {
        let (got, gim) = p.get_coefficient(k).parts();
        let want = ex[k];
        let unit = e32 * (n.max(1) as f64) * (want.abs() + theta * mx);
        let err = nmax((got - want).abs(), gim.abs());
        rep.max(&format!("{}/f32/coef_err_over_unit", name), if err == 0.0 { 0.0 } else { err / unit });
        if !(err <= KC * unit) {
            rep.violation(&format!("{}/f32/coefficient", name), case().set("power", k).set("got", got).set("got_imaginary_part", gim).set("exact", want), format!("{}::<{}>({}): coefficient of x^{} is {:e} (imaginary part {:e}), exact {:e} (bound {:e})", name, fld, n, k, got, gim, want, KC * unit));
            return;
        }
    }
    rep.nontrivial(CaseHash::new("c18-f32").s(name).s(fld).u(n as u64).f(tol as f64).0);
}

// ------------------------------------------------------------------ process history

/// Child process of the stage `process-order` (see C19): the first-kind Chebyshev constructor multiplies
/// polynomials through generic FFT code; whatever that code keeps in a `static` is shared by all its
/// instantiations for the life of the process. One fresh process per order of numeric types builds
/// T_4, T_7, T_12, T_20 in each field and reports the worst coefficient error in units of the frozen
/// bound (NaN counts as infinite).
pub fn order_probe(order: &str) {
    fn worst<N: nalgebra::ComplexField + num_traits::FromPrimitive + Copy>(eps: f64, tol: N::RealField, to: &dyn Fn(N) -> (f64, f64)) -> f64
    where
        N::RealField: num_traits::FromPrimitive + Copy,
    {
        let mut w = 0.0f64;
        for n in [4u32, 7, 12, 20] {
            let ex = exact_f64(Fam::Cheb1, n);
            let mx = ex.iter().fold(0.0f64, |a, b| a.max(b.abs()));
            match special::chebyshev::<N>(n, tol) {
                Ok(p) => {
                    if p.order() != n as usize {
                        return f64::INFINITY;
                    }
                    for k in 0..=n as usize {
                        let (re, im) = to(p.get_coefficient(k));
                        let unit = KC * eps * n as f64 * (ex[k].abs() + mx);
                        // (f64::max ignores a NaN operand: test for it explicitly)
                        let r = if re.is_nan() || im.is_nan() { f64::INFINITY } else { (re - ex[k]).abs().max(im.abs()) / unit };
                        w = w.max(r);
                    }
                }
                Err(_) => return f64::INFINITY,
            }
        }
        w
    }
    let r64 = || worst::<f64>(EPS, 1e-10, &|v| (v, 0.0));
    let c64 = || worst::<C64>(EPS, 1e-10, &|v| (v.re, v.im));
    let r32 = || worst::<f32>(f32::EPSILON as f64, 1e-6, &|v| (v as f64, 0.0));
    let (a, b, c) = match order {
        "complex-first" => {
            let c = c64();
            let a = r64();
            let s = r32();
            (a, c, s)
        }
        "real-first" => {
            let a = r64();
            let c = c64();
            let s = r32();
            (a, c, s)
        }
        "single-first" => {
            let s = r32();
            let c = c64();
            let a = r64();
            (a, c, s)
        }
        _ => {
            println!("PROBE-ERROR unknown order");
            std::process::exit(3);
        }
    };
    println!("PROBE order={} f64={:e} c64={:e} f32={:e}", order, a, b, c);
}

fn process_order_case(rep: &mut Report, order: &str) {
    rep.eval();
    let exe = match std::env::current_exe() {
        Ok(e) => e,
        Err(_) => {
            rep.inconclusive("process-order: current_exe unavailable");
            return;
        }
    };
    let text = match std::process::Command::new(exe).args(["probe", "C18", order]).output() {
        Ok(o) if o.status.success() => String::from_utf8_lossy(&o.stdout).to_string(),
        _ => {
            rep.inconclusive("process-order: child process failed");
            return;
        }
    };
    let line = text.lines().find(|l| l.starts_with("PROBE order=")).unwrap_or("").to_string();
    let get = |key: &str| -> Option<f64> { line.split_whitespace().find_map(|t| t.strip_prefix(&format!("{}=", key)).and_then(|v| v.parse::<f64>().ok())) };
    rep.count(&format!("process_order/{}", order), 1);
    for key in ["f64", "c64", "f32"] {
        match get(key) {
            Some(v) => {
                rep.max(&format!("process_order/{}/{}_worst_error_over_bound", order, key), if v.is_finite() { v } else { 1e300 });
                if !(v <= 1.0) {
                    rep.violation(
                        &format!("process-order/chebyshev-{}", key),
                        J::obj().set("order_of_the_calls_in_a_fresh_process", order).set("battery", "chebyshev(n, tol) for n in {4, 7, 12, 20} in each field").set("child_output", line.as_str()),
                        format!("in a fresh process that builds its polynomials in the order {}, the {} results are {:e} x the coefficient bound off (inf: NaN, Err or wrong degree): the result of a constructor depends on which numeric type was used first in the process", order, key, v),
                    );
                }
            }
            None => rep.inconclusive("process-order: child output not understood"),
        }
    }
    rep.nontrivial(CaseHash::new("c18-process-order").s(order).0);
}

fn selfcheck() {
    use exact::*;
    for f in FAMS {
        for n in 0..=NMAX {
            let cf = closed_form(f, n);
            let (rc, scale) = by_recurrence(f, n);
            assert!(cf.len() == rc.len(), "reference length {:?} {}", f, n);
            for k in 0..cf.len() {
                // cf[k] * scale == rc[k]
                let lhs = cf[k].num * scale as i128;
                let rhs = rc[k] * cf[k].den as i128;
                assert!(lhs == rhs, "closed form and integer recurrence disagree: {:?} n={} k={}: {}/{} * {} vs {}", f, n, k, cf[k].num, cf[k].den, scale, rc[k]);
                let _ = cf[k].to_f64();
            }
        }
    }
    let lit = |f: Fam, n: u32, want: &[(i128, u128)]| {
        let cf = closed_form(f, n);
        for (k, (a, b)) in want.iter().enumerate() {
            assert!(cf[k].num * (*b as i128) == *a * cf[k].den as i128, "literal check {:?} {} power {}", f, n, k);
        }
    };
    lit(Fam::Legendre, 5, &[(0, 1), (15, 8), (0, 1), (-70, 8), (0, 1), (63, 8)]);
    lit(Fam::Hermite, 5, &[(0, 1), (120, 1), (0, 1), (-160, 1), (0, 1), (32, 1)]);
    lit(Fam::Laguerre, 3, &[(1, 1), (-3, 1), (3, 2), (-1, 6)]);
    lit(Fam::Cheb1, 5, &[(0, 1), (5, 1), (0, 1), (-20, 1), (0, 1), (16, 1)]);
    lit(Fam::Cheb2, 4, &[(1, 1), (0, 1), (-12, 1), (0, 1), (16, 1)]);
    // exact normalisations of the reference itself
    for n in 0..=NMAX {
        let s: i128 = closed_form(Fam::Legendre, n).iter().map(|q| q.num).sum();
        assert!(s == 1i128 << n, "reference P_n(1) != 1");
        assert!(closed_form(Fam::Laguerre, n)[0] == Q::int(1));
        assert!(closed_form(Fam::Hermite, n)[n as usize] == Q::int(1i128 << n));
        assert!(closed_form(Fam::Cheb2, n)[n as usize] == Q::int(1i128 << n));
        if n >= 1 {
            assert!(closed_form(Fam::Cheb1, n)[n as usize] == Q::int(1i128 << (n - 1)));
        }
    }
}

// ------------------------------------------------------------------ interface

pub fn meta() -> CheckMeta {
    CheckMeta {
        id: "C18",
        level: "exploration",
        rule: "complete enumeration: 5 families (legendre, hermite, laguerre, chebyshev, chebyshev_second) x n = 0..20 x zero tolerance {1e-14,1e-12,1e-10,1e-8,1e-6} x {f64, Complex<f64>} = 1050 cells; every cell is a distinct non-trivial case (hash of family, n, tolerance, field). Per cell: order() == n, every coefficient against the exact rational closed form, identities through evaluate (P_n(+-1), L_n(0), H_n(0), parity, T_n(cos t)=cos nt, U_n(cos t) sin t = sin (n+1)t at real and complex t), and the three-term recurrence between the outputs for n-1, n, n+1. Stage interleaved-precisions: inside one closure (one thread) all five constructors are called in one precision and a cell of the other precision is judged right afterwards (210 + 210 cells)".into(),
        assumptions: vec![
            "exact coefficients: closed forms in i128/u128, agreeing with the integer three-term recurrences for all n <= 20 (checked in stage selfcheck); numerators and denominators are exactly representable in f64, so the reference value is the correctly rounded rational".into(),
            format!("coefficient bound {} eps max(n,1) (|exact_k| + theta max_j|exact_j|), theta = 1 for chebyshev (FFT products), 0 otherwise (cancellation-free integer recurrences / per-coefficient closed form: exactly-zero coefficients must be exactly zero); evaluation identities {} eps max(n,1) max_j|exact_j| sum_k|x|^k; recurrence residual {} eps (n+1) (sum of term scales)", KC, KE, KR),
            "n = 0..20 is the range where all coefficients are below 2^53 (monomial form representable without loss)".into(),
        ],
        exhaustive: true,
        stuck_is_violation: true,
    }
}

pub fn stages(ctx: &Ctx) -> Vec<Stage> {
    let n_theta = ctx.tier.pick(7usize, 61usize);
    let mut st = vec![];
    st.push(Stage::new("selfcheck", 1, move |_i, rep| {
        selfcheck();
        rep.count("reference_selfcheck_passed", 1);
    }));
    let total = (FAMS.len() * (NMAX as usize + 1) * TOLS.len() * 2) as u64;
    st.push(Stage::new("exhaustive", total, move |i, rep| {
        let f = FAMS[(i % 5) as usize];
        let n = ((i / 5) % (NMAX as u64 + 1)) as u32;
        let tol = TOLS[((i / 105) % 5) as usize];
        let complex = i / 525 == 1;
        if complex {
            run_case::<C64>(rep, f, n, tol, n_theta);
        } else {
            run_case::<f64>(rep, f, n, tol, n_theta);
        }
    }));
    st.push(Stage::new("f32", (FAMS.len() * (NMAX as usize + 1) * 2) as u64, move |i, rep| {
        let f = FAMS[(i % 5) as usize];
        let n = ((i / 5) % (NMAX as u64 + 1)) as u32;
        let tol = if i / 105 == 0 { 1e-6f32 } else { 1e-5f32 };
        run_case_f32(rep, f, n, tol);
    }));
    // Complex<f32>, and zero tolerances far below single-precision rounding for the families that are
    // built without FFT products (the first-kind Chebyshev products carry transform noise of the order
    // of eps32, which such a tolerance cannot purge: not an admissible tolerance there)
    st.push(Stage::new("single-precision-fields-and-small-tolerances", (FAMS.len() * (NMAX as usize + 1) * 4) as u64, move |i, rep| {
        let f = FAMS[(i % 5) as usize];
        let n = ((i / 5) % (NMAX as u64 + 1)) as u32;
        let v = i / 105;
        let mut tol = [1e-6f32, 1e-10, 1e-14, 1e-10][v as usize];
        if tol < 1e-7 && f == Fam::Cheb1 {
            // still below single-precision unit roundoff (1 + tol == 1), which is admissible: the
            // transform noise sits in the low-order coefficients, whose bound accounts for it
            tol = 3e-8;
        }
        if v == 3 {
            run_case_single::<f32>(rep, f, n, tol);
        } else {
            run_case_single::<num_complex::Complex<f32>>(rep, f, n, tol);
        }
    }));
    // History independence: a constructor's result must not depend on what was computed before on
    // the same thread (e.g. tables memoised in the scalar type of the first caller). Each case
    // calls all five constructors in one precision first and then judges the other precision,
    // inside one closure, i.e. on one thread.
    st.push(Stage::new("interleaved-precisions", (FAMS.len() * (NMAX as usize + 1) * 2 * 2) as u64, move |i, rep| {
        let f = FAMS[(i % 5) as usize];
        let n = ((i / 5) % (NMAX as u64 + 1)) as u32;
        let complex = (i / 105) % 2 == 1;
        let single_first = i / 210 == 0;
        if single_first {
            for g in FAMS {
                for m in [n.max(4), NMAX] {
                    let _ = probe::guard(|| match g {
                        Fam::Legendre => special::legendre::<f32>(m, 1e-6).map(|_| ()),
                        Fam::Hermite => special::hermite::<f32>(m, 1e-6).map(|_| ()),
                        Fam::Laguerre => special::laguerre::<f32>(m, 1e-6).map(|_| ()),
                        Fam::Cheb1 => special::chebyshev::<f32>(m, 1e-6).map(|_| ()),
                        Fam::Cheb2 => special::chebyshev_second::<f32>(m, 1e-6).map(|_| ()),
                    });
                }
            }
            rep.count("interleaved/double_precision_cases_after_single_precision_calls", 1);
            if complex {
                run_case::<C64>(rep, f, n, 1e-10, n_theta);
            } else {
                run_case::<f64>(rep, f, n, 1e-10, n_theta);
            }
        } else {
            for g in FAMS {
                let _ = construct::<f64>(g, n.max(4), 1e-10);
                let _ = construct::<C64>(g, NMAX, 1e-10);
            }
            rep.count("interleaved/single_precision_cases_after_double_precision_calls", 1);
            run_case_f32(rep, f, n, 1e-6);
        }
    }));
    st.push(Stage::new("process-order", 3, move |i, rep| {
        process_order_case(rep, ["complex-first", "real-first", "single-first"][i as usize]);
    }));
    st
}

pub fn thresholds(_ctx: &Ctx, rep: &Report) -> Vec<Threshold> {
    let mut t = vec![
        Threshold { what: "reference self-check (closed form == integer recurrence == literals) ran".into(), required: 1.0, observed: rep.counter("reference_selfcheck_passed") as f64 },
        Threshold { what: "cells (family, n, tolerance, field) enumerated".into(), required: 1050.0, observed: rep.counter("cells") as f64 },
        Threshold { what: "single-precision cells enumerated".into(), required: 210.0, observed: rep.counter("f32/cells") as f64 },
        Threshold { what: "fresh processes probed (three orders of numeric types)".into(), required: 3.0, observed: (rep.counter("process_order/complex-first") + rep.counter("process_order/real-first") + rep.counter("process_order/single-first")) as f64 },
        Threshold { what: "Complex<f32> cells enumerated".into(), required: 315.0, observed: rep.counter("Complex<f32>/cells") as f64 },
    ];
    t.push(Threshold { what: "double-precision cells judged right after single-precision constructor calls on the same thread".into(), required: 210.0, observed: rep.counter("interleaved/double_precision_cases_after_single_precision_calls") as f64 });
    t.push(Threshold { what: "single-precision cells judged right after double-precision constructor calls on the same thread".into(), required: 210.0, observed: rep.counter("interleaved/single_precision_cases_after_double_precision_calls") as f64 });
    for f in FAMS {
        t.push(Threshold { what: format!("{} cells enumerated", f.name()), required: 210.0, observed: rep.counter(&format!("{}/cells", f.name())) as f64 });
        t.push(Threshold { what: format!("{} three-term recurrences checked between consecutive outputs", f.name()), required: 190.0, observed: rep.counter(&format!("{}/recurrences_checked", f.name())) as f64 });
    }
    t
}
