//! C14 — polynomial root finding returns the complete, accurate multiset of roots; zeros of
//! Legendre / Hermite / Laguerre polynomials.
//!
//! Oracle (independent of the code under test):
//!  * the true roots of the polynomial actually handed to the library are obtained by Newton
//!    iteration in double-double arithmetic (≈ 32 digits) started from the roots the polynomial
//!    was constructed from;
//!  * residuals |p(z)| of the returned values are evaluated in double-double arithmetic;
//!  * orthogonal-polynomial zeros come from the symmetric Jacobi matrix (nalgebra eigen-solver)
//!    polished by Newton on the division-free three-term recurrence in double-double arithmetic.

use crate::json::J;
use crate::probe::{self, Guarded};
use crate::report::*;
use crate::rng::{CaseHash, Rng};
use bacon_sci::polynomial::Polynomial;
use bacon_sci::special::{hermite_zeros, laguerre_zeros, legendre_zeros};
use num_complex::Complex;

type C = Complex<f64>;

const EPS: f64 = f64::EPSILON;

// ------------------------------------------------------------------ frozen constants
/// residual bound: |p(z)| <= K_RES * (tol + eps * p~(|z|))
const K_RES: f64 = 8.0;
/// matching bound: |z - r| <= K_MATCH * (tol + eps * p~(|r|)) / |p'(r)| + FLOOR_ULPS * eps * |r|
const K_MATCH: f64 = 8.0;
/// zeros of orthogonal polynomials: |z - r| <= K_ZERO * (tol * max(1, 1/|p'(r)|) + eps * p~(|r|)/|p'(r)|) + FLOOR_ULPS * eps * |r|
const K_ZERO: f64 = 8.0;
const FLOOR_ULPS: f64 = 16.0;
/// smallest tolerance used: TOL_NOISE * (2 n eps) * max(p~(rho), max_r p~(|r|)/|p'(r)|), rho = max(1, max|r|)
/// (2 n eps p~ is the classical bound of the rounding error of Horner's rule; below it neither the
/// absolute residual test of the Laguerre stage nor the update test |p/p'| <= tol of the
/// polishing stage can be met reliably by any implementation)
const TOL_NOISE: f64 = 2.0;
const N_MAX: usize = 1000;
const MIN_SEP: f64 = 0.3;
const DISC: f64 = 3.0;

pub fn meta() -> CheckMeta {
    CheckMeta {
        id: "C14",
        level: "exploration",
        rule: "cases: polynomials of degree 1..10 expanded from roots with pairwise separation >= 0.3 in the disc of radius 3 (real: conjugate-closed, through Polynomial<f64>; complex: through Polynomial<Complex<f64>>), leading coefficient scaled by 10^[-2,2] (complex phase for complex ones), sparse members x^n - c and prod(x^m - c_i) built exactly (set_coefficient, interior coefficients exactly 0) and expanded from their roots in f64 (interior coefficients ~1e-16), tolerances log-uniform from max(1e-6, floor) down to the rounding-noise floor; four pinned inputs (stage cycle-anchors) on which the Laguerre iteration once fell into a two-cycle; zeros of Legendre/Hermite n=0..16 and Laguerre n=0..12 for a ladder of tolerances. A case is non-trivial when the degree is >= 3 (Laguerre iteration + deflation + Newton polish path); distinct = distinct hash of (number type, coefficients, tol) resp. (family, n, tol)".into(),
        assumptions: vec![
            "true roots = double-double Newton refinement (harness) of the constructing roots on the coefficients actually passed; a case whose refinement does not converge to 1e-24 or moves by more than 1e-6 is inconclusive".into(),
            "tolerance floor: tol >= 2*(2n eps)*max(p~(rho), max_r p~(|r|)/|p'(r)|), rho = max(1,max|r|), p~(x)=sum|a_k|x^k: below the rounding noise of Horner's rule the absolute stopping rules cannot be met by any implementation; tol must also stay below |leading coefficient| (the library rejects a leading coefficient < tol, 'non-negligible leading coefficient')".into(),
            "n_max = 1000 iterations for every stage of the root finder".into(),
            "orthogonal zeros: accuracy unit is tol*max(1,1/|p'(r)|) + eps*p~(|r|)/|p'(r)| of the monomial form (exact integer/rational coefficients computed by the harness); Laguerre indices whose leading coefficient 1/n! is not above twice the tolerance floor are skipped and counted".into(),
        ],
        exhaustive: false,
        stuck_is_violation: true,
    }
}

// ------------------------------------------------------------------ double-double arithmetic
pub mod dd {
    use num_complex::Complex;

    #[derive(Clone, Copy, Debug)]
    pub struct D {
        pub hi: f64,
        pub lo: f64,
    }
    #[inline]
    fn two_sum(a: f64, b: f64) -> (f64, f64) {
        let s = a + b;
        let bb = s - a;
        (s, (a - (s - bb)) + (b - bb))
    }
    #[inline]
    fn quick_two_sum(a: f64, b: f64) -> (f64, f64) {
        let s = a + b;
        (s, b - (s - a))
    }
    #[inline]
    fn split(a: f64) -> (f64, f64) {
        let t = 134217729.0 * a;
        let hi = t - (t - a);
        (hi, a - hi)
    }
    #[inline]
    fn two_prod(a: f64, b: f64) -> (f64, f64) {
        let p = a * b;
        let (ah, al) = split(a);
        let (bh, bl) = split(b);
        (p, ((ah * bh - p) + ah * bl + al * bh) + al * bl)
    }
    impl D {
        pub fn f(a: f64) -> D {
            D { hi: a, lo: 0.0 }
        }
        #[inline]
        pub fn add(self, b: D) -> D {
            let (s, e) = two_sum(self.hi, b.hi);
            let (t, f) = two_sum(self.lo, b.lo);
            let (s, e) = quick_two_sum(s, e + t);
            let (s, e) = quick_two_sum(s, e + f);
            D { hi: s, lo: e }
        }
        #[inline]
        pub fn neg(self) -> D {
            D { hi: -self.hi, lo: -self.lo }
        }
        #[inline]
        pub fn sub(self, b: D) -> D {
            self.add(b.neg())
        }
        #[inline]
        pub fn mul(self, b: D) -> D {
            let (p, e) = two_prod(self.hi, b.hi);
            let e = e + (self.hi * b.lo + self.lo * b.hi);
            let (p, e) = quick_two_sum(p, e);
            D { hi: p, lo: e }
        }
        #[inline]
        pub fn mulf(self, b: f64) -> D {
            self.mul(D::f(b))
        }
        pub fn val(self) -> f64 {
            self.hi + self.lo
        }
    }

    /// complex double-double
    #[derive(Clone, Copy, Debug)]
    pub struct Z {
        pub re: D,
        pub im: D,
    }
    impl Z {
        pub fn c(z: Complex<f64>) -> Z {
            Z { re: D::f(z.re), im: D::f(z.im) }
        }
        #[inline]
        pub fn add(self, b: Z) -> Z {
            Z { re: self.re.add(b.re), im: self.im.add(b.im) }
        }
        #[inline]
        pub fn sub(self, b: Z) -> Z {
            Z { re: self.re.sub(b.re), im: self.im.sub(b.im) }
        }
        #[inline]
        pub fn mul(self, b: Z) -> Z {
            Z { re: self.re.mul(b.re).sub(self.im.mul(b.im)), im: self.re.mul(b.im).add(self.im.mul(b.re)) }
        }
        pub fn val(self) -> Complex<f64> {
            Complex::new(self.re.val(), self.im.val())
        }
    }

    /// p(z) and p'(z) by Horner's rule; coefficients ascending
    pub fn eval(asc: &[Complex<f64>], z: Z) -> (Z, Z) {
        let n = asc.len();
        let mut acc = Z::c(asc[n - 1]);
        let mut der = Z::c(Complex::new(0.0, 0.0));
        for k in (0..n - 1).rev() {
            der = der.mul(z).add(acc);
            acc = acc.mul(z).add(Z::c(asc[k]));
        }
        (acc, der)
    }
}
use dd::{D, Z};

/// p~(x) = sum |a_k| x^k
fn ptilde(asc: &[C], x: f64) -> f64 {
    let mut acc = 0.0;
    for c in asc.iter().rev() {
        acc = acc * x + c.norm();
    }
    acc
}

/// Refine a root of the polynomial `asc` in double-double arithmetic. Returns (root, |p'(root)|)
/// or None if the iteration did not converge.
fn refine(asc: &[C], start: C) -> Option<(C, f64)> {
    let mut z = Z::c(start);
    let mut last = f64::INFINITY;
    for _ in 0..12 {
        let (p, d) = dd::eval(asc, z);
        let step = p.val() / d.val();
        if !step.norm().is_finite() {
            return None;
        }
        z = z.sub(Z::c(step));
        last = step.norm();
        if last <= 1e-26 * (1e-3 + z.val().norm()) {
            break;
        }
    }
    let zz = z.val();
    if !(last <= 1e-24 * (1e-3 + zz.norm())) && !(last <= 1e-300) {
        return None;
    }
    let (_, d) = dd::eval(asc, z);
    Some((zz, d.val().norm()))
}

// ------------------------------------------------------------------ matching
/// maximum bipartite matching (Kuhn); adj[i] = admissible j
fn perfect_matching(adj: &[Vec<usize>]) -> bool {
    let n = adj.len();
    let mut mate: Vec<Option<usize>> = vec![None; n];
    fn try_i(i: usize, adj: &[Vec<usize>], seen: &mut [bool], mate: &mut [Option<usize>]) -> bool {
        for &j in &adj[i] {
            if seen[j] {
                continue;
            }
            seen[j] = true;
            if mate[j].is_none() || try_i(mate[j].unwrap(), adj, seen, mate) {
                mate[j] = Some(i);
                return true;
            }
        }
        false
    }
    for i in 0..n {
        let mut seen = vec![false; n];
        if !try_i(i, adj, &mut seen, &mut mate) {
            return false;
        }
    }
    true
}

fn cj(z: &[C]) -> J {
    J::Arr(z.iter().map(|c| J::Arr(vec![J::from(c.re), J::from(c.im)])).collect())
}

// ------------------------------------------------------------------ the case
#[derive(Clone)]
struct PolyCase {
    flavour: &'static str,
    /// through Polynomial<f64> (true) or Polynomial<Complex<f64>>
    real_type: bool,
    /// built with set_coefficient (only non-zero entries are set)
    exact_sparse: bool,
    asc: Vec<C>,
    /// the roots the polynomial was constructed from
    built_from: Vec<C>,
    tol: f64,
    /// pinned input k (1-based) of the "cycle-anchors" stage: tolerance is given, Err signature is its own
    pin: Option<usize>,
}

impl PolyCase {
    fn json(&self) -> J {
        J::obj()
            .set("call", if self.real_type { "Polynomial<f64>::roots(tol, n_max)" } else { "Polynomial<Complex<f64>>::roots(tol, n_max)" })
            .set("flavour", self.flavour)
            .set("construction", if self.exact_sparse { "Polynomial::new() + set_coefficient(k, a_k) for the non-zero a_k" } else { "coefficients.iter().collect() (ascending powers)" })
            .set("coefficients_ascending_re_im", cj(&self.asc))
            .set("constructed_from_roots_re_im", cj(&self.built_from))
            .set("tol", self.tol)
            .set("n_max", N_MAX)
            .set("polynomial_zero_tolerance", self.small_scale_tolerance().map(J::from).unwrap_or(J::from("default 1e-10")))
    }
    fn hash(&self) -> u64 {
        let mut h = CaseHash::new("c14").u(self.real_type as u64).u(self.exact_sparse as u64).f(self.tol);
        for c in &self.asc {
            h = h.f(c.re).f(c.im);
        }
        h.0
    }
    /// small-scale members (|leading coefficient| < 1e-8): the polynomial's own zero tolerance is set
    /// far below its coefficients, so that the leading coefficient is "non-negligible" as the
    /// property requires (the default tolerance 1e-10 would make it negligible)
    fn small_scale_tolerance(&self) -> Option<f64> {
        let lead = self.asc.last().map(|c| c.norm()).unwrap_or(1.0);
        // one polynomial in eight carries the zero tolerance 0.0 ("only an exact zero is negligible"; the
        // deflation divides with it: D41). Chosen from the data so that the other draws stay as they were.
        if (self.asc[0].re.to_bits() >> 9) % 8 == 0 {
            return Some(0.0);
        }
        if lead < 1e-8 {
            Some(lead * 1e-12)
        } else {
            None
        }
    }
    fn call(&self) -> Guarded<Result<Vec<C>, String>> {
        let tol = self.tol;
        if self.real_type {
            let p: Polynomial<f64> = if self.exact_sparse {
                let mut p = Polynomial::new();
                for (k, c) in self.asc.iter().enumerate() {
                    if c.re != 0.0 {
                        p.set_coefficient(k as u32, c.re);
                    }
                }
                p
            } else {
                self.asc.iter().map(|c| c.re).collect()
            };
            let mut p = p;
            if let Some(t) = self.small_scale_tolerance() {
                let _ = p.set_tolerance(t);
            }
            probe::guard(move || p.roots(tol, N_MAX).map(|v| v.into_iter().collect::<Vec<C>>()))
        } else {
            let p: Polynomial<C> = if self.exact_sparse {
                let mut p = Polynomial::new();
                for (k, c) in self.asc.iter().enumerate() {
                    if c.re != 0.0 || c.im != 0.0 {
                        p.set_coefficient(k as u32, *c);
                    }
                }
                p
            } else {
                self.asc.iter().copied().collect()
            };
            let mut p = p;
            if let Some(t) = self.small_scale_tolerance() {
                let _ = p.set_tolerance(t);
            }
            probe::guard(move || p.roots(tol, N_MAX).map(|v| v.into_iter().collect::<Vec<C>>()))
        }
    }
}

/// plain f64 expansion of lead * prod (x - r)
fn expand(roots: &[C], lead: C) -> Vec<C> {
    let mut co = vec![C::new(1.0, 0.0)];
    for r in roots {
        let mut e = vec![C::new(0.0, 0.0); co.len() + 1];
        for (i, c) in co.iter().enumerate() {
            e[i + 1] += *c;
            e[i] -= *c * *r;
        }
        co = e;
    }
    co.iter().map(|c| *c * lead).collect()
}

/// Noise floor of the tolerance for the polynomial with (refined) roots `roots`, |p'| at them in `dps`.
fn tol_floor(asc: &[C], roots: &[C], dps: &[f64], residual_rule: bool) -> f64 {
    let n = (asc.len() - 1) as f64;
    let rho = roots.iter().map(|r| r.norm()).fold(1.0, f64::max);
    let mut m = if residual_rule { ptilde(asc, rho) } else { 0.0 };
    for (r, d) in roots.iter().zip(dps) {
        m = m.max(ptilde(asc, r.norm()) / d);
    }
    TOL_NOISE * 2.0 * n * EPS * m
}

/// Fill in the tolerance (u in [0,1] selects it between the floor and max(1e-6, floor)) and run.
/// Returns false when the case had to be dropped (class membership not decidable).
fn run_poly(rep: &mut Report, mut pc: PolyCase, u: f64) {
    let deg = pc.asc.len() - 1;
    let fl = pc.flavour;
    // true roots of the polynomial that is actually passed
    let mut truth = vec![];
    let mut dps = vec![];
    for r in &pc.built_from {
        match refine(&pc.asc, *r) {
            Some((z, d)) if (z - *r).norm() <= 1e-6 && d > 0.0 && d.is_finite() => {
                truth.push(z);
                dps.push(d);
            }
            _ => {
                rep.inconclusive("reference-root-refinement");
                return;
            }
        }
    }
    let floor = tol_floor(&pc.asc, &truth, &dps, true);
    let lead = pc.asc[deg].norm();
    let mut hi = floor.max(1e-6);
    if pc.small_scale_tolerance().is_some() {
        // small-scale members: `tol` is an absolute residual bound AND an absolute step bound. The
        // residual rule |p(z)| < tol only identifies a root if tol is far below |p'(r)| x separation,
        // which for tiny coefficients is far below 1e-6; the step rule needs tol above the
        // scale-free rounding floor. Keep tol in [floor, 1e-3 min|p'(r)|]; drop the case when
        // that window is narrower than a factor 4 (no tolerance serves both roles).
        let dmin = dps.iter().cloned().fold(f64::INFINITY, f64::min);
        hi = (1e-3 * dmin).min(1e-6);
        if !(hi >= 4.0 * floor) {
            rep.count("small_scale/skipped_no_tolerance_serves_both_stopping_rules", 1);
            return;
        }
        rep.count("small_scale/cases", 1);
    }
    if pc.pin.is_some() {
        if !(pc.tol >= floor) {
            rep.harness_errors.push(format!("pinned input {:?}: tolerance {:e} below the floor {:e}", pc.pin, pc.tol, floor));
            return;
        }
    } else {
        pc.tol = if u < 0.0 { floor } else { floor * (hi / floor).powf(u) };
    }
    if !(pc.tol < 0.5 * lead) {
        // the library (rightly) refuses a leading coefficient below the tolerance
        rep.count("skipped_tolerance_floor_above_leading_coefficient", 1);
        return;
    }
    let tol = pc.tol;
    rep.eval();
    rep.count(&format!("{}/cases", fl), 1);
    rep.count(&format!("degree_{:02}/cases", deg), 1);
    rep.count(if pc.real_type { "type_f64/cases" } else { "type_complex/cases" }, 1);
    if tol <= 4.0 * floor {
        rep.count("cases_tol_within_4x_of_noise_floor", 1);
    }
    let out = pc.call();
    let case = || pc.json().set("true_roots_re_im", cj(&truth)).set("tolerance_floor", floor);
    let found = match out {
        Guarded::Ok(Ok(v)) => v,
        Guarded::Ok(Err(e)) => {
            let sig = if e.contains("maximum iterations") { "roots/err-max-iterations" } else if e.contains("Leading 0") { "roots/err-leading-zero" } else { "roots/err-other" };
            let sig = match pc.pin {
                Some(k) if e.contains("maximum iterations") => format!("roots/err-max-iterations/cycle-anchor-{}", k),
                _ => sig.to_string(),
            };
            rep.violation(&sig, case(), format!("degree {} ({}): roots returned Err(\"{}\") for a polynomial with separated roots", deg, fl, e));
            return;
        }
        Guarded::Budget => {
            rep.inconclusive("budget");
            return;
        }
        Guarded::Panic(m, l) => {
            rep.violation("roots/panic", case(), format!("degree {} ({}): roots panicked: '{}' at {}", deg, fl, m, l));
            return;
        }
    };
    rep.count("ok_results", 1);
    if deg >= 3 {
        rep.nontrivial(pc.hash());
        rep.count(&format!("{}/cases_degree_ge3", fl), 1);
    }
    let case = || case().set("returned_re_im", cj(&found));
    if found.len() != deg {
        rep.violation("roots/count", case(), format!("degree {} ({}): {} values returned", deg, fl, found.len()));
        return;
    }
    if found.iter().any(|z| !z.re.is_finite() || !z.im.is_finite()) {
        rep.violation("roots/non-finite", case(), format!("degree {} ({}): non-finite value returned", deg, fl));
        return;
    }
    // residuals
    let mut worst = (0.0f64, 0usize);
    let mut resid = vec![];
    for (i, z) in found.iter().enumerate() {
        let (p, d) = dd::eval(&pc.asc, Z::c(*z));
        let r = p.val().norm();
        let ratio = r / (tol + EPS * ptilde(&pc.asc, z.norm()));
        resid.push((r, d.val().norm()));
        if !(ratio <= worst.0) {
            worst = (ratio, i);
        }
    }
    rep.max("roots/residual_over_unit", worst.0);
    rep.max(&format!("roots/residual_over_unit/{}", if deg <= 2 { "closed-form" } else { fl }), worst.0);
    if !(worst.0 <= K_RES) {
        rep.violation(
            "roots/residual",
            case(),
            format!("degree {} ({}): |p(z)| = {:e} at returned value #{} {:?} is {:.3} x (tol + eps p~(|z|)), bound {}", deg, fl, resid[worst.1].0, worst.1, found[worst.1], worst.0, K_RES),
        );
        return;
    }
    // one-to-one matching with the true roots
    let unit: Vec<f64> = truth.iter().zip(&dps).map(|(r, d)| (tol + EPS * ptilde(&pc.asc, r.norm())) / d).collect();
    let bound = |j: usize| K_MATCH * unit[j] + FLOOR_ULPS * EPS * truth[j].norm();
    // greedy nearest assignment gives the reported ratios
    let mut used = vec![false; deg];
    let mut greedy_ok = true;
    let mut worst_m = (0.0f64, 0usize, 0usize);
    for (i, z) in found.iter().enumerate() {
        let mut best = (f64::INFINITY, 0usize);
        for j in 0..deg {
            if !used[j] {
                let d = (*z - truth[j]).norm();
                if d < best.0 {
                    best = (d, j);
                }
            }
        }
        used[best.1] = true;
        let excess = (best.0 - FLOOR_ULPS * EPS * truth[best.1].norm()).max(0.0);
        let ratio = excess / unit[best.1];
        if !(ratio <= worst_m.0) {
            worst_m = (ratio, i, best.1);
        }
        if !(best.0 <= bound(best.1)) {
            greedy_ok = false;
        }
    }
    if !greedy_ok {
        let adj: Vec<Vec<usize>> = found.iter().map(|z| (0..deg).filter(|&j| (*z - truth[j]).norm() <= bound(j)).collect()).collect();
        if !perfect_matching(&adj) {
            // every returned value is a root (within the bound of some true root), yet they cannot be
            // assigned one-to-one: a root is reported twice and another one is missing. This is the
            // signature of the Newton polish pulling two deflated approximations onto the same root
            // (known finding D39); anything else - a value that is no root at all - is `roots/match`
            let all_are_roots = adj.iter().all(|a| !a.is_empty());
            rep.violation(
                if all_are_roots { "roots/duplicate-after-polish" } else { "roots/match" },
                case(),
                format!(
                    "degree {} ({}): the returned values cannot be matched one-to-one with the true roots; returned #{} {:?} is {:e} from its nearest free true root {:?}, {:.3} x (tol + eps p~)/|p'|, bound {}",
                    deg, fl, worst_m.1, found[worst_m.1], (found[worst_m.1] - truth[worst_m.2]).norm(), truth[worst_m.2], worst_m.0, K_MATCH
                ),
            );
            return;
        }
        rep.count("matched_by_augmenting_paths", 1);
    } else {
        rep.max("roots/match_distance_over_unit", worst_m.0);
        rep.max(&format!("roots/match_distance_over_unit/{}", if deg <= 2 { "closed-form" } else { fl }), worst_m.0);
    }
    // conjugate closure for real coefficients
    if pc.real_type {
        let b: Vec<f64> = found.iter().zip(&resid).map(|(z, (_, d))| K_MATCH * (tol + EPS * ptilde(&pc.asc, z.norm())) / d + FLOOR_ULPS * EPS * z.norm()).collect();
        let adj: Vec<Vec<usize>> = (0..deg).map(|i| (0..deg).filter(|&j| (found[i] - found[j].conj()).norm() <= b[i] + b[j]).collect()).collect();
        rep.count("conjugate_closure_checked", 1);
        if !perfect_matching(&adj) {
            rep.violation("roots/conjugate", case(), format!("degree {} ({}): real coefficients, but the returned values are not closed under conjugation within the matching bound", deg, fl));
            return;
        }
    }
    if rep.wants_sample() && deg >= 3 {
        rep.sample(case().set("max_residual_over_unit", worst.0).set("max_match_distance_over_unit", worst_m.0));
    }
}

// ------------------------------------------------------------------ generators
fn separated(roots: &[C], cand: &[C]) -> bool {
    cand.iter().all(|c| c.norm() <= DISC && roots.iter().all(|r| (r - c).norm() >= MIN_SEP))
}

fn gen_roots(rng: &mut Rng, deg: usize, real: bool) -> Vec<C> {
    'again: loop {
        let mut roots: Vec<C> = vec![];
        let mut tries = 0;
        while roots.len() < deg {
            tries += 1;
            if tries > 2000 {
                continue 'again;
            }
            let cand: Vec<C> = if real {
                if deg - roots.len() < 2 || rng.bool() {
                    vec![C::new(rng.r(-DISC, DISC), 0.0)]
                } else {
                    let z = C::from_polar(DISC * rng.f().sqrt(), rng.r(0.0, std::f64::consts::PI));
                    if z.im < 0.5 * MIN_SEP {
                        continue;
                    }
                    vec![z, z.conj()]
                }
            } else {
                vec![C::from_polar(DISC * rng.f().sqrt(), rng.r(0.0, 2.0 * std::f64::consts::PI))]
            };
            if separated(&roots, &cand) {
                roots.extend(cand);
            }
        }
        return roots;
    }
}

fn gen_lead(rng: &mut Rng, real: bool) -> C {
    let m = match rng.below(6) {
        0 => 1.0,
        1 => rng.r(0.5, 2.0),
        // small-scale stratum: the whole polynomial is tiny, its zero tolerance is set below it
        2 => rng.log10(-13.0, -9.0),
        _ => rng.log10(-2.0, 2.0),
    };
    if real {
        C::new(m * rng.sign(), 0.0)
    } else if (m.to_bits() >> 3) % 4 == 0 {
        // round 11: a quarter of the complex leading coefficients lie exactly on an axis - purely imaginary
        // (real part exactly 0: whatever looks at one component only sees nothing) or purely real
        // (selected from the bits of m so that the other draws stay as they were)
        match (m.to_bits() >> 5) % 4 {
            0 => C::new(0.0, m),
            1 => C::new(0.0, -m),
            2 => C::new(-m, 0.0),
            _ => C::new(m, 0.0),
        }
    } else {
        C::from_polar(m, rng.r(0.0, 2.0 * std::f64::consts::PI))
    }
}

fn gen_u(rng: &mut Rng) -> f64 {
    match rng.below(5) {
        0 => -1.0,              // exactly the floor
        1 => rng.r(0.0, 0.15),  // close to the floor
        _ => rng.f(),
    }
}

/// roots of x^n = c
fn unity_roots(n: usize, c: C) -> Vec<C> {
    let (m, a) = c.to_polar();
    let r0 = C::from_polar(m.powf(1.0 / n as f64), a / n as f64);
    (0..n).map(|k| r0 * C::from_polar(1.0, 2.0 * std::f64::consts::PI * k as f64 / n as f64)).collect()
}

fn min_radius(n: usize) -> f64 {
    // adjacent roots on the circle of radius rho are 2 rho sin(pi/n) apart
    if n < 2 {
        0.31
    } else {
        (1.02 * 0.5 * MIN_SEP / (std::f64::consts::PI / n as f64).sin()).max(0.31)
    }
}

/// x^n - c, exact or expanded
fn sparse_xn_c(n: usize, c: C, lead: C, real_type: bool, exact: bool) -> PolyCase {
    let roots = unity_roots(n, c);
    let asc: Vec<C> = if exact {
        let mut a = vec![C::new(0.0, 0.0); n + 1];
        a[n] = lead;
        a[0] = -lead * c;
        a
    } else {
        expand(&roots, lead)
    };
    let asc = if real_type { asc.iter().map(|z| C::new(z.re, 0.0)).collect() } else { asc };
    PolyCase { flavour: if exact { "sparse-exact" } else { "sparse-expanded" }, real_type, exact_sparse: exact, asc, built_from: roots, tol: 0.0, pin: None }
}

/// prod_i (x^m - c_i), exact zeros in between (coefficients of the polynomial in y = x^m are
/// expanded in f64; the true roots are refined on the resulting coefficients)
fn sparse_composite(rng: &mut Rng, real_type: bool) -> Option<PolyCase> {
    let (m, k) = *rng.pick(&[(2usize, 2usize), (2, 3), (2, 4), (2, 5), (3, 2), (3, 3), (4, 2), (5, 2)]);
    let mut cs: Vec<C> = vec![];
    let mut roots: Vec<C> = vec![];
    let mut tries = 0;
    while cs.len() < k {
        tries += 1;
        if tries > 500 {
            return None;
        }
        let rho = rng.r(min_radius(m), DISC);
        let c = if real_type { C::new(rho.powi(m as i32) * rng.sign(), 0.0) } else { C::from_polar(rho.powi(m as i32), rng.r(0.0, 2.0 * std::f64::consts::PI)) };
        let cand = unity_roots(m, c);
        if separated(&roots, &cand) {
            roots.extend(cand);
            cs.push(c);
        }
    }
    let lead = gen_lead(rng, real_type);
    let in_y = expand(&cs, lead);
    let mut asc = vec![C::new(0.0, 0.0); m * k + 1];
    for (j, c) in in_y.iter().enumerate() {
        asc[m * j] = if real_type { C::new(c.re, 0.0) } else { *c };
    }
    Some(PolyCase { flavour: "sparse-composite-exact", real_type, exact_sparse: true, asc, built_from: roots, tol: 0.0, pin: None })
}

// ------------------------------------------------------------------ orthogonal polynomials
#[derive(Clone, Copy, PartialEq, Debug)]
enum Fam {
    Legendre,
    Hermite,
    Laguerre,
}
impl Fam {
    fn name(self) -> &'static str {
        match self {
            Fam::Legendre => "legendre_zeros",
            Fam::Hermite => "hermite_zeros",
            Fam::Laguerre => "laguerre_zeros",
        }
    }
    fn nmax(self) -> u32 {
        match self {
            Fam::Laguerre => 12,
            _ => 16,
        }
    }
}

fn binom(n: u32, k: u32) -> u128 {
    let mut acc: u128 = 1;
    for i in 0..k {
        acc = acc * (n - i) as u128 / (i + 1) as u128;
    }
    acc
}
fn fact(n: u32) -> u128 {
    (1..=n as u128).product()
}

/// exact monomial coefficients (ascending) of the classical normalisation, rounded once to f64
fn ortho_coefficients(fam: Fam, n: u32) -> Vec<f64> {
    let mut a = vec![0.0; n as usize + 1];
    match fam {
        Fam::Legendre => {
            for k in 0..=n / 2 {
                let v = (binom(n, k) * binom(2 * n - 2 * k, n)) as f64 / (1u128 << n) as f64;
                a[(n - 2 * k) as usize] = if k % 2 == 0 { v } else { -v };
            }
        }
        Fam::Hermite => {
            for k in 0..=n / 2 {
                let v = (fact(n) / (fact(k) * fact(n - 2 * k)) * (1u128 << (n - 2 * k))) as f64;
                a[(n - 2 * k) as usize] = if k % 2 == 0 { v } else { -v };
            }
        }
        Fam::Laguerre => {
            for k in 0..=n {
                let v = binom(n, k) as f64 / fact(k) as f64;
                a[k as usize] = if k % 2 == 0 { v } else { -v };
            }
        }
    }
    a
}

/// value and derivative of a positive multiple of the n-th polynomial by the division-free
/// three-term recurrence, in double-double arithmetic
fn ortho_eval(fam: Fam, n: u32, x: D) -> (D, D) {
    let (mut p0, mut d0) = (D::f(1.0), D::f(0.0));
    if n == 0 {
        return (p0, d0);
    }
    let (mut p1, mut d1) = match fam {
        Fam::Legendre => (x, D::f(1.0)),
        Fam::Hermite => (x.mulf(2.0), D::f(2.0)),
        Fam::Laguerre => (D::f(1.0).sub(x), D::f(-1.0)),
    };
    for k in 1..n {
        let kf = k as f64;
        let (p2, d2) = match fam {
            // Q_k = k! P_k :  Q_{k+1} = (2k+1) x Q_k - k^2 Q_{k-1}
            Fam::Legendre => {
                let xq = x.mul(p1);
                (xq.mulf(2.0 * kf + 1.0).sub(p0.mulf(kf * kf)), p1.add(x.mul(d1)).mulf(2.0 * kf + 1.0).sub(d0.mulf(kf * kf)))
            }
            // H_{k+1} = 2x H_k - 2k H_{k-1}
            Fam::Hermite => (x.mul(p1).mulf(2.0).sub(p0.mulf(2.0 * kf)), p1.add(x.mul(d1)).mulf(2.0).sub(d0.mulf(2.0 * kf))),
            // M_k = k! L_k :  M_{k+1} = (2k+1-x) M_k - k^2 M_{k-1}
            Fam::Laguerre => {
                let w = D::f(2.0 * kf + 1.0).sub(x);
                (w.mul(p1).sub(p0.mulf(kf * kf)), w.mul(d1).sub(p1).sub(d0.mulf(kf * kf)))
            }
        };
        p0 = p1;
        d0 = d1;
        p1 = p2;
        d1 = d2;
    }
    (p1, d1)
}

/// zeros of the n-th polynomial: Jacobi-matrix eigenvalues polished by Newton (ascending)
fn ortho_zeros(fam: Fam, n: u32) -> Result<Vec<f64>, String> {
    if n == 0 {
        return Ok(vec![]);
    }
    let m = n as usize;
    let mut jm = nalgebra::DMatrix::<f64>::zeros(m, m);
    for k in 0..m {
        let kf = k as f64;
        jm[(k, k)] = match fam {
            Fam::Laguerre => 2.0 * kf + 1.0,
            _ => 0.0,
        };
        if k + 1 < m {
            let j = kf + 1.0;
            let b = match fam {
                Fam::Legendre => j / (4.0 * j * j - 1.0).sqrt(),
                Fam::Hermite => (j / 2.0).sqrt(),
                Fam::Laguerre => j,
            };
            jm[(k, k + 1)] = b;
            jm[(k + 1, k)] = b;
        }
    }
    let eig = nalgebra::linalg::SymmetricEigen::new(jm);
    let mut ev: Vec<f64> = eig.eigenvalues.iter().copied().collect();
    ev.sort_by(|a, b| a.partial_cmp(b).unwrap());
    let mut out = vec![];
    for e in ev {
        let mut x = D::f(e);
        let mut last = f64::INFINITY;
        for _ in 0..8 {
            let (p, d) = ortho_eval(fam, n, x);
            let step = p.val() / d.val();
            x = x.sub(D::f(step));
            last = step.abs();
            if last <= 1e-28 * (1.0 + x.val().abs()) {
                break;
            }
        }
        if !(last <= 1e-24 * (1.0 + x.val().abs())) || !((x.val() - e).abs() <= 1e-9 * (1.0 + e.abs())) {
            return Err(format!("{:?} n={}: Newton polish of eigenvalue {:e} did not settle (last step {:e}, moved to {:e})", fam, n, e, last, x.val()));
        }
        out.push(x.val());
    }
    if out.windows(2).any(|w| !(w[0] < w[1])) {
        return Err(format!("{:?} n={}: reference zeros not strictly increasing", fam, n));
    }
    Ok(out)
}

const ORTHO_TOLS: [f64; 8] = [1e-6, 1e-7, 1e-8, 1e-10, 1e-12, 0.0, -0.25, -0.01];
/// zero tolerances of the constructed polynomial: the usual one, and two far below the root
/// tolerance (the two tolerances are independent parameters; the crate's own tests use 1e-40)
const POLY_TOLS: [f64; 3] = [1e-12, 1e-40, 1e-20];

fn run_ortho(rep: &mut Report, fam: Fam, n: u32, tol_choice: f64, poly_tol: f64) {
    let name = fam.name();
    let refz = match ortho_zeros(fam, n) {
        Ok(z) => z,
        Err(e) => {
            rep.harness_errors.push(e);
            return;
        }
    };
    let a: Vec<C> = ortho_coefficients(fam, n).iter().map(|v| C::new(*v, 0.0)).collect();
    // |p'(r)| of the monomial form
    let dps: Vec<f64> = refz.iter().map(|r| dd::eval(&a, Z::c(C::new(*r, 0.0))).1.val().norm()).collect();
    let roots_c: Vec<C> = refz.iter().map(|r| C::new(*r, 0.0)).collect();
    let floor = if n >= 1 { tol_floor(&a, &roots_c, &dps, fam != Fam::Hermite) } else { 0.0 };
    let lead = a[n as usize].norm();
    // ladder entry: > 0 literal tolerance, 0 = the noise floor itself, < 0 = that fraction of the leading coefficient
    let tol = if tol_choice > 0.0 {
        tol_choice
    } else if tol_choice == 0.0 {
        floor.max(1e-14)
    } else {
        -tol_choice * lead
    };
    if n >= 2 {
        rep.max(&format!("{}/tolerance_floor/n{:02}", name, n), floor);
    }
    if n >= 2 && !(tol < 0.5 * lead) {
        // the library (rightly) refuses a leading coefficient below the tolerance
        rep.count(&format!("{}/ladder_entries_not_below_half_leading_coefficient", name), 1);
        return;
    }
    if !(tol <= 1e-6) {
        // the property quantifies over tolerances from 1e-6 downwards
        rep.count(&format!("{}/ladder_entries_above_1e-6", name), 1);
        return;
    }
    // Ok is required only at or above the noise floor; below it an Err is tolerated, an Ok result is judged all the same
    let ok_required = n <= 1 || tol >= floor;
    rep.count(&format!("{}/{}", name, if ok_required { "cases_ok_required" } else { "cases_below_noise_floor" }), 1);
    rep.eval();
    rep.count(&format!("{}/cases", name), 1);
    let out = probe::guard(|| match fam {
        Fam::Legendre => legendre_zeros::<f64>(n, tol, poly_tol, N_MAX),
        Fam::Hermite => hermite_zeros::<f64>(n, tol, poly_tol, N_MAX),
        Fam::Laguerre => laguerre_zeros::<f64>(n, tol, poly_tol, N_MAX),
    });
    let case = || J::obj().set("call", format!("{}::<f64>(n, tol, poly_tol, n_max)", name)).set("n", n as u64).set("tol", tol).set("poly_tol", poly_tol).set("n_max", N_MAX).set("reference_zeros", J::fs(&refz)).set("tolerance_floor", floor);
    let z = match out {
        Guarded::Ok(Ok(z)) => z,
        Guarded::Ok(Err(e)) => {
            if ok_required {
                rep.violation(&format!("{}/err", name), case(), format!("n={} tol={:e} (noise floor {:e}): Err(\"{}\")", n, tol, floor, e));
            } else {
                rep.inconclusive("zeros-err-with-tolerance-below-noise-floor");
                rep.count(&format!("{}/err_below_noise_floor", name), 1);
            }
            return;
        }
        Guarded::Budget => {
            rep.inconclusive("budget");
            return;
        }
        Guarded::Panic(m, l) => {
            rep.violation(&format!("{}/panic", name), case(), format!("n={} tol={:e}: panicked '{}' at {}", n, tol, m, l));
            return;
        }
    };
    let case = || case().set("returned", J::fs(&z));
    rep.nontrivial(CaseHash::new("c14-ortho").s(name).u(n as u64).f(tol).0);
    if n >= 3 {
        rep.count(&format!("{}/cases_n_ge3", name), 1);
    }
    rep.count(&format!("{}/ok_n{:02}", name, n), 1);
    if z.len() != n as usize {
        rep.violation(&format!("{}/count", name), case(), format!("n={}: {} zeros returned", n, z.len()));
        return;
    }
    if z.iter().any(|v| !v.is_finite()) {
        rep.violation(&format!("{}/non-finite", name), case(), format!("n={}: non-finite zero", n));
        return;
    }
    let inside = |v: f64| match fam {
        Fam::Legendre => v > -1.0 && v < 1.0,
        Fam::Hermite => true,
        Fam::Laguerre => v > 0.0,
    };
    if let Some(v) = z.iter().find(|v| !inside(**v)) {
        rep.violation(&format!("{}/outside-interval", name), case(), format!("n={}: zero {:e} outside the orthogonality interval", n, v));
        return;
    }
    let mut s = z.clone();
    s.sort_by(|a, b| a.partial_cmp(b).unwrap());
    if s.windows(2).any(|w| !(w[0] < w[1])) {
        rep.violation(&format!("{}/not-distinct", name), case(), format!("n={}: zeros are not pairwise distinct", n));
        return;
    }
    // both sorted: the k-th smallest must match the k-th reference zero
    for k in 0..s.len() {
        let r = refz[k];
        let pt = ptilde(&a, r.abs());
        let unit = tol * (1.0f64).max(1.0 / dps[k]) + EPS * pt / dps[k];
        let dist = (s[k] - r).abs();
        let ratio = nmax(dist - FLOOR_ULPS * EPS * r.abs(), 0.0) / unit;
        rep.max(&format!("{}/distance_over_unit", name), ratio);
        if !(dist <= K_ZERO * unit + FLOOR_ULPS * EPS * r.abs()) {
            rep.violation(&format!("{}/match", name), case(), format!("n={} tol={:e}: zero #{} (ascending) {:.17e} differs from the true zero {:.17e} by {:e} = {:.3} units, bound {}", n, tol, k, s[k], r, dist, ratio, K_ZERO));
            return;
        }
    }
    rep.count(&format!("{}/zeros_matched", name), n as i64);
    if rep.wants_sample() && n >= 5 && tol_choice == 1e-8 {
        rep.sample(case());
    }
}

// ------------------------------------------------------------------ anchors
fn anchor_cases() -> Vec<(PolyCase, f64)> {
    let mut v = vec![];
    let re = |x: f64| C::new(x, 0.0);
    // x^n - c both flavours, real type; radii: smallest admissible, 1, 2.5; both signs of c
    for n in 3..=10usize {
        for (k, rho) in [min_radius(n).max(0.5), 1.0, 2.5].into_iter().enumerate() {
            for sgn in [1.0, -1.0] {
                for exact in [true, false] {
                    let c = re(sgn * rho.powi(n as i32));
                    v.push((sparse_xn_c(n, c, re(1.0), true, exact), [0.5, -1.0, 0.2][k]));
                }
            }
        }
    }
    // complex c
    for n in 3..=10usize {
        for exact in [true, false] {
            let c = C::from_polar(1.3f64.powi(n as i32), 0.7 + n as f64);
            v.push((sparse_xn_c(n, c, C::new(0.6, -0.8), false, exact), 0.5));
        }
    }
    // dense, fixed
    let dense: Vec<(Vec<C>, bool)> = vec![
        (vec![re(1.5)], true),
        (vec![re(1.0), re(2.0)], true),
        (vec![C::new(-0.5, 0.8660254037844386), C::new(-0.5, -0.8660254037844386)], true),
        (vec![re(0.0), re(1.0), re(-1.0)], true),
        (vec![re(0.0), re(1.0), re(-1.0), re(2.0), re(-2.0)], true),
        (vec![re(1.0), re(2.0), re(3.0), re(-1.0), re(-2.0), re(-3.0), C::new(0.0, 1.0), C::new(0.0, -1.0)], true),
        (vec![C::new(1.0, 1.0), C::new(1.0, -1.0), C::new(-1.0, 2.0), C::new(-1.0, -2.0), re(0.5), re(-2.5), re(2.9)], true),
        (vec![C::new(0.0, 1.0), C::new(0.0, -1.0), C::new(0.0, 2.0), C::new(0.0, -2.0)], true),
        (vec![C::new(0.3, 0.4), C::new(-1.0, 0.2), C::new(2.0, -2.0), C::new(0.0, -1.5), C::new(-2.2, 1.1), C::new(1.1, 1.9)], false),
        (vec![C::new(0.0, 0.0), C::new(0.0, 1.0), C::new(1.0, 0.0)], false),
        ((0..10).map(|k| re(-2.7 + 0.6 * k as f64)).collect(), true),
        ((0..10).map(|k| C::from_polar(0.6 + 0.24 * k as f64, 0.9 * k as f64)).collect(), false),
    ];
    for (roots, real) in dense {
        for (lead, u) in [(1.0, 0.5), (0.37, -1.0), (12.5, 0.9)] {
            let lead = if real { re(lead) } else { C::from_polar(lead, 1.0) };
            let asc = expand(&roots, lead);
            let asc = if real { asc.iter().map(|z| re(z.re)).collect() } else { asc };
            v.push((PolyCase { flavour: "dense", real_type: real, exact_sparse: false, asc, built_from: roots.clone(), tol: 0.0, pin: None }, u));
        }
    }
    v
}


// ------------------------------------------------------------------ pinned inputs
/// Four in-class inputs on which the Laguerre stage of `roots` falls into a stable two-cycle
/// (found by the thorough tier, seed 1, on the tree with the 30 repairs). They are judged by the
/// ordinary oracle; only an `Err(maximum iterations)` carries a signature of its own per input,
/// so that registering them as known findings cannot mask any other failure.
fn cycle_anchor_cases() -> Vec<PolyCase> {
    let data: Vec<(&'static str, bool, Vec<f64>, f64, Vec<(f64, f64)>)> = vec![
        ("dense", false, vec![66.24107066960087, -86.54431770201911, 42.7657283173379, -15.275464312457736, 10.836755283479027, -0.9573749116178977, -1.1223003484234715, -0.6926681924863398, -0.4315686699014569, -0.0732602698764053, -0.03003421789489702], 1.9618083784337897e-07, vec![(1.0676259328636222, 0.6664636147524357), (1.0676259328636222, -0.6664636147524357), (0.29107039356683245, 2.9824140541686455), (0.29107039356683245, -2.9824140541686455), (-1.4635606731587718, 2.574526154904373), (-1.4635606731587718, -2.574526154904373), (-0.3340336049566946, 2.0525225310539), (-0.3340336049566946, -2.0525225310539), (-2.9482093779255942, 0.0), (1.3867784589833034, 0.0)]),
        ("dense", false, vec![-16.198587862550163, -7.066691992202271, 37.89451204231043, 43.64195169646654, 12.897269044484805, 8.398356270233155, 12.881507404113062, 1.7794777073556545, 0.24894538167291147, 1.0], 2.1056431047640218e-09, vec![(1.1290146708995226, 1.7711745490360158), (1.1290146708995226, -1.7711745490360158), (-1.798960797397808, 0.0), (0.5429639002760043, 0.0), (-0.8502827161285537, 0.5619637308452209), (-0.8502827161285537, -0.5619637308452209), (-1.001518482861423, 0.0), (0.7255530443841887, 1.7569191336264294), (0.7255530443841887, -1.7569191336264294)]),
        ("sparse-composite-exact", true, vec![0.0353800746665446, 0.0, 0.0, -0.19535979691196925, 0.0, 0.0, -2.6218646843426883, 0.0, 0.0, 0.3789659261743441], 2.070046868587689e-12, vec![(0.26969842980217734, 0.46713138313891933), (-0.5393968596043546, 1.6653345369377348e-16), (0.26969842980217706, -0.4671313831389195), (1.912047752181344, 0.0), (-0.9560238760906715, 1.6558819266379767), (-0.9560238760906729, -1.655881926637976), (0.4398578826981009, 0.0), (-0.21992894134905033, 0.3809281004713911), (-0.21992894134905064, -0.380928100471391)]),
        ("sparse-composite-exact", true, vec![-19.483882281933866, 0.0, -10.38751758720168, 0.0, 1.6532944631356743, 0.0, 0.8478684000656279, 0.0, 0.06263102516870475], 8.509232511928814e-10, vec![(1.800343706737584, 0.0), (-1.800343706737584, 2.2047851578212636e-16), (1.8322973954145613e-16, 2.992368733075166), (-5.496892186243684e-16, -2.992368733075166), (8.147688463707106e-17, 1.330618504760694), (-2.444306539112132e-16, -1.330618504760694), (1.506606207066966e-16, 2.460474657862045), (-4.519818621200899e-16, -2.460474657862045)]),
    ];
    data.into_iter()
        .enumerate()
        .map(|(k, (flavour, exact, co, tol, roots))| PolyCase {
            flavour,
            real_type: true,
            exact_sparse: exact,
            asc: co.iter().map(|v| C::new(*v, 0.0)).collect(),
            built_from: roots.iter().map(|r| C::new(r.0, r.1)).collect(),
            tol,
            pin: Some(k + 1),
        })
        .collect()
}


/// The input on which sweep 7 found `roots()` returning one root twice and missing another (D39):
/// a small-scale degree-10 polynomial with real coefficients, through the complex type.
fn duplicate_anchor_case() -> PolyCase {
    let co: Vec<f64> = vec![-1.1647988776718397e-08, 1.0148144457295722e-07, -1.0997156177567302e-07, 4.920041364654232e-08, 3.292684785119544e-08, -3.814520825687868e-08, 2.4711815061827758e-09, 5.714289779724422e-09, -2.1736666154225536e-09, -1.4297739922019893e-10, 2.636485451045856e-10];
    let roots: Vec<(f64, f64)> = vec![(1.2550188869624637, 2.0415952842165903), (1.2550188869624637, -2.0415952842165903), (1.670472127835147, 0.0), (-2.2523998451598812, 0.0), (0.5695251920530846, 0.9607047345476094), (0.5695251920530846, -0.9607047345476094), (-2.379055197098511, 0.47293649975589724), (-2.379055197098511, -0.47293649975589724), (0.13262408551390736, 0.0), (2.100628876565257, 0.0)];
    PolyCase { flavour: "dense", real_type: false, exact_sparse: false, asc: co.iter().map(|v| C::new(*v, 0.0)).collect(), built_from: roots.iter().map(|r| C::new(r.0, r.1)).collect(), tol: 6.09510134741606e-11, pin: Some(5) }
}

fn ortho_cases() -> Vec<(Fam, u32, f64, f64)> {
    let mut v = vec![];
    for fam in [Fam::Legendre, Fam::Hermite, Fam::Laguerre] {
        for n in 0..=fam.nmax() {
            for t in ORTHO_TOLS {
                for pt in POLY_TOLS {
                    v.push((fam, n, t, pt));
                }
            }
        }
    }
    v
}

pub fn stages(ctx: &Ctx) -> Vec<Stage> {
    let seed = ctx.seed;
    let tier = ctx.tier;
    let mut st = vec![];
    let anchors = anchor_cases();
    let na = anchors.len() as u64;
    st.push(Stage::new("anchors", na, move |i, rep| {
        let (pc, u) = anchors[i as usize].clone();
        run_poly(rep, pc, u);
    }));
    let cyc = cycle_anchor_cases();
    st.push(Stage::new("duplicate-anchor", 1, move |_i, rep| {
        run_poly(rep, duplicate_anchor_case(), 0.0);
    }));
    st.push(Stage::new("cycle-anchors", cyc.len() as u64, move |i, rep| {
        rep.count("cycle_anchor_cases", 1);
        run_poly(rep, cyc[i as usize].clone(), 0.0);
    }));
    let oc = ortho_cases();
    let no = oc.len() as u64;
    st.push(Stage::new("ortho", no, move |i, rep| {
        let (fam, n, t, pt) = oc[i as usize];
        run_ortho(rep, fam, n, t, pt);
    }));
    st.push(Stage::new("random", tier.pick(60_000, 24_000_000), move |i, rep| {
        let mut rng = Rng::for_case(seed, "c14-random", i);
        let real = i % 2 == 0;
        let deg = 1 + (i / 2 % 10) as usize;
        let mut roots = gen_roots(&mut rng, deg, real);
        if rng.chance(0.1) {
            // a root at exactly 0 (constant coefficient exactly zero), in every degree incl. 1 and 2:
            // move the (real, for real polynomials) root nearest to the origin there if the others stay separated
            let k = (0..deg).filter(|k| !real || roots[*k].im == 0.0).min_by(|a, b| roots[*a].norm().partial_cmp(&roots[*b].norm()).unwrap());
            if let Some(k) = k {
                if (0..deg).all(|j| j == k || roots[j].norm() >= MIN_SEP) {
                    roots[k] = C::new(0.0, 0.0);
                    rep.count(&format!("random/cases_with_a_root_at_exactly_zero/degree_{}", deg.min(3)), 1);
                }
            }
        }
        if !real && rng.chance(0.12) {
            // a root at a small but genuine distance from the real axis (1e-9..1e-5, i.e. of the order of
            // the tolerances in use): it is not a real root
            let k = rng.below(deg);
            roots[k] = C::new(roots[k].re, rng.sign() * rng.log10(-9.0, -5.0));
            if (0..deg).all(|j| j == k || (roots[j] - roots[k]).norm() >= MIN_SEP) {
                rep.count("random/complex_cases_with_a_root_just_off_the_real_axis", 1);
            } else {
                roots = gen_roots(&mut rng, deg, real);
            }
        }
        let lead = gen_lead(&mut rng, real);
        let asc = expand(&roots, lead);
        // real polynomials also go through the complex type now and then
        let real_type = real && !rng.chance(0.15);
        let asc: Vec<C> = if real { asc.iter().map(|z| C::new(z.re, 0.0)).collect() } else { asc };
        let u = gen_u(&mut rng);
        run_poly(rep, PolyCase { flavour: "dense", real_type, exact_sparse: false, asc, built_from: roots, tol: 0.0, pin: None }, u);
    }));
    st.push(Stage::new("sparse", tier.pick(24_000, 240_000), move |i, rep| {
        let mut rng = Rng::for_case(seed, "c14-sparse", i);
        let real_type = rng.bool();
        let u = gen_u(&mut rng);
        if i % 3 == 2 {
            match sparse_composite(&mut rng, real_type) {
                Some(pc) => run_poly(rep, pc, u),
                None => rep.count("sparse_composite_generation_gave_up", 1),
            }
            return;
        }
        let exact = i % 3 == 0;
        let n = 1 + (i / 3 % 10) as usize;
        let rho = rng.r(min_radius(n), DISC);
        let c = if real_type { C::new(rho.powi(n as i32) * rng.sign(), 0.0) } else { C::from_polar(rho.powi(n as i32), rng.r(0.0, 2.0 * std::f64::consts::PI)) };
        let lead = gen_lead(&mut rng, real_type);
        run_poly(rep, sparse_xn_c(n, c, lead, real_type, exact), u);
    }));
    st
}

pub fn thresholds(ctx: &Ctx, rep: &Report) -> Vec<Threshold> {
    let mut t = vec![];
    let q = |a: f64, b: f64| ctx.tier.pick(a, b);
    t.push(Threshold { what: "dense polynomials of degree >= 3 judged".into(), required: q(8_000.0, 400_000.0), observed: rep.counter("dense/cases_degree_ge3") as f64 });
    t.push(Threshold { what: "exactly sparse x^n - c of degree >= 3 judged".into(), required: q(1_000.0, 50_000.0), observed: rep.counter("sparse-exact/cases_degree_ge3") as f64 });
    t.push(Threshold { what: "sparse x^n - c expanded from roots, degree >= 3, judged".into(), required: q(1_000.0, 50_000.0), observed: rep.counter("sparse-expanded/cases_degree_ge3") as f64 });
    t.push(Threshold { what: "sparse products prod(x^m - c_i) judged".into(), required: q(1_000.0, 50_000.0), observed: rep.counter("sparse-composite-exact/cases_degree_ge3") as f64 });
    t.push(Threshold { what: "cases with the tolerance within 4x of the noise floor".into(), required: q(3_000.0, 150_000.0), observed: rep.counter("cases_tol_within_4x_of_noise_floor") as f64 });
    t.push(Threshold { what: "real-coefficient results checked for conjugate closure".into(), required: q(5_000.0, 250_000.0), observed: rep.counter("conjugate_closure_checked") as f64 });
    t.push(Threshold { what: "fraction of polynomial cases with an Ok result".into(), required: 0.9, observed: rep.counter("ok_results") as f64 / ((rep.counter("type_f64/cases") + rep.counter("type_complex/cases")).max(1) as f64) });
    for (f, need) in [("legendre_zeros", 40.0), ("hermite_zeros", 40.0), ("laguerre_zeros", 20.0)] {
        t.push(Threshold { what: format!("{} (n, tol) cases with n >= 3 judged", f), required: need, observed: rep.counter(&format!("{}/cases_n_ge3", f)) as f64 });
    }
    t
}
