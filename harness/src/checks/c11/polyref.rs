//! Shared reference arithmetic for C11-C13 (included with `#[path]` by c11.rs, c12.rs, c13.rs):
//! scalar abstraction over f64 / Complex<f64>, error-free transformations (TwoSum, Dekker
//! TwoProd), compensated (twice-working-precision) convolution, double-double Horner, the
//! G-poly coefficient generator and JSON helpers. Nothing here calls or transcribes the code
//! under test; every reference value is exact coefficient algebra evaluated in (at least)
//! twice the working precision.
#![allow(dead_code)]

use crate::json::J;
use crate::rng::{CaseHash, Rng};
use bacon_sci::polynomial::Polynomial;
use nalgebra::ComplexField;
use num_complex::Complex;
use num_traits::FromPrimitive;

pub type C64 = Complex<f64>;
pub const EPS: f64 = f64::EPSILON;
pub const DEFAULT_TOL: f64 = 1e-10;

pub trait Sc: ComplexField<RealField = f64> + FromPrimitive + Copy + Send + Sync + 'static {
    const COMPLEX: bool;
    const NAME: &'static str;
    fn to_c(self) -> C64;
    fn from_c(c: C64) -> Self;
}
impl Sc for f64 {
    const COMPLEX: bool = false;
    const NAME: &'static str = "f64";
    fn to_c(self) -> C64 {
        C64::new(self, 0.0)
    }
    fn from_c(c: C64) -> f64 {
        c.re
    }
}
impl Sc for C64 {
    const COMPLEX: bool = true;
    const NAME: &'static str = "c64";
    fn to_c(self) -> C64 {
        self
    }
    fn from_c(c: C64) -> C64 {
        c
    }
}

pub fn field_name(complex: bool) -> &'static str {
    if complex {
        "c64"
    } else {
        "f64"
    }
}

/// Largest modulus a coefficient may have and still be dropped by a componentwise `<= tol` purge.
pub fn tol_allow(complex: bool, tol: f64) -> f64 {
    if complex {
        tol * std::f64::consts::SQRT_2
    } else {
        tol
    }
}

pub fn cinf(c: C64) -> f64 {
    c.re.abs().max(c.im.abs())
}

/// Build a polynomial from ascending coefficients, through `collect()` or `from_slice`.
pub fn build<N: Sc>(asc: &[C64], tol: Option<f64>, from_slice: bool) -> Polynomial<N> {
    let mut p: Polynomial<N> = if from_slice {
        let desc: Vec<N> = asc.iter().rev().map(|c| N::from_c(*c)).collect();
        Polynomial::from_slice(&desc)
    } else {
        asc.iter().map(|c| N::from_c(*c)).collect()
    };
    if let Some(t) = tol {
        let _ = p.set_tolerance(t);
    }
    p
}

pub fn nextpow2(n: usize) -> usize {
    let mut p = 1;
    while p < n {
        p <<= 1;
    }
    p
}
pub fn norm1(v: &[C64]) -> f64 {
    v.iter().map(|c| c.norm()).sum()
}
pub fn norm2(v: &[C64]) -> f64 {
    v.iter().map(|c| c.norm_sqr()).sum::<f64>().sqrt()
}
pub fn norminf(v: &[C64]) -> f64 {
    v.iter().fold(0.0, |m, c| m.max(c.norm()))
}

// ------------------------------------------------------------------ error-free transformations

#[inline]
pub fn two_sum(a: f64, b: f64) -> (f64, f64) {
    let s = a + b;
    let bb = s - a;
    let e = (a - (s - bb)) + (b - bb);
    (s, e)
}
#[inline]
fn split(a: f64) -> (f64, f64) {
    let c = 134217729.0 * a;
    let hi = c - (c - a);
    (hi, a - hi)
}
#[inline]
pub fn two_prod(a: f64, b: f64) -> (f64, f64) {
    let p = a * b;
    let (ah, al) = split(a);
    let (bh, bl) = split(b);
    let e = ((ah * bh - p) + ah * bl + al * bh) + al * bl;
    (p, e)
}

/// Compensated accumulator (Ogita-Rump-Oishi Sum2/Dot2): result as if computed in twice the
/// working precision and rounded once.
#[derive(Clone, Copy, Default)]
pub struct Acc {
    s: f64,
    c: f64,
}
impl Acc {
    #[inline]
    pub fn add(&mut self, x: f64) {
        let (s, e) = two_sum(self.s, x);
        self.s = s;
        self.c += e;
    }
    #[inline]
    pub fn add_prod(&mut self, a: f64, b: f64) {
        if a == 0.0 || b == 0.0 {
            return;
        }
        let (p, e) = two_prod(a, b);
        self.add(p);
        self.c += e;
    }
    pub fn val(&self) -> f64 {
        self.s + self.c
    }
}
#[derive(Clone, Copy, Default)]
pub struct CAcc {
    pub re: Acc,
    pub im: Acc,
}
impl CAcc {
    #[inline]
    pub fn add(&mut self, c: C64) {
        self.re.add(c.re);
        self.im.add(c.im);
    }
    #[inline]
    pub fn add_prod(&mut self, a: C64, b: C64) {
        self.re.add_prod(a.re, b.re);
        self.re.add_prod(-a.im, b.im);
        self.im.add_prod(a.re, b.im);
        self.im.add_prod(a.im, b.re);
    }
    pub fn val(&self) -> C64 {
        C64::new(self.re.val(), self.im.val())
    }
}

/// Exact (twice working precision) product of two coefficient vectors.
pub fn conv_exact(a: &[C64], b: &[C64]) -> Vec<C64> {
    if a.is_empty() || b.is_empty() {
        return vec![];
    }
    let n = a.len() + b.len() - 1;
    let mut out = Vec::with_capacity(n);
    for k in 0..n {
        let lo = if k + 1 > b.len() { k + 1 - b.len() } else { 0 };
        let hi = k.min(a.len() - 1);
        let mut acc = CAcc::default();
        for i in lo..=hi {
            acc.add_prod(a[i], b[k - i]);
        }
        out.push(acc.val());
    }
    out
}

/// Exact complex product / quotient of two scalars (rounded once or twice).
pub fn cmul_exact(a: C64, b: C64) -> C64 {
    let mut acc = CAcc::default();
    acc.add_prod(a, b);
    acc.val()
}
pub fn cdiv_ref(a: C64, b: C64) -> C64 {
    if b.im == 0.0 {
        return C64::new(a.re / b.re, a.im / b.re);
    }
    let mut num = CAcc::default();
    num.add_prod(a, b.conj());
    let mut den = Acc::default();
    den.add_prod(b.re, b.re);
    den.add_prod(b.im, b.im);
    let d = den.val();
    let n = num.val();
    C64::new(n.re / d, n.im / d)
}

// ------------------------------------------------------------------ double-double

#[derive(Clone, Copy, Debug)]
pub struct Dd {
    pub hi: f64,
    pub lo: f64,
}
impl Dd {
    pub fn from(x: f64) -> Dd {
        Dd { hi: x, lo: 0.0 }
    }
    pub fn zero() -> Dd {
        Dd { hi: 0.0, lo: 0.0 }
    }
    pub fn add(self, o: Dd) -> Dd {
        let (s, e) = two_sum(self.hi, o.hi);
        let e = e + (self.lo + o.lo);
        let (hi, lo) = two_sum(s, e);
        Dd { hi, lo }
    }
    pub fn neg(self) -> Dd {
        Dd { hi: -self.hi, lo: -self.lo }
    }
    pub fn sub(self, o: Dd) -> Dd {
        self.add(o.neg())
    }
    pub fn mul_f(self, b: f64) -> Dd {
        let (p, e) = two_prod(self.hi, b);
        let e = e + self.lo * b;
        let (hi, lo) = two_sum(p, e);
        Dd { hi, lo }
    }
    pub fn div_f(self, b: f64) -> Dd {
        let q1 = self.hi / b;
        let (p, e) = two_prod(q1, b);
        let r = ((self.hi - p) - e) + self.lo;
        let q2 = r / b;
        let (hi, lo) = two_sum(q1, q2);
        Dd { hi, lo }
    }
    pub fn val(self) -> f64 {
        self.hi + self.lo
    }
}
#[derive(Clone, Copy, Debug)]
pub struct CDd {
    pub re: Dd,
    pub im: Dd,
}
impl CDd {
    pub fn from(c: C64) -> CDd {
        CDd { re: Dd::from(c.re), im: Dd::from(c.im) }
    }
    pub fn zero() -> CDd {
        CDd { re: Dd::zero(), im: Dd::zero() }
    }
    pub fn add(self, o: CDd) -> CDd {
        CDd { re: self.re.add(o.re), im: self.im.add(o.im) }
    }
    pub fn sub(self, o: CDd) -> CDd {
        CDd { re: self.re.sub(o.re), im: self.im.sub(o.im) }
    }
    pub fn mul_c(self, x: C64) -> CDd {
        CDd { re: self.re.mul_f(x.re).sub(self.im.mul_f(x.im)), im: self.re.mul_f(x.im).add(self.im.mul_f(x.re)) }
    }
    pub fn mul_f(self, x: f64) -> CDd {
        CDd { re: self.re.mul_f(x), im: self.im.mul_f(x) }
    }
    pub fn div_f(self, x: f64) -> CDd {
        CDd { re: self.re.div_f(x), im: self.im.div_f(x) }
    }
    pub fn val(self) -> C64 {
        C64::new(self.re.val(), self.im.val())
    }
}

/// Horner in double-double: value of sum c_k x^k for ascending double-double coefficients.
pub fn horner_dd(c: &[CDd], x: C64) -> CDd {
    let mut acc = CDd::zero();
    for ck in c.iter().rev() {
        acc = acc.mul_c(x).add(*ck);
    }
    acc
}
pub fn eval_ref(c: &[C64], x: C64) -> C64 {
    let d: Vec<CDd> = c.iter().map(|v| CDd::from(*v)).collect();
    horner_dd(&d, x).val()
}
/// sum |c_k| |x|^k
pub fn abs_eval(c: &[C64], x: C64) -> f64 {
    let ax = x.norm();
    let mut acc = 0.0;
    for ck in c.iter().rev() {
        acc = acc * ax + ck.norm();
    }
    acc
}

// ------------------------------------------------------------------ JSON

pub fn cj(c: C64) -> J {
    J::obj().set("re", c.re).set("im", c.im)
}
pub fn pj(complex: bool, asc: &[C64]) -> J {
    let re: Vec<f64> = asc.iter().map(|c| c.re).collect();
    let mut j = J::obj().set("field", field_name(complex)).set("order", "ascending (index = power)").set("re", J::fs(&re));
    if complex {
        let im: Vec<f64> = asc.iter().map(|c| c.im).collect();
        j.put("im", J::fs(&im));
    }
    j
}
pub fn tolj(t: Option<f64>) -> J {
    match t {
        Some(t) => J::from(t),
        None => J::from("default (1e-10)"),
    }
}
pub fn hash_poly(h: CaseHash, asc: &[C64]) -> CaseHash {
    let mut h = h.u(asc.len() as u64);
    for c in asc {
        h = h.f(c.re).f(c.im);
    }
    h
}

// ------------------------------------------------------------------ G-poly

pub fn rand_unit(rng: &mut Rng, complex: bool) -> C64 {
    if complex {
        let th = rng.r(0.0, 2.0 * std::f64::consts::PI);
        C64::new(th.cos(), th.sin())
    } else {
        C64::new(rng.sign(), 0.0)
    }
}
/// random scalar of modulus 10^[lo,hi]
pub fn rand_scalar(rng: &mut Rng, complex: bool, lo: f64, hi: f64) -> C64 {
    let m = rng.log10(lo, hi);
    rand_unit(rng, complex) * m
}
/// random point in the disc |x| <= radius (real axis segment for the real field)
pub fn rand_point(rng: &mut Rng, complex: bool, radius: f64) -> C64 {
    match rng.below(8) {
        0 => C64::new(0.0, 0.0),
        1 => rand_unit(rng, complex) * radius,
        2 => rand_unit(rng, complex),
        _ => {
            if complex {
                rand_unit(rng, true) * (radius * rng.f().sqrt())
            } else {
                C64::new(rng.r(-radius, radius), 0.0)
            }
        }
    }
}

pub const SHAPES: [&str; 7] = ["dense-log", "dense-scale", "sparse", "palindromic", "xn-c", "from-roots", "integer"];

/// G-poly: coefficient vector (ascending) of exactly `deg + 1` stored coefficients, magnitudes
/// in 1e-3..1e3 (apart from deliberate zeros). Returns the shape name.
pub fn gen_poly(rng: &mut Rng, complex: bool, deg: usize) -> (Vec<C64>, &'static str) {
    let n = deg + 1;
    let pick = rng.below(100);
    let mut shape = if pick < 25 {
        0
    } else if pick < 50 {
        1
    } else if pick < 65 {
        2
    } else if pick < 75 {
        3
    } else if pick < 80 {
        4
    } else if pick < 90 {
        5
    } else {
        6
    };
    if shape == 4 && deg == 0 {
        shape = 0;
    }
    if shape == 5 && (deg == 0 || deg > 12) {
        shape = 1;
    }
    // complex polynomials whose coefficients are all real / all imaginary now and then
    let axis = if complex { rng.below(12) } else { 99 };
    let unit = |rng: &mut Rng| -> C64 {
        match axis {
            0 => C64::new(rng.sign(), 0.0),
            1 => C64::new(0.0, rng.sign()),
            _ => rand_unit(rng, complex),
        }
    };
    let mut c = vec![C64::new(0.0, 0.0); n];
    match shape {
        0 => {
            for v in c.iter_mut() {
                *v = unit(rng) * rng.log10(-3.0, 3.0);
            }
        }
        1 => {
            let m = rng.log10(-2.0, 3.0);
            for v in c.iter_mut() {
                *v = unit(rng) * (m * rng.r(0.1, 1.0));
            }
        }
        2 => {
            let p = rng.r(0.05, 0.3);
            for (k, v) in c.iter_mut().enumerate() {
                if k == 0 || k == n - 1 || rng.chance(p) {
                    *v = unit(rng) * rng.log10(-3.0, 3.0);
                }
            }
        }
        3 => {
            let m = rng.log10(-2.0, 3.0);
            for k in 0..(n + 1) / 2 {
                let v = unit(rng) * (m * rng.r(0.1, 1.0));
                c[k] = v;
                c[n - 1 - k] = v;
            }
        }
        4 => {
            c[n - 1] = unit(rng) * rng.log10(-1.0, 1.0);
            c[0] = unit(rng) * rng.log10(-3.0, 3.0);
        }
        5 => {
            // expanded from roots in the disc of radius 1.5, conjugate-closed for the real field
            let mut roots: Vec<C64> = vec![];
            while roots.len() < deg {
                if complex {
                    roots.push(rand_unit(rng, true) * (1.5 * rng.f().sqrt()));
                } else if deg - roots.len() >= 2 && rng.bool() {
                    let z = rand_unit(rng, true) * (1.5 * rng.f().sqrt());
                    roots.push(z);
                    roots.push(z.conj());
                } else {
                    roots.push(C64::new(rng.r(-1.5, 1.5), 0.0));
                }
            }
            let mut p = vec![C64::new(1.0, 0.0)];
            for r in &roots {
                p = conv_exact(&p, &[-*r, C64::new(1.0, 0.0)]);
            }
            let lead = unit(rng) * rng.log10(-1.0, 1.0);
            for (k, v) in c.iter_mut().enumerate() {
                *v = p[k] * lead;
                if !complex {
                    v.im = 0.0;
                }
            }
        }
        _ => {
            for v in c.iter_mut() {
                let re = rng.int(-9, 9) as f64;
                let im = if complex && axis > 1 { rng.int(-9, 9) as f64 } else { 0.0 };
                *v = C64::new(re, im);
            }
            if c[n - 1] == C64::new(0.0, 0.0) {
                c[n - 1] = C64::new(1.0, 0.0);
            }
        }
    }
    (c, SHAPES[shape])
}

/// Leading / trailing zeros and coefficients straddling the zero tolerance `tol`.
pub fn decorate(rng: &mut Rng, complex: bool, c: &mut Vec<C64>, tol: f64) -> &'static str {
    let n = c.len();
    if n < 2 {
        return "";
    }
    match rng.below(20) {
        0 => {
            let z = 1 + rng.below(3.min(n - 1));
            for k in 0..z {
                c[n - 1 - k] = C64::new(0.0, 0.0);
            }
            "+leading-zeros"
        }
        1 => {
            let z = 1 + rng.below(3.min(n - 1));
            for k in 0..z {
                let f = *rng.pick(&[0.3, 0.999, 1.0, 1.001, 1.5, 3.0]);
                c[n - 1 - k] = rand_unit(rng, complex) * (tol * f);
            }
            "+leading-near-tolerance"
        }
        2 => {
            let z = 1 + rng.below(3.min(n - 1));
            for k in 0..z {
                c[k] = C64::new(0.0, 0.0);
            }
            "+trailing-zeros"
        }
        _ => "",
    }
}
