//! C11 — polynomial arithmetic, including FFT products, matches coefficient algebra.
//!
//! Reference model: exact coefficient algebra in the harness (compensated convolution: every
//! reference coefficient is correct to one rounding). Monitors: every owned / borrowed /
//! assigning operator form of `+ - * /` and `neg`, the scalar / linear / FFT multiplication
//! paths, degree of the product, commutativity, pointwise agreement, `dft` against direct
//! evaluation at the roots of unity and `idft(dft(p)) = p`; all for f64 and Complex<f64>.

#[path = "c11/polyref.rs"]
mod polyref;

use crate::json::J;
use crate::probe::{guard, Guarded};
use crate::report::*;
use crate::rng::{CaseHash, Rng};
use bacon_sci::polynomial::Polynomial;
use polyref::*;

// ---- frozen constants (observed maxima are recorded in the evidence under the same names) ----
/// `+`, `-`: |c_k - (a_k ± b_k)| <= K·eps·(|a_k|+|b_k|)                      (observed 0: one IEEE operation)
const K_ADDSUB: f64 = 4.0;
/// scalar `*`: |c_k - a_k s| <= K·eps·|a_k||s|                                (observed 1.13 complex, 0 real)
const K_SCALAR_MUL: f64 = 8.0;
/// scalar `/`: |c_k - a_k/s| <= K·eps·|a_k|/|s|                               (observed 2.92 complex, 0 real)
const K_SCALAR_DIV: f64 = 16.0;
/// products: |c_k - exact_k| <= K·eps·log2(N)·||a||_2·||b||_2 (+ tolerance for purged leading terms);
/// N = transform length for the FFT path (2 otherwise). Observed 6.70 (FFT, sparse operands: the
/// library builds its twiddle factors by repeated multiplication, so their error grows like
/// N·eps/4 and does not average out when single coefficients carry the norm; the analytic worst
/// case for N = 512 is about 40 units), 1.20 linear and 1.02 scalar path. DESIGN.md proposed 16 from
/// dense operands only (1.12 there).
const K_PRODUCT: f64 = 64.0;
/// (a*b)(x) vs a(x)b(x), |x| <= 1: <= K·(n+1)·eps·(log2(N)||a||_2||b||_2 + ||a||_1||b||_1) + (n+1)·tolerance (observed 0.36)
const K_POINTWISE: f64 = 16.0;
/// dft(size)[k] vs direct evaluation at exp(2 pi i k/N): <= K·eps·log2(N)·||c||_1     (observed 13.7)
const K_DFT: f64 = 128.0;
/// idft(dft(p)) vs p: <= K·eps·log2(N)·||c||_1 (+ tolerance for purged leading terms)  (observed 7.9)
const K_IDFT: f64 = 64.0;

pub fn meta() -> CheckMeta {
    CheckMeta {
        id: "C11",
        level: "exploration",
        rule: "cases: operand pairs from G-poly (degree 0..128, |c| in 1e-3..1e3, dense / sparse / palindromic / x^n-c / from roots / integer, leading and trailing zeros, leading terms straddling the zero tolerance), real and complex, every case run through all 6 forms of + - * (a?b, &a?b, a?&b, &a?&b, a?=b, a?=&b), both neg forms, all 3 forms of scalar + - * /, b*a and pointwise evaluation; dft cases: size from the coefficient count up to 1024. A pair case counts as non-trivial once when its product went through the FFT path (both operands have >= 3 stored coefficients); a pair on the scalar/linear path counts once per operator form executed on it; every dft case is non-trivial (hash of operands / polynomial+size). Stage assign-chains: an accumulator (mostly constant or linear at the start, fine tolerance) updated in place by 2-4 assigning operations whose right operands carry their own tolerances up to 100; the exact running result is required after every step".into(),
        assumptions: vec![
            "reference coefficients come from compensated (twice working precision) convolution in the harness; dft reference values from compensated direct summation with exactly reduced twiddle factors".into(),
            "the zero tolerance is allowed only on coefficients the result has dropped (index above order() of the result): kept coefficients must meet the pure rounding bound".into(),
            "degree statement: order(a*b) <= order(a)+order(b) is required for every tolerance (exact algebra has no coefficient above the sum of the stored orders, so anything there is FFT noise that became a leading term - defect D28 of DESIGN.md); equality is required only when the larger component of the exact leading coefficient exceeds tolerance + rounding bound, i.e. when it cannot legitimately have been purged".into(),
            "dft convention: entry k is the value at exp(+2 pi i k/N), N = smallest power of two >= size; only sizes >= coefficient count are used".into(),
        ],
        exhaustive: false,
        stuck_is_violation: true,
    }
}

// ------------------------------------------------------------------ pair cases

#[derive(Clone)]
struct Pair {
    complex: bool,
    a: Vec<C64>,
    b: Vec<C64>,
    tol_a: Option<f64>,
    tol_b: Option<f64>,
    from_slice: bool,
    s: C64,
    xs: Vec<C64>,
    shape_a: String,
    shape_b: String,
}

impl Pair {
    fn to_json(&self) -> J {
        J::obj()
            .set("field", field_name(self.complex))
            .set("a", pj(self.complex, &self.a))
            .set("b", pj(self.complex, &self.b))
            .set("tolerance_a", tolj(self.tol_a))
            .set("tolerance_b", tolj(self.tol_b))
            .set("built_with", if self.from_slice { "from_slice (coefficients reversed)" } else { "collect() (ascending)" })
            .set("scalar", cj(self.s))
            .set("points", J::Arr(self.xs.iter().map(|x| cj(*x)).collect()))
            .set("shape_a", self.shape_a.as_str())
            .set("shape_b", self.shape_b.as_str())
    }
    fn hash(&self) -> CaseHash {
        let h = CaseHash::new("c11-pair").u(self.complex as u64);
        let h = hash_poly(hash_poly(h, &self.a), &self.b);
        h.f(self.tol_a.unwrap_or(-1.0)).f(self.tol_b.unwrap_or(-1.0)).f(self.s.re).f(self.s.im)
    }
}

struct Cmp {
    worst: f64,
    bad: Option<String>,
}

/// Compare every readable coefficient of `p` with `exp`: kept coefficients (index <= order) to
/// `k·unit(i)`, dropped ones (index > order) additionally get the zero-tolerance allowance.
fn cmp_coeffs<N: Sc>(p: &Polynomial<N>, exp: &[C64], unit: &dyn Fn(usize) -> f64, k: f64, allow: f64) -> Cmp {
    let mut out = Cmp { worst: 0.0, bad: None };
    // reading the result back is a library call too
    let read = guard(|| {
        let order = p.order();
        let top = exp.len().max(order + 1) + 2;
        (order, (0..top).map(|i| p.get_coefficient(i).to_c()).collect::<Vec<C64>>())
    });
    let (order, gots) = match read {
        Guarded::Ok(v) => v,
        Guarded::Panic(m, l) => {
            out.worst = f64::INFINITY;
            out.bad = Some(format!("reading order()/get_coefficient(i) of the result panicked: '{}' at {}", m, l));
            return out;
        }
        Guarded::Budget => return out,
    };
    for (i, got) in gots.iter().enumerate() {
        let got = *got;
        let e = exp.get(i).copied().unwrap_or(C64::new(0.0, 0.0));
        let err = (got - e).norm();
        let al = if i > order { allow } else { 0.0 };
        let u = unit(i);
        let excess = err - al;
        let ratio = if excess <= 0.0 {
            0.0
        } else if u > 0.0 {
            excess / u
        } else {
            f64::INFINITY
        };
        if ratio > out.worst || ratio.is_nan() {
            out.worst = if ratio.is_nan() { f64::INFINITY } else { ratio };
        }
        if !(err <= k * u + al) && out.bad.is_none() {
            out.bad = Some(format!(
                "coefficient of x^{}: got {:e}{:+e}i, exact {:e}{:+e}i, |difference| {:e} > bound {:e} (= {}·unit {:e} + dropped-term allowance {:e}); order of result {}",
                i, got.re, got.im, e.re, e.im, err, k * u + al, k, u, al, order
            ));
        }
    }
    out
}

type Forms<N> = Vec<(&'static str, Guarded<Polynomial<N>>)>;

macro_rules! bin_forms {
    ($name:ident, $op:tt, $opa:tt, $sym:expr) => {
        fn $name<N: Sc>(a: &Polynomial<N>, b: &Polynomial<N>) -> Forms<N> {
            vec![
                (concat!("a", $sym, "b"), guard(|| a.clone() $op b.clone())),
                (concat!("&a", $sym, "b"), guard(|| a $op b.clone())),
                (concat!("a", $sym, "&b"), guard(|| a.clone() $op b)),
                (concat!("&a", $sym, "&b"), guard(|| a $op b)),
                (concat!("a", $sym, "=b"), guard(|| {
                    let mut x = a.clone();
                    x $opa b.clone();
                    x
                })),
                (concat!("a", $sym, "=&b"), guard(|| {
                    let mut x = a.clone();
                    x $opa b;
                    x
                })),
            ]
        }
    };
}
bin_forms!(add_forms, +, +=, "+");
bin_forms!(sub_forms, -, -=, "-");
bin_forms!(mul_forms, *, *=, "*");

macro_rules! scalar_forms {
    ($name:ident, $op:tt, $opa:tt, $sym:expr) => {
        fn $name<N: Sc>(a: &Polynomial<N>, s: N) -> Forms<N> {
            vec![
                (concat!("a", $sym, "s"), guard(|| a.clone() $op s)),
                (concat!("&a", $sym, "s"), guard(|| a $op s)),
                (concat!("a", $sym, "=s"), guard(|| {
                    let mut x = a.clone();
                    x $opa s;
                    x
                })),
            ]
        }
    };
}
scalar_forms!(sadd_forms, +, +=, "+");
scalar_forms!(ssub_forms, -, -=, "-");
scalar_forms!(smul_forms, *, *=, "*");
scalar_forms!(sdiv_forms, /, /=, "/");

fn neg_forms<N: Sc>(a: &Polynomial<N>) -> Forms<N> {
    vec![("-a", guard(|| -a.clone())), ("-&a", guard(|| -a))]
}

/// Run one group of operator forms against the exact coefficients.
#[allow(clippy::too_many_arguments)]
fn judge_forms<N: Sc>(rep: &mut Report, c: &Pair, op: &str, forms: Forms<N>, exp: &[C64], unit: &dyn Fn(usize) -> f64, k: f64, allow: f64, maxname: &str, ntriv: bool) -> Vec<Option<Polynomial<N>>> {
    let mut out = vec![];
    for (form, g) in forms {
        rep.eval();
        rep.count(&format!("form/{}", form), 1);
        match g {
            Guarded::Ok(p) => {
                let cmp = cmp_coeffs(&p, exp, unit, k, allow);
                rep.max(maxname, cmp.worst);
                if let Some(d) = cmp.bad {
                    rep.violation(&format!("{}/coefficients", op), c.to_json().set("form", form), format!("{} ({}): {}", form, N::NAME, d));
                } else if ntriv {
                    rep.nontrivial(c.hash().s(form).0);
                }
                out.push(Some(p));
            }
            Guarded::Panic(m, l) => {
                rep.violation(&format!("{}/panic", op), c.to_json().set("form", form), format!("{} ({}) panicked: '{}' at {}", form, N::NAME, m, l));
                out.push(None);
            }
            Guarded::Budget => out.push(None),
        }
    }
    out
}

fn run_pair<N: Sc>(rep: &mut Report, c: &Pair) {
    let zero = C64::new(0.0, 0.0);
    let (la, lb) = (c.a.len(), c.b.len());
    let pa: Polynomial<N> = build(&c.a, c.tol_a, c.from_slice);
    let pb: Polynomial<N> = build(&c.b, c.tol_b, c.from_slice);
    let ta = c.tol_a.unwrap_or(DEFAULT_TOL);
    let tb = c.tol_b.unwrap_or(DEFAULT_TOL);
    let allow_a = tol_allow(c.complex, ta);
    let allow_b = tol_allow(c.complex, tb);
    let fld = N::NAME;
    let path = if la == 1 || lb == 1 {
        "scalar"
    } else if la == 2 || lb == 2 {
        "linear"
    } else {
        "fft"
    };
    let small = path != "fft";
    let at = |v: &[C64], i: usize| v.get(i).copied().unwrap_or(zero);
    let lmax = la.max(lb);

    // ---- sums, differences, negation
    let add_exp: Vec<C64> = (0..lmax).map(|i| at(&c.a, i) + at(&c.b, i)).collect();
    let sub_exp: Vec<C64> = (0..lmax).map(|i| at(&c.a, i) - at(&c.b, i)).collect();
    let neg_exp: Vec<C64> = c.a.iter().map(|v| -*v).collect();
    let u_add = |i: usize| EPS * (at(&c.a, i).norm() + at(&c.b, i).norm());
    judge_forms(rep, c, "add", add_forms(&pa, &pb), &add_exp, &u_add, K_ADDSUB, allow_a, "addsub_err_over_eps(|a_k|+|b_k|)", small);
    judge_forms(rep, c, "sub", sub_forms(&pa, &pb), &sub_exp, &u_add, K_ADDSUB, allow_a, "addsub_err_over_eps(|a_k|+|b_k|)", small);
    let u_neg = |i: usize| EPS * at(&c.a, i).norm();
    judge_forms(rep, c, "neg", neg_forms(&pa), &neg_exp, &u_neg, K_ADDSUB, allow_a, "addsub_err_over_eps(|a_k|+|b_k|)", small);

    // ---- scalar forms
    let s = c.s;
    let sn = N::from_c(s);
    let sadd_exp: Vec<C64> = c.a.iter().enumerate().map(|(i, v)| if i == 0 { *v + s } else { *v }).collect();
    let ssub_exp: Vec<C64> = c.a.iter().enumerate().map(|(i, v)| if i == 0 { *v - s } else { *v }).collect();
    let u_sadd = |i: usize| if i == 0 { EPS * (c.a[0].norm() + s.norm()) } else { 0.0 };
    judge_forms(rep, c, "scalar-add", sadd_forms(&pa, sn), &sadd_exp, &u_sadd, K_ADDSUB, allow_a, "addsub_err_over_eps(|a_k|+|b_k|)", small);
    judge_forms(rep, c, "scalar-sub", ssub_forms(&pa, sn), &ssub_exp, &u_sadd, K_ADDSUB, allow_a, "addsub_err_over_eps(|a_k|+|b_k|)", small);
    let smul_exp: Vec<C64> = c.a.iter().map(|v| cmul_exact(*v, s)).collect();
    let u_smul = |i: usize| EPS * at(&c.a, i).norm() * s.norm();
    judge_forms(rep, c, "scalar-mul", smul_forms(&pa, sn), &smul_exp, &u_smul, K_SCALAR_MUL, allow_a, &format!("scalar_mul_err_over_eps|a_k||s|/{}", fld), small);
    if s.norm() > 0.0 {
        let sdiv_exp: Vec<C64> = c.a.iter().map(|v| cdiv_ref(*v, s)).collect();
        let u_sdiv = |i: usize| EPS * at(&c.a, i).norm() / s.norm();
        judge_forms(rep, c, "scalar-div", sdiv_forms(&pa, sn), &sdiv_exp, &u_sdiv, K_SCALAR_DIV, allow_a, &format!("scalar_div_err_over_eps|a_k|/|s|/{}", fld), small);
    }

    // ---- products
    let exact = conv_exact(&c.a, &c.b);
    let dsum = la + lb - 2;
    let log2n = if small { 1.0 } else { (nextpow2(2 * lmax) as f64).log2() };
    let (na2, nb2) = (norm2(&c.a), norm2(&c.b));
    let u = EPS * log2n * na2 * nb2;
    let u_mul = |_i: usize| u;
    let sig = |what: &str| format!("{}/{}", path, what);
    rep.count(&format!("mul/{}/{}", path, fld), 1);
    let maxname = format!("{}_product_err_over_eps.log2N.|a|2.|b|2/{}", path, fld);
    let forms = mul_forms(&pa, &pb);
    let mut prods: Vec<(&'static str, Option<Polynomial<N>>)> = vec![];
    let lead = exact[dsum];
    let lead_survives = cinf(lead) > ta + K_PRODUCT * u;
    for (form, g) in forms {
        rep.eval();
        rep.count(&format!("form/{}", form), 1);
        match g {
            Guarded::Ok(p) => {
                let cmp = cmp_coeffs(&p, &exact, &u_mul, K_PRODUCT, allow_a);
                rep.max(&maxname, cmp.worst);
                let mut ok = true;
                if let Some(d) = cmp.bad {
                    ok = false;
                    let unreadable = d.starts_with("reading order()");
                    rep.violation(&sig("product-coefficients"), c.to_json().set("form", form), format!("{} ({}, N-unit log2N={}): {}", form, fld, log2n, d));
                    if unreadable {
                        prods.push((form, None));
                        continue;
                    }
                }
                let o = p.order();
                if o > dsum {
                    ok = false;
                    let regime = if ta > K_PRODUCT * u { "tolerance above the rounding bound" } else { "tolerance below the rounding bound" };
                    rep.count(&format!("degree/exceeds-sum ({})", regime), 1);
                    rep.violation(
                        &sig("product-degree"),
                        c.to_json().set("form", form),
                        format!("{} ({}): order of the product is {} but order(a)+order(b) = {}: |coefficient of x^{}| = {:e} is not a term of the exact product (tolerance {:e}, {})", form, fld, o, dsum, o, p.get_coefficient(o).to_c().norm(), ta, regime),
                    );
                } else if lead_survives {
                    rep.count("degree/equality_asserted", 1);
                    if o != dsum {
                        ok = false;
                        rep.violation(
                            &sig("product-degree"),
                            c.to_json().set("form", form),
                            format!("{} ({}): order of the product is {} but order(a)+order(b) = {} and the exact leading coefficient {:e}{:+e}i exceeds tolerance {:e} + rounding bound {:e}", form, fld, o, dsum, lead.re, lead.im, ta, K_PRODUCT * u),
                        );
                    }
                } else {
                    rep.count("degree/equality_not_asserted(leading term within tolerance+rounding)", 1);
                    if o < dsum {
                        rep.count("degree/leading_term_purged_legitimately", 1);
                    }
                }
                if ok && small {
                    rep.nontrivial(c.hash().s(form).0);
                }
                prods.push((form, Some(p)));
            }
            Guarded::Panic(m, l) => {
                rep.violation(&sig("panic"), c.to_json().set("form", form), format!("{} ({}) panicked: '{}' at {}", form, fld, m, l));
                prods.push((form, None));
            }
            Guarded::Budget => prods.push((form, None)),
        }
    }
    if !small {
        rep.nontrivial(c.hash().0);
    }
    // all forms agree with each other
    if let Some((f0, Some(p0))) = prods.first().map(|(f, p)| (*f, p.as_ref())) {
        for (f, p) in prods.iter().skip(1) {
            if let Some(p) = p {
                let top = p.order().max(p0.order()) + 2;
                let lo = p.order().min(p0.order());
                for i in 0..top {
                    let d = (p.get_coefficient(i).to_c() - p0.get_coefficient(i).to_c()).norm();
                    let al = if i > lo { allow_a } else { 0.0 };
                    if u > 0.0 {
                        rep.max("mul_forms_disagreement_over_unit", (d - al).max(0.0) / u);
                    }
                    if !(d <= K_PRODUCT * u + al) {
                        rep.violation("mul/forms-disagree", c.to_json().set("form", *f).set("other_form", f0), format!("{} and {} ({}) differ in the coefficient of x^{} by {:e} > {:e}", f, f0, fld, i, d, K_PRODUCT * u + al));
                        break;
                    }
                }
            }
        }
    }
    // commutativity
    let ab = prods.iter().find(|(f, _)| *f == "&a*&b").and_then(|(_, p)| p.clone());
    rep.eval();
    match guard(|| &pb * &pa) {
        Guarded::Ok(ba) => {
            let cmp = cmp_coeffs(&ba, &exact, &u_mul, K_PRODUCT, allow_b);
            rep.max(&maxname, cmp.worst);
            if let Some(d) = cmp.bad {
                rep.violation(&sig("product-coefficients"), c.to_json().set("form", "&b*&a"), format!("&b*&a ({}): {}", fld, d));
            }
            if ba.order() > dsum {
                rep.violation(&sig("product-degree"), c.to_json().set("form", "&b*&a"), format!("&b*&a ({}): order {} exceeds order(a)+order(b) = {}", fld, ba.order(), dsum));
            }
            if let Some(ab) = &ab {
                let top = ab.order().max(ba.order()) + 2;
                let lo = ab.order().min(ba.order());
                for i in 0..top {
                    let d = (ab.get_coefficient(i).to_c() - ba.get_coefficient(i).to_c()).norm();
                    let al = if i > lo { allow_a.max(allow_b) } else { 0.0 };
                    if u > 0.0 {
                        rep.max("commutativity_defect_over_unit", (d - al).max(0.0) / u);
                    }
                    if !(d <= 2.0 * K_PRODUCT * u + al) {
                        rep.violation("mul/not-commutative", c.to_json(), format!("a*b and b*a ({}) differ in the coefficient of x^{} by {:e} > {:e}", fld, i, d, 2.0 * K_PRODUCT * u + al));
                        break;
                    }
                }
            }
        }
        Guarded::Panic(m, l) => rep.violation(&sig("panic"), c.to_json().set("form", "&b*&a"), format!("&b*&a ({}) panicked: '{}' at {}", fld, m, l)),
        Guarded::Budget => {}
    }
    // pointwise: (a*b)(x) = a(x) b(x) for |x| <= 1
    if let Some(ab) = &ab {
        let n1 = (dsum + 1) as f64;
        let unit_pt = n1 * (u + EPS * norm1(&c.a) * norm1(&c.b));
        for x in &c.xs {
            rep.eval();
            let xn = N::from_c(*x);
            match guard(|| ab.evaluate(xn)) {
                Guarded::Ok(v) => {
                    let r = eval_ref(&c.a, *x) * eval_ref(&c.b, *x);
                    let d = (v.to_c() - r).norm();
                    let floor = n1 * allow_a;
                    if unit_pt > 0.0 {
                        rep.max("pointwise_defect_over_unit", (d - floor).max(0.0) / unit_pt);
                    }
                    rep.count("pointwise_checks", 1);
                    if !(d <= K_POINTWISE * unit_pt + floor) {
                        rep.violation("mul/pointwise", c.to_json().set("x", cj(*x)), format!("(a*b)(x) = {:e}{:+e}i but a(x)b(x) = {:e}{:+e}i at x = {:e}{:+e}i ({}): difference {:e} > {:e}", v.to_c().re, v.to_c().im, r.re, r.im, x.re, x.im, fld, d, K_POINTWISE * unit_pt + floor));
                    }
                }
                Guarded::Panic(m, l) => rep.violation("mul/panic", c.to_json(), format!("evaluate of the product panicked: '{}' at {}", m, l)),
                Guarded::Budget => {}
            }
        }
    }
    if rep.wants_sample() && la <= 6 && lb <= 6 && !small {
        let got = ab.as_ref().map(|p| pj(c.complex, &p.get_coefficients().iter().rev().map(|v| v.to_c()).collect::<Vec<_>>())).unwrap_or(J::Null);
        rep.sample(c.to_json().set("path", path).set("exact_product", pj(c.complex, &exact)).set("library_product(&a*&b)", got).set("unit", u));
    }
}

fn run_pair_dyn(rep: &mut Report, c: &Pair) {
    if c.complex {
        run_pair::<C64>(rep, c)
    } else {
        run_pair::<f64>(rep, c)
    }
}

fn pick_tol(rng: &mut Rng) -> Option<f64> {
    match rng.below(20) {
        0 => Some(0.0),
        1 => Some(1e-14),
        2 => Some(1e-13),
        3 => Some(1e-12),
        4 => Some(1e-8),
        5 => Some(1e-6),
        6 => Some(1e-10),
        _ => None,
    }
}

fn pick_degree(rng: &mut Rng) -> usize {
    match rng.below(4) {
        0 => rng.below(4),
        1 => {
            let p = *rng.pick(&[2usize, 4, 8, 16, 32, 64, 128]);
            (p + rng.below(3)).saturating_sub(1).min(128)
        }
        _ => rng.below(129),
    }
}

fn gen_pair(rng: &mut Rng, complex: bool, da: usize, db: usize, plain: bool) -> Pair {
    let tol_a = if plain { None } else { pick_tol(rng) };
    let tol_b = if plain || rng.chance(0.7) { None } else { pick_tol(rng) };
    let (mut a, sa) = gen_poly(rng, complex, da);
    let (mut b, sb) = gen_poly(rng, complex, db);
    let mut shape_a = sa.to_string();
    let mut shape_b = sb.to_string();
    if !plain {
        shape_a.push_str(decorate(rng, complex, &mut a, tol_a.unwrap_or(DEFAULT_TOL)));
        shape_b.push_str(decorate(rng, complex, &mut b, tol_a.unwrap_or(DEFAULT_TOL)));
    }
    if !plain && a.len() >= 3 && a.len() <= 100 && rng.chance(0.05) {
        // related operands: the longer one continues the shorter one (its low-order coefficients are
        // bit-identical: partial sums of one series, p and p + x^k q) - or the two are identical
        let extra = rng.below(6);
        b = a.clone();
        for _ in 0..extra {
            b.push(rand_scalar(rng, complex, -1.0, 1.0) + C64::new(0.25, 0.0));
        }
        shape_b = format!("{}+continuation-of-a-by-{}-terms", shape_a, extra);
        if extra == 0 && (a[0].re.to_bits() >> 5) % 2 == 0 {
            // ... or equal in length and different by less than the zero tolerance in every coefficient (two
            // measurements of one polynomial): close is not equal, p * q is not p * p
            let t = tol_a.unwrap_or(DEFAULT_TOL);
            for (k, z) in b.iter_mut().enumerate() {
                *z += C64::new(t * (0.05 + 0.9 * ((k * 7 + 3) % 10) as f64 / 10.0) * if k % 2 == 0 { 1.0 } else { -1.0 }, 0.0);
            }
            shape_b = format!("{}+perturbed-below-the-tolerance", shape_a);
        }
        if rng.bool() {
            std::mem::swap(&mut a, &mut b);
            std::mem::swap(&mut shape_a, &mut shape_b);
        }
    }
    let s = match rng.below(10) {
        0 => C64::new(1.0, 0.0),
        1 => C64::new(-1.0, 0.0),
        2 => C64::new(0.0, 0.0),
        3 if complex => C64::new(0.0, 1.0),
        _ => rand_scalar(rng, complex, -3.0, 3.0),
    };
    let xs = (0..2).map(|_| rand_point(rng, complex, 1.0)).collect();
    Pair { complex, a, b, tol_a, tol_b, from_slice: rng.bool(), s, xs, shape_a, shape_b }
}

const SPARSE_POWERS: [usize; 12] = [2, 3, 5, 15, 31, 32, 63, 64, 96, 127, 128, 100];
const ANCHOR_LENS: [usize; 14] = [1, 2, 3, 4, 5, 8, 9, 16, 17, 33, 64, 65, 128, 129];

fn fixed_pairs() -> Vec<Pair> {
    let c = |re: f64, im: f64| C64::new(re, im);
    let mk = |complex: bool, a: Vec<C64>, b: Vec<C64>| Pair { complex, a, b, tol_a: None, tol_b: None, from_slice: false, s: c(2.5, if complex { -0.5 } else { 0.0 }), xs: vec![c(0.5, 0.0), c(-1.0, 0.0)], shape_a: "fixed".into(), shape_b: "fixed".into() };
    vec![
        // (x^2 - 1) x, the repository's own example
        mk(false, vec![c(-1.0, 0.0), c(0.0, 0.0), c(1.0, 0.0)], vec![c(0.0, 0.0), c(1.0, 0.0)]),
        // (x^2 - 1)(x^2 + 2x + 3) through the FFT
        mk(false, vec![c(-1.0, 0.0), c(0.0, 0.0), c(1.0, 0.0)], vec![c(3.0, 0.0), c(2.0, 0.0), c(1.0, 0.0)]),
        // complex quadratics with non-symmetric imaginary parts (conjugation shows)
        mk(true, vec![c(3.0, 0.0), c(0.0, 2.0), c(1.0, 1.0)], vec![c(0.0, 1.0), c(1.0, 0.0), c(2.0, -1.0)]),
        // purely imaginary times purely imaginary
        mk(true, vec![c(0.0, 1.0), c(0.0, 2.0), c(0.0, 3.0), c(0.0, 4.0)], vec![c(0.0, -1.0), c(0.0, 1.0), c(0.0, 5.0)]),
        // operands with stored leading zeros
        mk(false, vec![c(1.0, 0.0), c(2.0, 0.0), c(3.0, 0.0), c(0.0, 0.0), c(0.0, 0.0)], vec![c(1.0, 0.0), c(-1.0, 0.0), c(1.0, 0.0), c(0.0, 0.0)]),
        // x^7 - 2 times x^8 + 3 (sparse, crosses the 16 -> 32 padding)
        mk(false, { let mut v = vec![c(0.0, 0.0); 8]; v[0] = c(-2.0, 0.0); v[7] = c(1.0, 0.0); v }, { let mut v = vec![c(0.0, 0.0); 9]; v[0] = c(3.0, 0.0); v[8] = c(1.0, 0.0); v }),
        // large norms against the default tolerance (FFT noise above 1e-10)
        mk(false, (0..40).map(|k| c(900.0 - 7.0 * k as f64, 0.0)).collect(), (0..50).map(|k| c(-800.0 + 11.0 * k as f64, 0.0)).collect()),
        mk(true, (0..40).map(|k| c(900.0 - 7.0 * k as f64, 300.0 + k as f64)).collect(), (0..50).map(|k| c(-800.0 + 11.0 * k as f64, 5.0 * k as f64)).collect()),
    ]
}

// ------------------------------------------------------------------ dft cases

#[derive(Clone)]
struct DftCase {
    complex: bool,
    c: Vec<C64>,
    size: usize,
    tol: Option<f64>,
    idft_tol: f64,
    shape: String,
}
impl DftCase {
    fn to_json(&self) -> J {
        J::obj()
            .set("field", field_name(self.complex))
            .set("polynomial", pj(self.complex, &self.c))
            .set("tolerance", tolj(self.tol))
            .set("dft_size_argument", self.size)
            .set("idft_tolerance_argument", self.idft_tol)
            .set("shape", self.shape.as_str())
    }
    fn hash(&self) -> u64 {
        hash_poly(CaseHash::new("c11-dft").u(self.complex as u64), &self.c).u(self.size as u64).f(self.idft_tol).0
    }
}

/// exp(2 pi i m / n) for n a power of two, by exact quadrant reduction
fn twiddles(n: usize) -> Vec<C64> {
    let mut t = Vec::with_capacity(n);
    for m in 0..n {
        let v = if n < 4 {
            // n = 1: 1; n = 2: 1, -1
            if m == 0 {
                C64::new(1.0, 0.0)
            } else {
                C64::new(-1.0, 0.0)
            }
        } else {
            let q = m / (n / 4);
            let r = m % (n / 4);
            let ang = 2.0 * std::f64::consts::PI * (r as f64) / (n as f64);
            let (s, c) = if r == 0 { (0.0, 1.0) } else { ang.sin_cos() };
            match q {
                0 => C64::new(c, s),
                1 => C64::new(-s, c),
                2 => C64::new(-c, -s),
                _ => C64::new(s, -c),
            }
        };
        t.push(v);
    }
    t
}

fn run_dft<N: Sc>(rep: &mut Report, c: &DftCase, sample_rng: &mut Rng) {
    let p: Polynomial<N> = build(&c.c, c.tol, false);
    let l = c.c.len();
    let n = nextpow2(c.size);
    let fld = N::NAME;
    rep.eval();
    rep.count(&format!("dft/N={}", n), 1);
    rep.count(&format!("dft/cases/{}", fld), 1);
    if c.size != n {
        rep.count("dft/size_not_a_power_of_two", 1);
    }
    if n > nextpow2(l) {
        rep.count("dft/size_beyond_minimal_padding", 1);
    }
    let out = match guard(|| p.dft(c.size)) {
        Guarded::Ok(v) => v,
        Guarded::Panic(m, loc) => {
            rep.violation("dft/panic", c.to_json(), format!("dft({}) of a {}-coefficient {} polynomial panicked: '{}' at {}", c.size, l, fld, m, loc));
            return;
        }
        Guarded::Budget => return,
    };
    if out.len() != n {
        rep.violation("dft/length", c.to_json(), format!("dft({}) returned {} values, the smallest power of two >= size is {}", c.size, out.len(), n));
        return;
    }
    let log2n = (n as f64).log2().max(1.0);
    let n1 = norm1(&c.c);
    let unit = EPS * log2n * n1;
    let tw = twiddles(n);
    // which k to verify: all of them unless that costs more than ~16k complex products
    let ks: Vec<usize> = if n * l <= 16384 {
        (0..n).collect()
    } else {
        let mut v = vec![0, 1, 2, n / 4, n / 2 - 1, n / 2, n / 2 + 1, n - 2, n - 1];
        let extra = (16384 / l).max(24);
        for _ in 0..extra {
            v.push(sample_rng.below(n));
        }
        v.sort_unstable();
        v.dedup();
        v
    };
    let mut worst = 0.0f64;
    for &k in &ks {
        let mut acc = CAcc::default();
        for (j, cj_) in c.c.iter().enumerate() {
            acc.add_prod(*cj_, tw[(j * k) % n]);
        }
        let r = acc.val();
        let d = (out[k] - r).norm();
        if unit > 0.0 {
            worst = worst.max(d / unit);
        }
        if !(d <= K_DFT * unit) {
            let conj_r = {
                let mut acc = CAcc::default();
                for (j, cj_) in c.c.iter().enumerate() {
                    acc.add_prod(*cj_, tw[(j * (n - k)) % n]);
                }
                acc.val()
            };
            let hint = if (out[k] - conj_r).norm() <= K_DFT * unit { " (it equals the value at exp(-2 pi i k/N): opposite convention)" } else { "" };
            rep.violation("dft/values", c.to_json().set("k", k), format!("dft({})[{}] = {:e}{:+e}i but p(exp(2 pi i {}/{})) = {:e}{:+e}i ({}): difference {:e} > {:e}{}", c.size, k, out[k].re, out[k].im, k, n, r.re, r.im, fld, d, K_DFT * unit, hint));
            return;
        }
    }
    rep.count("dft/values_checked", ks.len() as i64);
    rep.max(&format!("dft_err_over_eps.log2N.|c|1/{}", fld), worst);
    // inverse transform recovers the polynomial
    rep.eval();
    let back = match guard(|| Polynomial::<N>::idft(&out, c.idft_tol)) {
        Guarded::Ok(p) => p,
        Guarded::Panic(m, loc) => {
            rep.violation("idft/panic", c.to_json(), format!("idft of the {} dft values panicked: '{}' at {}", n, m, loc));
            return;
        }
        Guarded::Budget => return,
    };
    let u_idft = |_i: usize| unit;
    let cmp = cmp_coeffs(&back, &c.c, &u_idft, K_IDFT, tol_allow(c.complex, c.idft_tol));
    rep.max(&format!("idft_roundtrip_err_over_eps.log2N.|c|1/{}", fld), cmp.worst);
    rep.count("idft/roundtrips", 1);
    if let Some(d) = cmp.bad {
        rep.violation("idft/roundtrip", c.to_json(), format!("idft(dft(p, {}), {:e}) does not recover p ({}): {}", c.size, c.idft_tol, fld, d));
        return;
    }
    rep.nontrivial(c.hash());
    if rep.wants_sample() && l <= 5 && n <= 8 {
        rep.sample(c.to_json().set("N", n).set("dft", J::Arr(out.iter().map(|v| cj(*v)).collect())).set("worst_err_over_unit", worst));
    }
}

fn run_dft_dyn(rep: &mut Report, c: &DftCase, rng: &mut Rng) {
    if c.complex {
        run_dft::<C64>(rep, c, rng)
    } else {
        run_dft::<f64>(rep, c, rng)
    }
}

fn dft_sizes(l: usize) -> Vec<usize> {
    let p = nextpow2(l);
    let mut v = vec![l, p, (p + 1).min(1024), (2 * p).min(1024), 1000, 1024];
    v.retain(|s| *s >= l);
    v.sort_unstable();
    v.dedup();
    v
}

const DFT_ANCHOR_LENS: [usize; 18] = [1, 2, 3, 4, 5, 7, 8, 9, 15, 16, 17, 31, 33, 63, 64, 65, 128, 129];

// ------------------------------------------------------------------ single precision
/// `Polynomial<f32>`: the arithmetic is generic over the coefficient field and `f32` is a real field
/// too. Sums and products (all three multiplication paths) against exact convolution of the
/// f32 inputs carried out in f64; rounding unit f32::EPSILON. (A type-keyed fast path that only
/// recognises f64 is invisible to the f64 / Complex<f64> stages.)
fn run_f32_pair(rep: &mut Report, rng: &mut Rng) {
    let ma = *rng.pick(&[1usize, 2, 3, 8, 40]);
    let la = 1 + rng.below(ma);
    let mb = *rng.pick(&[1usize, 2, 3, 8, 40]);
    let lb = 1 + rng.below(mb);
    let gen = |rng: &mut Rng, n: usize| -> Vec<f32> {
        let mut v: Vec<f32> = (0..n).map(|_| (rng.r(-1.0, 1.0) * rng.log10(-2.0, 2.0)) as f32).collect();
        if v[n - 1].abs() < 1e-3 {
            v[n - 1] = 0.5;
        }
        v
    };
    let a = gen(rng, la);
    let b = gen(rng, lb);
    let pa: Polynomial<f32> = a.iter().copied().collect();
    let pb: Polynomial<f32> = b.iter().copied().collect();
    rep.eval();
    rep.count("f32/pairs", 1);
    let case = || J::obj().set("field", "f32").set("a_ascending", J::Arr(a.iter().map(|v| J::from(*v as f64)).collect())).set("b_ascending", J::Arr(b.iter().map(|v| J::from(*v as f64)).collect()));
    let prod = match guard(|| &pa * &pb) {
        Guarded::Ok(p) => p,
        Guarded::Panic(m, l) => {
            rep.violation("f32/panic", case(), format!("&a * &b panicked for Polynomial<f32>: '{}' at {}", m, l));
            return;
        }
        Guarded::Budget => return,
    };
    let sum = match guard(|| &pa + &pb) {
        Guarded::Ok(p) => p,
        _ => {
            rep.violation("f32/panic", case(), "&a + &b panicked for Polynomial<f32>".into());
            return;
        }
    };
    let e32 = f32::EPSILON as f64;
    // exact product of the f32 inputs
    let mut exact = vec![0.0f64; la + lb - 1];
    for (i, x) in a.iter().enumerate() {
        for (j, y) in b.iter().enumerate() {
            exact[i + j] += *x as f64 * *y as f64;
        }
    }
    let na = a.iter().map(|v| (*v as f64).powi(2)).sum::<f64>().sqrt();
    let nb = b.iter().map(|v| (*v as f64).powi(2)).sum::<f64>().sqrt();
    let n_fft = (2 * la.max(lb)).next_power_of_two().max(2) as f64;
    let bound = K_PRODUCT * e32 * n_fft.log2().max(1.0) * na * nb + 1e-10;
    // degree: never above the sum of the degrees; equal to it when the exact leading coefficient
    // stands clear of the rounding noise (otherwise the computed one may legitimately be purged)
    let lead = exact[la + lb - 2].abs();
    if prod.order() > la + lb - 2 || (lead > 2.0 * bound && prod.order() != la + lb - 2) {
        rep.violation("f32/product-degree", case().set("order", prod.order()), format!("Polynomial<f32>: order(a*b) = {}, expected {} (exact leading coefficient {:e}, rounding bound {:e})", prod.order(), la + lb - 2, lead, bound));
        return;
    }
    for (k, want) in exact.iter().enumerate() {
        let got = prod.get_coefficient(k) as f64;
        let err = (got - want).abs();
        rep.max("f32/product_err_over_unit", err / (e32 * n_fft.log2().max(1.0) * na * nb));
        if !(err <= bound) {
            rep.violation("f32/product-coefficients", case().set("power", k).set("got", got).set("exact", *want), format!("Polynomial<f32> product: coefficient of x^{} is {:e}, exact {:e} (bound {:e})", k, got, want, bound));
            return;
        }
    }
    for k in 0..la.max(lb) {
        let want = a.get(k).copied().unwrap_or(0.0) as f64 + b.get(k).copied().unwrap_or(0.0) as f64;
        let got = sum.get_coefficient(k) as f64;
        if !((got - want).abs() <= 4.0 * e32 * want.abs() + 1e-10) {
            rep.violation("f32/sum-coefficients", case().set("power", k).set("got", got).set("exact", want), format!("Polynomial<f32> sum: coefficient of x^{} is {:e}, exact {:e}", k, got, want));
            return;
        }
    }
    if la >= 3 && lb >= 3 {
        rep.count("f32/fft_path_pairs", 1);
    }
    let mut h = CaseHash::new("c11-f32");
    for v in a.iter().chain(b.iter()) {
        h = h.f(*v as f64);
    }
    rep.nontrivial(h.0);
}

// ------------------------------------------------------------------ chains of assigning operators

/// An accumulator with a fine zero tolerance is updated in place by a chain of 2-4 assigning
/// operations (`*=`, `+=`, `-=`, owned and borrowed right operands) whose right operands carry their
/// own, often much coarser, zero tolerances. After every step the accumulator must hold the exact
/// running result (coefficients O(1), far above the accumulator's tolerance, so nothing may be
/// purged): the polynomial's OWN tolerance governs its products, not one picked up from an operand
/// earlier in the history.
fn run_assign_chain<N: Sc>(rep: &mut Report, rng: &mut Rng) {
    let gen = |rng: &mut Rng, len: usize| -> Vec<C64> {
        let mut v: Vec<C64> = (0..len).map(|_| if N::COMPLEX { C64::new(rng.r(-2.0, 2.0), rng.r(-2.0, 2.0)) } else { C64::new(rng.r(-2.0, 2.0), 0.0) }).collect();
        let l = v.last_mut().unwrap();
        if l.norm() < 0.5 {
            *l = C64::new(1.0, if N::COMPLEX { -0.5 } else { 0.0 });
        }
        v
    };
    // the accumulator starts as a constant or a linear polynomial in most cases (the scalar and
    // linear-factor paths take their result from a different place than the FFT path)
    let l0 = *rng.pick(&[1usize, 1, 2, 2, 3, 5]);
    let mut exact = gen(rng, l0);
    let tol_acc = *rng.pick(&[None, Some(1e-12), Some(1e-8)]);
    let mut acc: Polynomial<N> = build::<N>(&exact, tol_acc, rng.bool());
    let steps = 2 + rng.below(3);
    let mut log: Vec<J> = vec![J::obj().set("start", pj(N::COMPLEX, &exact)).set("tolerance", tolj(tol_acc))];
    rep.eval();
    rep.count(&format!("{}/assign_chains", N::NAME), 1);
    let mut coarse_seen = false;
    for step in 0..steps {
        let lf = *rng.pick(&[1usize, 2, 3, 4, 6, 9]);
        let f = gen(rng, lf);
        let tol_f = *rng.pick(&[None, Some(1e-6), Some(0.1), Some(10.0), Some(100.0)]);
        let pf: Polynomial<N> = build::<N>(&f, tol_f, rng.bool());
        let op = rng.below(6);
        let opname = ["*= f", "*= &f", "+= f", "+= &f", "-= f", "-= &f"][op];
        let before_mul_fft = exact.len() >= 3 && lf >= 3;
        let new_exact: Vec<C64> = match op {
            0 | 1 => conv_exact(&exact, &f),
            2 | 3 => (0..exact.len().max(lf)).map(|i| exact.get(i).copied().unwrap_or(C64::new(0.0, 0.0)) + f.get(i).copied().unwrap_or(C64::new(0.0, 0.0))).collect(),
            _ => (0..exact.len().max(lf)).map(|i| exact.get(i).copied().unwrap_or(C64::new(0.0, 0.0)) - f.get(i).copied().unwrap_or(C64::new(0.0, 0.0))).collect(),
        };
        log.push(J::obj().set("op", opname).set("f", pj(N::COMPLEX, &f)).set("tolerance_f", tolj(tol_f)));
        let r = guard(move || {
            let mut acc = acc;
            match op {
                0 => acc *= pf,
                1 => acc *= &pf,
                2 => acc += pf,
                3 => acc += &pf,
                4 => acc -= pf,
                _ => acc -= &pf,
            }
            acc
        });
        let case = || J::obj().set("field", N::NAME).set("history", J::Arr(log.clone())).set("failing_step", step as u64);
        acc = match r {
            Guarded::Ok(a) => a,
            Guarded::Panic(m, l) => {
                rep.violation("assign-chain/panic", case(), format!("step {} ({}) panicked: '{}' at {}", step, opname, m, l));
                return;
            }
            Guarded::Budget => return,
        };
        // sums and differences may cancel the leading coefficient: keep the model simple by ending
        // the chain when the exact leading coefficient is not clearly non-zero
        let lead = new_exact.last().unwrap().norm();
        let scale = norm2(&exact).max(1.0) * norm2(&f).max(1.0);
        let unit = EPS * (nextpow2(2 * exact.len().max(lf)) as f64).log2().max(1.0) * scale;
        if lead < 0.05 {
            rep.count("assign_chains_ended_on_cancelling_lead", 1);
            return;
        }
        if coarse_seen && before_mul_fft && op <= 1 {
            rep.count(&format!("{}/assign_chain_fft_products_after_a_coarse_operand", N::NAME), 1);
        }
        if acc.order() != new_exact.len() - 1 {
            rep.violation(
                &format!("assign-chain/degree/{}", &opname[..2]),
                case().set("order", acc.order()).set("expected_order", new_exact.len() - 1),
                format!("after step {} ({}) the accumulator has order {}, exact running result has degree {} with leading coefficient {:e} (accumulator tolerance {:?})", step, opname, acc.order(), new_exact.len() - 1, lead, tol_acc),
            );
            return;
        }
        let cmp = cmp_coeffs(&acc, &new_exact, &|_| unit, K_PRODUCT, 0.0);
        rep.max("assign_chain_err_over_unit", cmp.worst);
        if let Some(b) = cmp.bad {
            rep.violation(&format!("assign-chain/coefficients/{}", &opname[..2]), case(), format!("after step {} ({}): {}", step, opname, b));
            return;
        }
        if matches!(tol_f, Some(t) if t >= 0.1) {
            coarse_seen = true;
        }
        exact = new_exact;
    }
    let mut h = CaseHash::new("c11-chain").u(N::COMPLEX as u64);
    h = hash_poly(h, &exact);
    rep.nontrivial(h.0);
}

// ------------------------------------------------------------------ products that vanish entirely

/// One operand is a zero polynomial that still stores several coefficients (a cancellation result
/// `&p - &p`, or exact zeros collected), the other a generic polynomial with >= 3 coefficients, so
/// that the product takes the FFT path and every coefficient of the result is within tolerance.
/// The result must be a usable zero polynomial: order() and the accessors do not panic, every
/// coefficient reads 0 (up to the zero tolerance), it evaluates to 0 and is neutral in a sum.
fn run_vanishing_product<N: Sc>(rep: &mut Report, rng: &mut Rng) {
    let lz = 3 + rng.below(7);
    let lq = 3 + rng.below(30);
    let q: Vec<C64> = (0..lq).map(|_| if N::COMPLEX { C64::new(rng.r(-2.0, 2.0), rng.r(-2.0, 2.0)) } else { C64::new(rng.r(-2.0, 2.0), 0.0) }).collect();
    let pq: Polynomial<N> = build::<N>(&q, None, rng.bool());
    let how = rng.below(2);
    let zero_side_left = rng.bool();
    rep.eval();
    rep.count(&format!("{}/vanishing_products", N::NAME), 1);
    let case = || J::obj().set("field", N::NAME).set("zero_operand", if how == 0 { "&p - &p" } else { "exact zeros collected" }).set("zero_operand_stored_coefficients", lz as u64).set("zero_operand_is", if zero_side_left { "left" } else { "right" }).set("other", pj(N::COMPLEX, &q));
    let x = N::from_c(C64::new(rng.r(-1.0, 1.0), if N::COMPLEX { rng.r(-1.0, 1.0) } else { 0.0 }));
    let qc = q.clone();
    let r = guard(move || -> Result<(), String> {
        let z: Polynomial<N> = if how == 0 {
            let p: Polynomial<N> = build::<N>(&(0..lz).map(|k| C64::new(1.0 + k as f64, 0.0)).collect::<Vec<_>>(), None, false);
            &p - &p
        } else {
            (0..lz).map(|_| N::from_c(C64::new(0.0, 0.0))).collect()
        };
        let prod = if zero_side_left { &z * &pq } else { &pq * &z };
        let order = prod.order();
        if order > lz + lq {
            return Err(format!("order() of the vanishing product is {}", order));
        }
        for k in 0..lz + lq + 2 {
            let c = prod.get_coefficient(k).to_c();
            if !(c.norm() <= 1e-9) {
                return Err(format!("coefficient of x^{} is {:e}{:+e}i", k, c.re, c.im));
            }
        }
        let v = prod.evaluate(x).to_c();
        if !(v.norm() <= 1e-8) {
            return Err(format!("evaluates to {:e}{:+e}i", v.re, v.im));
        }
        let sum = &prod + &pq;
        for (k, want) in qc.iter().enumerate() {
            let c = sum.get_coefficient(k).to_c();
            if !((c - want).norm() <= 1e-9) {
                return Err(format!("(a*b) + q: coefficient of x^{} is {:e}{:+e}i, q has {:e}{:+e}i", k, c.re, c.im, want.re, want.im));
            }
        }
        let all = prod.get_coefficients();
        if all.is_empty() {
            return Err("get_coefficients() of the vanishing product is empty".into());
        }
        Ok(())
    });
    match r {
        Guarded::Ok(Ok(())) => rep.nontrivial(hash_poly(CaseHash::new("c11-vanish").u(N::COMPLEX as u64).u(lz as u64).u(how as u64), &q).0),
        Guarded::Ok(Err(e)) => rep.violation("vanishing-product/not-the-zero-polynomial", case(), e),
        Guarded::Panic(m, l) => rep.violation("vanishing-product/panic", case(), format!("using a product that vanishes entirely panicked: '{}' at {}", m, l)),
        Guarded::Budget => {}
    }
}

// ------------------------------------------------------------------ stages

pub fn stages(ctx: &Ctx) -> Vec<Stage> {
    let seed = ctx.seed;
    let tier = ctx.tier;
    let mut st = vec![];
    let fixed = fixed_pairs();
    let nfixed = fixed.len() as u64;
    let grid = (ANCHOR_LENS.len() * ANCHOR_LENS.len()) as u64;
    // anchors (seed independent): hand-written pairs, then every (len a, len b) of the grid in both fields
    st.push(Stage::new("pair-anchors", nfixed + 2 * grid, move |i, rep| {
        if i < nfixed {
            run_pair_dyn(rep, &fixed[i as usize]);
            return;
        }
        let j = i - nfixed;
        let complex = j >= grid;
        let g = (j % grid) as usize;
        let (la, lb) = (ANCHOR_LENS[g / ANCHOR_LENS.len()], ANCHOR_LENS[g % ANCHOR_LENS.len()]);
        let mut rng = Rng::for_case(0xC11, "c11-pair-anchor", j);
        let c = gen_pair(&mut rng, complex, la - 1, lb - 1, true);
        run_pair_dyn(rep, &c);
    }));
    // sparse anchors: (alpha x^j + gamma)(beta x^k + delta): all of the norm sits in single
    // coefficients, the worst case for the accumulated twiddle-factor error of an FFT
    let nsp = (SPARSE_POWERS.len() * SPARSE_POWERS.len()) as u64;
    st.push(Stage::new("pair-sparse-anchors", 4 * nsp, move |i, rep| {
        let complex = i % 2 == 1;
        let with_const = (i / 2) % 2 == 1;
        let g = (i / 4) as usize;
        let (j, k) = (SPARSE_POWERS[g / SPARSE_POWERS.len()], SPARSE_POWERS[g % SPARSE_POWERS.len()]);
        let mut rng = Rng::for_case(0xC11, "c11-sparse-anchor", i);
        let mut a = vec![C64::new(0.0, 0.0); j + 1];
        let mut b = vec![C64::new(0.0, 0.0); k + 1];
        a[j] = rand_scalar(&mut rng, complex, -1.0, 1.0);
        b[k] = rand_scalar(&mut rng, complex, -1.0, 1.0);
        if with_const {
            a[0] = rand_scalar(&mut rng, complex, -3.0, 0.0);
            b[0] = rand_scalar(&mut rng, complex, -3.0, 0.0);
        }
        let c = Pair { complex, a, b, tol_a: None, tol_b: None, from_slice: false, s: C64::new(3.0, 0.0), xs: vec![rand_point(&mut rng, complex, 1.0)], shape_a: "monomial".into(), shape_b: "monomial".into() };
        run_pair_dyn(rep, &c);
    }));
    st.push(Stage::new("pairs", tier.pick(20_000, 300_000), move |i, rep| {
        let mut rng = Rng::for_case(seed, "c11-pairs", i);
        let complex = i % 2 == 1;
        let da = pick_degree(&mut rng);
        let db = if rng.chance(0.15) { da } else { pick_degree(&mut rng) };
        let c = gen_pair(&mut rng, complex, da, db, false);
        run_pair_dyn(rep, &c);
    }));
    // dft anchors: every anchor length x every boundary size x both fields
    let mut dft_anchor: Vec<(usize, usize, bool)> = vec![];
    for &l in DFT_ANCHOR_LENS.iter() {
        for s in dft_sizes(l) {
            dft_anchor.push((l, s, false));
            dft_anchor.push((l, s, true));
        }
    }
    let nda = dft_anchor.len() as u64;
    st.push(Stage::new("dft-anchors", nda, move |i, rep| {
        let (l, size, complex) = dft_anchor[i as usize];
        let mut rng = Rng::for_case(0xC11, "c11-dft-anchor", i);
        let (c, shape) = gen_poly(&mut rng, complex, l - 1);
        let case = DftCase { complex, c, size, tol: None, idft_tol: DEFAULT_TOL, shape: shape.into() };
        run_dft_dyn(rep, &case, &mut rng);
    }));
    st.push(Stage::new("dft", tier.pick(5_000, 60_000), move |i, rep| {
        let mut rng = Rng::for_case(seed, "c11-dft", i);
        let complex = i % 2 == 1;
        let l = pick_degree(&mut rng) + 1;
        let size = match rng.below(5) {
            0 => l,
            1 => nextpow2(l),
            2 => *rng.pick(&dft_sizes(l)),
            _ => l + rng.below(1024 - l + 1),
        };
        let tol = pick_tol(&mut rng);
        let (mut c, shape) = gen_poly(&mut rng, complex, l - 1);
        let mut shape = shape.to_string();
        let idft_tol: f64 = *rng.pick(&[1e-10, 1e-10, 1e-12, 1e-8, 1e-14, 0.0]);
        shape.push_str(decorate(&mut rng, complex, &mut c, idft_tol.max(1e-14)));
        let case = DftCase { complex, c, size, tol, idft_tol, shape };
        run_dft_dyn(rep, &case, &mut rng);
    }));
    st.push(Stage::new("assign-chains", tier.pick(8_000, 120_000), move |i, rep| {
        let mut rng = Rng::for_case(seed, "c11-assign-chains", i);
        if i % 2 == 0 {
            run_assign_chain::<f64>(rep, &mut rng);
        } else {
            run_assign_chain::<C64>(rep, &mut rng);
        }
    }));
    st.push(Stage::new("vanishing-products", tier.pick(2_000, 40_000), move |i, rep| {
        let mut rng = Rng::for_case(seed, "c11-vanishing", i);
        if i % 2 == 0 {
            run_vanishing_product::<f64>(rep, &mut rng);
        } else {
            run_vanishing_product::<C64>(rep, &mut rng);
        }
    }));
    st.push(Stage::new("f32-pairs", tier.pick(4_000, 60_000), move |i, rep| {
        let mut rng = Rng::for_case(seed, "c11-f32", i);
        run_f32_pair(rep, &mut rng);
    }));
    st
}

pub fn thresholds(ctx: &Ctx, rep: &Report) -> Vec<Threshold> {
    let mut t = vec![];
    let q = |a: f64, b: f64| ctx.tier.pick(a, b);
    for fld in ["f64", "c64"] {
        t.push(Threshold { what: format!("FFT products that vanish entirely ({})", fld), required: q(800.0, 16_000.0), observed: rep.counter(&format!("{}/vanishing_products", fld)) as f64 });
        t.push(Threshold { what: format!("chains of assigning operators ({})", fld), required: q(2_000.0, 30_000.0), observed: rep.counter(&format!("{}/assign_chains", fld)) as f64 });
        t.push(Threshold { what: format!("in-place FFT products after an operand with a coarse tolerance was absorbed ({})", fld), required: q(400.0, 6_000.0), observed: rep.counter(&format!("{}/assign_chain_fft_products_after_a_coarse_operand", fld)) as f64 });
        t.push(Threshold { what: format!("operand pairs multiplied through the FFT path ({})", fld), required: q(1_500.0, 60_000.0), observed: rep.counter(&format!("mul/fft/{}", fld)) as f64 });
        t.push(Threshold { what: format!("operand pairs multiplied through the linear-factor path ({})", fld), required: q(100.0, 3_000.0), observed: rep.counter(&format!("mul/linear/{}", fld)) as f64 });
        t.push(Threshold { what: format!("operand pairs multiplied through the scalar path ({})", fld), required: q(100.0, 3_000.0), observed: rep.counter(&format!("mul/scalar/{}", fld)) as f64 });
        t.push(Threshold { what: format!("dft cases ({})", fld), required: q(500.0, 20_000.0), observed: rep.counter(&format!("dft/cases/{}", fld)) as f64 });
    }
    for sym in ["+", "-", "*"] {
        for form in ["a?b", "&a?b", "a?&b", "&a?&b", "a?=b", "a?=&b"] {
            let f = form.replace('?', sym);
            t.push(Threshold { what: format!("executions of operator form {}", f), required: q(5_000.0, 200_000.0), observed: rep.counter(&format!("form/{}", f)) as f64 });
        }
    }
    for sym in ["+", "-", "*", "/"] {
        for form in ["a?s", "&a?s", "a?=s"] {
            let f = form.replace('?', sym);
            t.push(Threshold { what: format!("executions of scalar operator form {}", f), required: q(4_000.0, 150_000.0), observed: rep.counter(&format!("form/{}", f)) as f64 });
        }
    }
    for f in ["-a", "-&a"] {
        t.push(Threshold { what: format!("executions of {}", f), required: q(5_000.0, 200_000.0), observed: rep.counter(&format!("form/{}", f)) as f64 });
    }
    t.push(Threshold { what: "products whose degree was required to equal the sum of the degrees".into(), required: q(20_000.0, 1_000_000.0), observed: rep.counter("degree/equality_asserted") as f64 });
    t.push(Threshold { what: "products whose leading term lay within tolerance + rounding (equality not required)".into(), required: q(100.0, 5_000.0), observed: rep.counter("degree/equality_not_asserted(leading term within tolerance+rounding)") as f64 });
    t.push(Threshold { what: "pointwise (a*b)(x) = a(x)b(x) comparisons".into(), required: q(8_000.0, 400_000.0), observed: rep.counter("pointwise_checks") as f64 });
    t.push(Threshold { what: "dft transforms of length 1024".into(), required: q(200.0, 8_000.0), observed: rep.counter("dft/N=1024") as f64 });
    t.push(Threshold { what: "dft cases whose size argument is not a power of two".into(), required: q(400.0, 15_000.0), observed: rep.counter("dft/size_not_a_power_of_two") as f64 });
    t.push(Threshold { what: "dft values compared with direct evaluation at roots of unity".into(), required: q(100_000.0, 4_000_000.0), observed: rep.counter("dft/values_checked") as f64 });
    t.push(Threshold { what: "idft(dft(p)) round trips".into(), required: q(1_200.0, 50_000.0), observed: rep.counter("idft/roundtrips") as f64 });
    t
}
