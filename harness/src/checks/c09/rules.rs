//! Independent Gauss rule sequences built by the harness (Golub-Welsch: nodes = eigenvalues of the
//! Jacobi matrix of the three-term recurrence, weights = mu_0 * (first eigenvector component)^2,
//! nalgebra's symmetric eigen-solver). They are validated against closed-form moments when built
//! and are used ONLY to decide class membership (would a correct two-consecutive-agreement
//! sequence stop, and is every rule it could stop at accurate?) — never as the oracle.

use super::fam::{moments, Weight};
use nalgebra::{DMatrix, SymmetricEigen};
use std::sync::OnceLock;

#[derive(Clone, Copy, PartialEq, Eq, Debug)]
pub enum Family {
    Legendre,
    W(Weight),
}

/// (diagonal alpha_k, k = 0..n-1 ; off-diagonal sqrt(beta_k), k = 1..n-1 ; mu_0)
fn jacobi(fam: Family, n: usize) -> (Vec<f64>, Vec<f64>, f64) {
    let pi = std::f64::consts::PI;
    let mut a = vec![0.0; n];
    let mut b = vec![0.0; n.saturating_sub(1)];
    let mu0;
    match fam {
        Family::Legendre => {
            for k in 1..n {
                let kf = k as f64;
                b[k - 1] = (kf * kf / (4.0 * kf * kf - 1.0)).sqrt();
            }
            mu0 = 2.0;
        }
        Family::W(Weight::Hermite) => {
            for k in 1..n {
                b[k - 1] = (k as f64 / 2.0).sqrt();
            }
            mu0 = pi.sqrt();
        }
        Family::W(Weight::Laguerre) => {
            for k in 0..n {
                a[k] = 2.0 * k as f64 + 1.0;
            }
            for k in 1..n {
                b[k - 1] = k as f64;
            }
            mu0 = 1.0;
        }
        Family::W(Weight::Cheb1) => {
            for k in 1..n {
                b[k - 1] = if k == 1 { 0.5f64.sqrt() } else { 0.5 };
            }
            mu0 = pi;
        }
        Family::W(Weight::Cheb2) => {
            for k in 1..n {
                b[k - 1] = 0.5;
            }
            mu0 = pi / 2.0;
        }
    }
    (a, b, mu0)
}

/// orthonormal polynomials p_0..p_n and p_n' at x by the three-term recurrence
///   sqrt(beta_{k+1}) p_{k+1} = (x - alpha_k) p_k - sqrt(beta_k) p_{k-1},  p_0 = mu_0^{-1/2}
fn orthonormal(a: &[f64], b: &[f64], mu0: f64, n: usize, x: f64) -> (Vec<f64>, f64) {
    let mut p = vec![0.0; n + 1];
    let mut dp = vec![0.0; n + 1];
    p[0] = 1.0 / mu0.sqrt();
    for k in 0..n {
        let (pm, dpm, bm) = if k == 0 { (0.0, 0.0, 0.0) } else { (p[k - 1], dp[k - 1], b[k - 1]) };
        p[k + 1] = ((x - a[k]) * p[k] - bm * pm) / b[k];
        dp[k + 1] = (p[k] + (x - a[k]) * dp[k] - bm * dpm) / b[k];
    }
    let d = dp[n];
    (p, d)
}

/// n-point Gauss rule: nodes = eigenvalues of the n x n Jacobi matrix (nalgebra's symmetric
/// eigen-solver) polished by Newton steps on p_n; weights = Christoffel numbers
/// 1 / sum_{k<n} p_k(x_j)^2 (the squared first eigenvector components lose all relative accuracy
/// for the tiny outer Hermite/Laguerre weights).
pub fn golub_welsch(fam: Family, n: usize) -> Vec<(f64, f64)> {
    let (a, b, mu0) = jacobi(fam, n + 1);
    let mut m = DMatrix::<f64>::zeros(n, n);
    for k in 0..n {
        m[(k, k)] = a[k];
        if k + 1 < n {
            m[(k, k + 1)] = b[k];
            m[(k + 1, k)] = b[k];
        }
    }
    let eig = SymmetricEigen::new(m);
    let mut out: Vec<(f64, f64)> = (0..n)
        .map(|j| {
            let mut x = eig.eigenvalues[j];
            for _ in 0..3 {
                let (p, d) = orthonormal(&a, &b, mu0, n, x);
                let step = p[n] / d;
                if !step.is_finite() {
                    break;
                }
                x -= step;
            }
            let (p, _) = orthonormal(&a, &b, mu0, n, x);
            let s: f64 = p[..n].iter().map(|v| v * v).sum();
            (x, 1.0 / s)
        })
        .collect();
    out.sort_by(|p, q| p.0.partial_cmp(&q.0).unwrap());
    // symmetric families: make the centre node exactly 0 and the rule exactly symmetric
    if !matches!(fam, Family::W(Weight::Laguerre)) {
        for j in 0..n / 2 {
            let x = 0.5 * (out[n - 1 - j].0 - out[j].0);
            let w = 0.5 * (out[n - 1 - j].1 + out[j].1);
            out[j] = (-x, w);
            out[n - 1 - j] = (x, w);
        }
        if n % 2 == 1 {
            out[n / 2].0 = 0.0;
        }
    }
    out
}

pub struct RuleSeq {
    pub rules: Vec<Vec<(f64, f64)>>,
    /// worst relative moment defect found when validating (evidence)
    pub worst_defect: f64,
}

fn build(fam: Family, rows: usize) -> RuleSeq {
    let mut rules = vec![];
    let mut worst: f64 = 0.0;
    for n in 1..=rows {
        let r = golub_welsch(fam, n);
        // validate: sum w x^k == mu_k for k <= min(2n-1, 40), relative to sum w |x|^k
        let kmax = (2 * n - 1).min(40);
        let (mu, _) = match fam {
            Family::Legendre => {
                let mut mu = vec![0.0; kmax + 1];
                for k in 0..=kmax {
                    mu[k] = if k % 2 == 0 { 2.0 / (k as f64 + 1.0) } else { 0.0 };
                }
                (mu, vec![])
            }
            Family::W(w) => moments(w, kmax),
        };
        for k in 0..=kmax {
            let s: f64 = r.iter().map(|(x, w)| w * x.powi(k as i32)).sum();
            let sa: f64 = r.iter().map(|(x, w)| w * x.abs().powi(k as i32)).sum();
            let d = (s - mu[k]).abs() / sa.max(1e-300);
            worst = worst.max(d);
        }
        rules.push(r);
    }
    assert!(worst < 1e-11, "harness-side Golub-Welsch rules for {:?} fail their moment validation: {:e}", fam, worst);
    RuleSeq { rules, worst_defect: worst }
}

pub fn legendre() -> &'static RuleSeq {
    static S: OnceLock<RuleSeq> = OnceLock::new();
    S.get_or_init(|| build(Family::Legendre, 12))
}
pub fn hermite() -> &'static RuleSeq {
    static S: OnceLock<RuleSeq> = OnceLock::new();
    S.get_or_init(|| build(Family::W(Weight::Hermite), 27))
}
pub fn laguerre() -> &'static RuleSeq {
    static S: OnceLock<RuleSeq> = OnceLock::new();
    S.get_or_init(|| build(Family::W(Weight::Laguerre), 12))
}
pub fn cheb1() -> &'static RuleSeq {
    static S: OnceLock<RuleSeq> = OnceLock::new();
    S.get_or_init(|| build(Family::W(Weight::Cheb1), 100))
}
pub fn cheb2() -> &'static RuleSeq {
    static S: OnceLock<RuleSeq> = OnceLock::new();
    S.get_or_init(|| build(Family::W(Weight::Cheb2), 100))
}
