//! G-quad: integrands with closed-form (weighted) integrals.
//!
//!   f(x) = sum_i poly[i] * t^i  +  sum_j c_j * exp(r_j * x)  +  sum_j d_j * sin(w_j * x + phi_j),
//!   t = (x - x0) / s
//!
//! Entire functions of exponential type sigma = max(|r_j|, |w_j|). Real members have real
//! `poly`, `c`, `r`; complex members have complex ones (e^{(k + i w) x}). All reference integrals
//! below are closed forms implemented here (antiderivatives, Gamma-function moments, power series
//! of the modified Bessel functions); nothing is taken from the code under test.

use crate::json::J;
use num_complex::Complex64 as C;

pub const EPS: f64 = f64::EPSILON;

#[derive(Clone, Debug)]
pub struct Fun {
    pub complex: bool,
    pub x0: f64,
    pub s: f64,
    pub poly: Vec<C>,
    /// (coefficient, rate)
    pub exps: Vec<(C, C)>,
    /// (amplitude, frequency, phase)
    pub sins: Vec<(f64, f64, f64)>,
    /// coefficients in the Chebyshev basis (weighted Chebyshev routines only; requires x0 = 0,
    /// s = 1): sum_k cheb[k] T_k(x) when cheb_kind == 1, sum_k cheb[k] U_k(x) when cheb_kind == 2.
    /// The monomial basis cannot express a polynomial whose high Chebyshev coefficients matter
    /// (x^k is 2^(1-k) T_k + ...), and only such polynomials make the routine use its last rules.
    pub cheb_kind: u8,
    pub cheb: Vec<C>,
}

fn c0() -> C {
    C::new(0.0, 0.0)
}

/// sinh(z)/z, accurate near 0
pub fn sinhc(z: C) -> C {
    if z.norm() < 0.5 {
        let z2 = z * z;
        let mut term = C::new(1.0, 0.0);
        let mut sum = term;
        for k in 1..14 {
            term = term * z2 / ((2 * k) as f64 * (2 * k + 1) as f64);
            sum += term;
        }
        sum
    } else {
        z.sinh() / z
    }
}

/// sin(u)/u, accurate near 0
pub fn sinc(u: f64) -> f64 {
    if u.abs() < 0.5 {
        let u2 = u * u;
        let mut term = 1.0;
        let mut sum = 1.0;
        for k in 1..14 {
            term = -term * u2 / ((2 * k) as f64 * (2 * k + 1) as f64);
            sum += term;
        }
        sum
    } else {
        u.sin() / u
    }
}

/// I_0(z) = sum (z^2/4)^j / (j!)^2 ; returns (value, sum of |terms|)
pub fn bessel_i0(z: C) -> (C, f64) {
    let q = z * z * 0.25;
    let mut term = C::new(1.0, 0.0);
    let mut sum = term;
    let mut mag = 1.0;
    for j in 1..200 {
        term = term * q / ((j * j) as f64);
        sum += term;
        mag += term.norm();
        if term.norm() < 1e-19 * mag {
            break;
        }
    }
    (sum, mag)
}

/// I_1(z)/z = 1/2 sum (z^2/4)^j / (j! (j+1)!) ; returns (value, sum of |terms|)
pub fn bessel_i1_over_z(z: C) -> (C, f64) {
    let q = z * z * 0.25;
    let mut term = C::new(0.5, 0.0);
    let mut sum = term;
    let mut mag = 0.5;
    for j in 1..200 {
        term = term * q / ((j * (j + 1)) as f64);
        sum += term;
        mag += term.norm();
        if term.norm() < 1e-19 * mag {
            break;
        }
    }
    (sum, mag)
}

#[derive(Clone, Copy, PartialEq, Eq, Debug)]
pub enum Weight {
    /// e^{-x} on [0, inf)
    Laguerre,
    /// e^{-x^2} on R
    Hermite,
    /// 1/sqrt(1-x^2) on [-1,1]
    Cheb1,
    /// sqrt(1-x^2) on [-1,1]
    Cheb2,
}

/// monomial moments mu_i = int x^i w(x) dx and absolute moments int |x|^i w(x) dx, i = 0..=n
pub fn moments(w: Weight, n: usize) -> (Vec<f64>, Vec<f64>) {
    let mut mu = vec![0.0; n + 1];
    let mut am = vec![0.0; n + 1];
    let pi = std::f64::consts::PI;
    match w {
        Weight::Laguerre => {
            let mut f = 1.0;
            for i in 0..=n {
                if i > 0 {
                    f *= i as f64;
                }
                mu[i] = f;
                am[i] = f;
            }
        }
        Weight::Hermite => {
            // Gamma((i+1)/2): h0 = sqrt(pi), h1 = 1, h_{i+2} = h_i (i+1)/2
            for i in 0..=n {
                am[i] = if i == 0 {
                    pi.sqrt()
                } else if i == 1 {
                    1.0
                } else {
                    am[i - 2] * (i as f64 - 1.0) / 2.0
                };
                mu[i] = if i % 2 == 0 { am[i] } else { 0.0 };
            }
        }
        Weight::Cheb1 => {
            // even: mu_0 = pi, mu_{2m+2} = mu_{2m} (2m+1)/(2m+2); absolute odd moments: B((i+1)/2, 1/2)
            // a_0 = pi, a_1 = 2, a_{i+2} = a_i (i+1)/(i+2)
            for i in 0..=n {
                am[i] = if i == 0 {
                    pi
                } else if i == 1 {
                    2.0
                } else {
                    am[i - 2] * (i as f64 - 1.0) / (i as f64)
                };
                mu[i] = if i % 2 == 0 { am[i] } else { 0.0 };
            }
        }
        Weight::Cheb2 => {
            // a_0 = pi/2, a_1 = 2/3, a_{i+2} = a_i (i+1)/(i+4)
            for i in 0..=n {
                am[i] = if i == 0 {
                    pi / 2.0
                } else if i == 1 {
                    2.0 / 3.0
                } else {
                    am[i - 2] * (i as f64 - 1.0) / (i as f64 + 2.0)
                };
                mu[i] = if i % 2 == 0 { am[i] } else { 0.0 };
            }
        }
    }
    (mu, am)
}

impl Fun {
    pub fn zero(complex: bool) -> Fun {
        Fun { complex, x0: 0.0, s: 1.0, poly: vec![], exps: vec![], sins: vec![], cheb_kind: 0, cheb: vec![] }
    }

    #[inline]
    pub fn eval_c(&self, x: f64) -> C {
        let t = (x - self.x0) / self.s;
        let mut p = c0();
        for c in self.poly.iter().rev() {
            p = p * t + c;
        }
        for (c, r) in &self.exps {
            p += c * (r * x).exp();
        }
        for (d, w, ph) in &self.sins {
            p += d * (w * x + ph).sin();
        }
        if !self.cheb.is_empty() {
            // three-term recurrence, T_1 = x or U_1 = 2x
            let (mut b0, mut b1) = (1.0, if self.cheb_kind == 1 { x } else { 2.0 * x });
            p += self.cheb[0];
            for c in self.cheb.iter().skip(1) {
                p += c * b1;
                let b2 = 2.0 * x * b1 - b0;
                b0 = b1;
                b1 = b2;
            }
        }
        p
    }

    /// real members only (imaginary parts are all zero)
    #[inline]
    pub fn eval_r(&self, x: f64) -> f64 {
        let t = (x - self.x0) / self.s;
        let mut p = 0.0;
        for c in self.poly.iter().rev() {
            p = p * t + c.re;
        }
        for (c, r) in &self.exps {
            p += c.re * (r.re * x).exp();
        }
        for (d, w, ph) in &self.sins {
            p += d * (w * x + ph).sin();
        }
        if !self.cheb.is_empty() {
            let (mut b0, mut b1) = (1.0, if self.cheb_kind == 1 { x } else { 2.0 * x });
            p += self.cheb[0].re;
            for c in self.cheb.iter().skip(1) {
                p += c.re * b1;
                let b2 = 2.0 * x * b1 - b0;
                b0 = b1;
                b1 = b2;
            }
        }
        p
    }

    /// exponential type
    pub fn sigma(&self) -> f64 {
        let mut s: f64 = 0.0;
        for (_, r) in &self.exps {
            s = s.max(r.norm());
        }
        for (_, w, _) in &self.sins {
            s = s.max(w.abs());
        }
        s
    }

    pub fn degree(&self) -> usize {
        self.poly.len().saturating_sub(1).max(self.cheb.len().saturating_sub(1))
    }

    pub fn is_polynomial(&self) -> bool {
        self.exps.is_empty() && self.sins.is_empty()
    }

    /// int_a^b f, and a bound `mag` of sup |f| on [a,b] term by term (the natural scale of all
    /// rounding errors: of the quadrature sums and of this closed form)
    pub fn integral(&self, a: f64, b: f64) -> (C, f64) {
        assert!(self.cheb.is_empty(), "Chebyshev-basis members are for the weighted Chebyshev routines only");
        let ta = (a - self.x0) / self.s;
        let tb = (b - self.x0) / self.s;
        let len = b - a;
        let mut val = c0();
        // int c t^i dx = c (b-a) (sum_{j=0..i} tb^j ta^{i-j}) / (i+1)
        let mut g = 1.0; // g_0
        let mut ta_pow = 1.0;
        for (i, c) in self.poly.iter().enumerate() {
            if i > 0 {
                ta_pow *= ta;
                g = tb * g + ta_pow;
            }
            val += c * (len * g / (i as f64 + 1.0));
        }
        let m = 0.5 * (a + b);
        let h = 0.5 * len;
        for (c, r) in &self.exps {
            val += c * (r * m).exp() * sinhc(r * h) * len;
        }
        for (d, w, ph) in &self.sins {
            val += d * (w * m + ph).sin() * sinc(w * h) * len;
        }
        (val, self.mag(a, b))
    }

    pub fn mag(&self, a: f64, b: f64) -> f64 {
        let ta = ((a - self.x0) / self.s).abs();
        let tb = ((b - self.x0) / self.s).abs();
        let t = ta.max(tb);
        let mut m = 0.0;
        let mut tp = 1.0;
        for c in &self.poly {
            m += c.norm() * tp;
            tp *= t;
        }
        for (c, r) in &self.exps {
            let x = if r.re > 0.0 { b } else { a };
            m += c.norm() * (r.re * x).exp();
        }
        for (d, _, _) in &self.sins {
            m += d.abs();
        }
        m
    }

    /// bound of sup_{[a,b]} |f^(m)|
    pub fn dbound(&self, m: usize, a: f64, b: f64) -> f64 {
        let ta = ((a - self.x0) / self.s).abs();
        let tb = ((b - self.x0) / self.s).abs();
        let t = ta.max(tb);
        let mut out = 0.0;
        for (i, c) in self.poly.iter().enumerate() {
            if i < m {
                continue;
            }
            // i!/(i-m)! t^{i-m} / s^m
            let mut f = c.norm();
            for k in 0..m {
                f *= (i - k) as f64 / self.s.abs();
            }
            f *= t.powi((i - m) as i32);
            out += f;
        }
        for (c, r) in &self.exps {
            let x = if r.re > 0.0 { b } else { a };
            out += c.norm() * r.norm().powi(m as i32) * (r.re * x).exp();
        }
        for (d, w, _) in &self.sins {
            out += d.abs() * w.abs().powi(m as i32);
        }
        out
    }

    /// int f(x) w(x) dx over the weight's domain (requires x0 = 0, s = 1; Laguerre: Re r < 1), and
    /// the term-by-term magnitude int |terms| w
    pub fn weighted_integral(&self, w: Weight) -> (C, f64) {
        assert!(self.x0 == 0.0 && self.s == 1.0, "weighted integrals use the monomial basis");
        let pi = std::f64::consts::PI;
        let (mu, am) = moments(w, self.poly.len().max(1));
        let mut val = c0();
        let mut mag = 0.0;
        for (i, c) in self.poly.iter().enumerate() {
            val += c * mu[i];
            mag += c.norm() * am[i];
        }
        if !self.cheb.is_empty() {
            // orthogonality: only the k = 0 term contributes; int |T_k| w = 2 (k >= 1), int |U_k| w <= 2
            assert!((w == Weight::Cheb1 && self.cheb_kind == 1) || (w == Weight::Cheb2 && self.cheb_kind == 2), "basis must match the weight");
            let mu0 = if w == Weight::Cheb1 { pi } else { 0.5 * pi };
            val += self.cheb[0] * mu0;
            mag += self.cheb[0].norm() * mu0;
            for c in self.cheb.iter().skip(1) {
                mag += 2.0 * c.norm();
            }
        }
        for (c, r) in &self.exps {
            match w {
                Weight::Laguerre => {
                    assert!(r.re < 1.0);
                    val += c / (C::new(1.0, 0.0) - r);
                    mag += c.norm() / (1.0 - r.re);
                }
                Weight::Hermite => {
                    val += c * pi.sqrt() * (r * r * 0.25).exp();
                    mag += c.norm() * pi.sqrt() * (r.re * r.re * 0.25).exp();
                }
                Weight::Cheb1 => {
                    let (v, m) = bessel_i0(*r);
                    val += c * pi * v;
                    mag += c.norm() * pi * m;
                }
                Weight::Cheb2 => {
                    let (v, m) = bessel_i1_over_z(*r);
                    val += c * pi * v;
                    mag += c.norm() * pi * m;
                }
            }
        }
        for (d, wf, ph) in &self.sins {
            // d sin(w x + phi) = d (sin phi cos w x + cos phi sin w x)
            match w {
                Weight::Laguerre => {
                    val += C::new(d * (ph.sin() + wf * ph.cos()) / (1.0 + wf * wf), 0.0);
                    mag += d.abs();
                }
                Weight::Hermite => {
                    val += C::new(d * ph.sin() * pi.sqrt() * (-wf * wf * 0.25).exp(), 0.0);
                    mag += d.abs() * pi.sqrt();
                }
                Weight::Cheb1 => {
                    // int cos(w x)/sqrt(1-x^2) = pi J_0(w) = pi I_0(i w)
                    let (v, m) = bessel_i0(C::new(0.0, *wf));
                    val += C::new(d * ph.sin() * pi * v.re, 0.0);
                    mag += d.abs() * pi * m;
                }
                Weight::Cheb2 => {
                    // int cos(w x) sqrt(1-x^2) = pi J_1(w)/w = pi I_1(i w)/(i w)
                    let (v, m) = bessel_i1_over_z(C::new(0.0, *wf));
                    val += C::new(d * ph.sin() * pi * v.re, 0.0);
                    mag += d.abs() * pi * m;
                }
            }
        }
        (val, mag)
    }

    pub fn to_json(&self) -> J {
        let cj = |c: &C| J::fs(&[c.re, c.im]);
        J::obj()
            .set("form", "f(x) = sum_i poly[i]*((x-x0)/s)^i + sum_j c_j*exp(rate_j*x) + sum_j d_j*sin(w_j*x+phi_j); complex numbers are [re, im]")
            .set("complex", self.complex)
            .set("x0", self.x0)
            .set("s", self.s)
            .set("poly", J::Arr(self.poly.iter().map(cj).collect()))
            .set("exps", J::Arr(self.exps.iter().map(|(c, r)| J::obj().set("c", cj(c)).set("rate", cj(r))).collect()))
            .set("sins", J::Arr(self.sins.iter().map(|(d, w, p)| J::obj().set("d", *d).set("w", *w).set("phi", *p)).collect()))
            .set("chebyshev_basis", if self.cheb.is_empty() { J::Null } else { J::obj().set("basis", if self.cheb_kind == 1 { "+ sum_k coef[k] T_k(x)" } else { "+ sum_k coef[k] U_k(x)" }).set("coef", J::Arr(self.cheb.iter().map(cj).collect())) })
    }

    pub fn hash_into(&self, mut h: crate::rng::CaseHash) -> crate::rng::CaseHash {
        h = h.u(self.complex as u64).f(self.x0).f(self.s);
        for c in &self.poly {
            h = h.f(c.re).f(c.im);
        }
        for (c, r) in &self.exps {
            h = h.f(c.re).f(c.im).f(r.re).f(r.im);
        }
        for (d, w, p) in &self.sins {
            h = h.f(*d).f(*w).f(*p);
        }
        for c in &self.cheb {
            h = h.f(c.re).f(c.im);
        }
        h
    }
}
