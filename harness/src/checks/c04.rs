//! C04 — IVP solutions converge to the true solution as tolerance or step shrinks.
//! Closed-form problems (G-closed), tolerance ladders 1e-3..1e-10 (Euler: step ladders), complex
//! vs equivalent real system, dynamic vs static dimension.

use crate::checks::c02::k_const;
use crate::gen::ivp::dtmax_for;
use crate::ivpdrv::*;
use crate::json::J;
use crate::refmodel::schemes::{dist2, norm2};
use crate::report::*;
use crate::rng::{CaseHash, Rng};

const EPS: f64 = f64::EPSILON;

pub fn meta() -> CheckMeta {
    CheckMeta {
        id: "C04",
        level: "exploration",
        rule: "cases: (real) stacks of 1-4 scalar closed-form problems (y'=ly, y'=a(t)y with trigonometric a, y'=-2sty, logistic, y'=y^2 cos t) mixed by a random orthogonal matrix, and y'=Ay with A = Q blockdiag(decay-rotation blocks) Q^T; (complex) y'=Ay, A = U diag(l_j) U^H, l_j complex, dimension 1-2, solved as Complex<f64> and as the real system of dimension 2n. Each case is a ladder: tolerances 1e-3,...,1e-10 with dt_max tied to the tolerance as in C02 (Euler: steps h, h/2, ..., h/64), every item of every rung compared with the closed form; plus a static-vs-dynamic run pair. Non-trivial: a ladder whose worst error decreases by >= 10x from the loosest to the tightest rung; distinct = hash of (solver, problem, span)".into(),
        assumptions: vec![
            "bound per item: K_s tol (e^{L (t-t0)} - 1)/L + floor for RK/Adams, K_s tol i e^{L (t-t0)} + floor for the i-th item of a BDF path, K_s as in C02; Euler: 1.05 (h M2 / 2L)(e^{L (t-t0)} - 1) + floor with M2 = max |y''| from the closed form".into(),
            "L is the Lipschitz constant of the constructed right-hand side on the solution's range; L T <= 3".into(),
            "solves that end in an Err item or exhaust the budget are C05's statement: the rung is inconclusive".into(),
        ],
        exhaustive: false,
        stuck_is_violation: false,
    }
}

// ------------------------------------------------------------------ closed-form problems

#[derive(Clone, Debug)]
enum Comp {
    /// y' = l y
    Lin { l: f64 },
    /// y' = (a0 + a1 cos wt + a2 sin wt) y
    TimeVar { a0: f64, a1: f64, a2: f64, w: f64 },
    /// y' = -2 s t y
    Gauss { s: f64 },
    /// y' = r y (1 - y)
    Logistic { r: f64 },
    /// y' = y^2 cos t
    Blow,
}

impl Comp {
    fn f(&self, t: f64, y: f64) -> f64 {
        match *self {
            Comp::Lin { l } => l * y,
            Comp::TimeVar { a0, a1, a2, w } => (a0 + a1 * (w * t).cos() + a2 * (w * t).sin()) * y,
            Comp::Gauss { s } => -2.0 * s * t * y,
            Comp::Logistic { r } => r * y * (1.0 - y),
            Comp::Blow => y * y * t.cos(),
        }
    }
    fn exact(&self, t0: f64, y0: f64, t: f64) -> f64 {
        match *self {
            Comp::Lin { l } => y0 * (l * (t - t0)).exp(),
            Comp::TimeVar { a0, a1, a2, w } => {
                let i = a0 * (t - t0) + a1 / w * ((w * t).sin() - (w * t0).sin()) - a2 / w * ((w * t).cos() - (w * t0).cos());
                y0 * i.exp()
            }
            Comp::Gauss { s } => y0 * (-s * (t * t - t0 * t0)).exp(),
            Comp::Logistic { r } => 1.0 / (1.0 + (1.0 / y0 - 1.0) * (-r * (t - t0)).exp()),
            Comp::Blow => 1.0 / (1.0 / y0 - (t.sin() - t0.sin())),
        }
    }
    /// second derivative of the exact solution at (t, y)
    fn ypp(&self, t: f64, y: f64) -> f64 {
        match *self {
            Comp::Lin { l } => l * l * y,
            Comp::TimeVar { a0, a1, a2, w } => {
                let a = a0 + a1 * (w * t).cos() + a2 * (w * t).sin();
                let ap = -a1 * w * (w * t).sin() + a2 * w * (w * t).cos();
                (ap + a * a) * y
            }
            Comp::Gauss { s } => (-2.0 * s + 4.0 * s * s * t * t) * y,
            Comp::Logistic { r } => r * r * y * (1.0 - y) * (1.0 - 2.0 * y),
            Comp::Blow => 2.0 * y * y * y * t.cos() * t.cos() - y * y * t.sin(),
        }
    }
    /// Lipschitz constant in y on the interval and solution range
    fn lip(&self, t0: f64, t1: f64) -> f64 {
        match *self {
            Comp::Lin { l } => l.abs(),
            Comp::TimeVar { a0, a1, a2, .. } => a0.abs() + a1.abs() + a2.abs(),
            Comp::Gauss { s } => 2.0 * s * t0.abs().max(t1.abs()),
            Comp::Logistic { r } => r * 1.2,
            Comp::Blow => 1.8,
        }
    }
    fn to_json(&self) -> J {
        J::from(format!("{:?}", self))
    }
}

/// z = Q y, y_i scalar closed-form components
#[derive(Clone, Debug)]
struct Stack {
    comps: Vec<Comp>,
    q: Vec<f64>, // row-major n x n orthogonal
    y0: Vec<f64>, // component initial values
    t0: f64,
}

fn random_orthogonal(rng: &mut Rng, n: usize) -> Vec<f64> {
    let mut q = vec![0.0; n * n];
    for i in 0..n {
        q[i * n + i] = 1.0;
    }
    for _ in 0..(2 * n) {
        if n < 2 {
            break;
        }
        let i = rng.below(n);
        let mut j = rng.below(n);
        if i == j {
            j = (j + 1) % n;
        }
        let th = rng.r(0.0, 6.283);
        let (c, s) = (th.cos(), th.sin());
        for k in 0..n {
            let a = q[i * n + k];
            let b = q[j * n + k];
            q[i * n + k] = c * a - s * b;
            q[j * n + k] = s * a + c * b;
        }
    }
    q
}

impl Stack {
    fn n(&self) -> usize {
        self.comps.len()
    }
    fn mix(&self, y: &[f64]) -> Vec<f64> {
        let n = self.n();
        (0..n).map(|i| (0..n).map(|j| self.q[i * n + j] * y[j]).sum()).collect()
    }
    fn unmix(&self, z: &[f64]) -> Vec<f64> {
        let n = self.n();
        (0..n).map(|j| (0..n).map(|i| self.q[i * n + j] * z[i]).sum()).collect()
    }
    fn z0(&self) -> Vec<f64> {
        self.mix(&self.y0)
    }
    fn exact(&self, t: f64) -> Vec<f64> {
        let y: Vec<f64> = self.comps.iter().zip(&self.y0).map(|(c, y0)| c.exact(self.t0, *y0, t)).collect();
        self.mix(&y)
    }
    fn lip(&self, t1: f64) -> f64 {
        self.comps.iter().map(|c| c.lip(self.t0, t1)).fold(0.05, f64::max)
    }
    fn m2(&self, t1: f64) -> f64 {
        let mut m: f64 = 0.0;
        for k in 0..=1000 {
            let t = self.t0 + (t1 - self.t0) * k as f64 / 1000.0;
            let v: Vec<f64> = self.comps.iter().zip(&self.y0).map(|(c, y0)| c.ypp(t, c.exact(self.t0, *y0, t))).collect();
            m = m.max(norm2(&v));
        }
        m * 1.001
    }
    fn gen(rng: &mut Rng, n: usize) -> Stack {
        let t0 = rng.r(-1.0, 1.0);
        let mut comps = vec![];
        let mut y0 = vec![];
        for _ in 0..n {
            match rng.below(5) {
                0 => {
                    comps.push(Comp::Lin { l: rng.r(-2.0, 0.6) });
                    y0.push(rng.r(0.3, 1.0) * rng.sign());
                }
                1 => {
                    comps.push(Comp::TimeVar { a0: rng.r(-1.0, 0.2), a1: rng.r(-1.0, 1.0), a2: rng.r(-1.0, 1.0), w: rng.r(0.5, 3.0) });
                    y0.push(rng.r(0.3, 1.0) * rng.sign());
                }
                2 => {
                    comps.push(Comp::Gauss { s: rng.r(0.2, 1.0) });
                    y0.push(rng.r(0.3, 1.0) * rng.sign());
                }
                3 => {
                    comps.push(Comp::Logistic { r: rng.r(0.5, 2.5) });
                    y0.push(rng.r(0.1, 0.9));
                }
                _ => {
                    comps.push(Comp::Blow);
                    y0.push(rng.r(0.1, 0.3) * rng.sign());
                }
            }
        }
        let q = random_orthogonal(rng, n);
        Stack { comps, q, y0, t0 }
    }
    fn to_json(&self) -> J {
        J::obj().set("kind", "stack").set("components", J::Arr(self.comps.iter().map(|c| c.to_json()).collect())).set("Q", J::fs(&self.q)).set("y0_components", J::fs(&self.y0)).set("t0", self.t0)
    }
}

impl Rhs<f64> for Stack {
    fn dim(&self) -> usize {
        self.n()
    }
    fn eval(&self, t: f64, z: &[f64], out: &mut [f64]) {
        let y = self.unmix(z);
        let f: Vec<f64> = self.comps.iter().zip(&y).map(|(c, yv)| c.f(t, *yv)).collect();
        let m = self.mix(&f);
        out.copy_from_slice(&m);
    }
}

/// y' = A y, A = U diag(l) U^H with U unitary (real Givens rotations times diagonal phases)
#[derive(Clone, Debug)]
struct ComplexLinear {
    n: usize,
    lam: Vec<C64>,
    u: Vec<C64>, // row-major
    a: Vec<C64>,
    y0: Vec<C64>,
    t0: f64,
}

impl ComplexLinear {
    fn gen(rng: &mut Rng, n: usize) -> ComplexLinear {
        let lam: Vec<C64> = (0..n).map(|_| C64::new(rng.r(-1.5, 0.3), rng.r(-2.0, 2.0))).collect();
        let q = random_orthogonal(rng, n);
        let ph: Vec<C64> = (0..n).map(|_| C64::from_polar(1.0, rng.r(0.0, 6.283))).collect();
        let mut u = vec![C64::new(0.0, 0.0); n * n];
        for i in 0..n {
            for j in 0..n {
                u[i * n + j] = ph[j] * q[i * n + j];
            }
        }
        let mut a = vec![C64::new(0.0, 0.0); n * n];
        for i in 0..n {
            for j in 0..n {
                let mut s = C64::new(0.0, 0.0);
                for k in 0..n {
                    s += u[i * n + k] * lam[k] * u[j * n + k].conj();
                }
                a[i * n + j] = s;
            }
        }
        let y0 = (0..n).map(|_| C64::new(rng.r(-1.0, 1.0), rng.r(-1.0, 1.0))).collect();
        ComplexLinear { n, lam, u, a, y0, t0: rng.r(-1.0, 1.0) }
    }
    fn exact(&self, t: f64) -> Vec<C64> {
        let n = self.n;
        // c = U^H y0 ; y = U diag(e^{l (t-t0)}) c
        let c: Vec<C64> = (0..n).map(|k| (0..n).map(|i| self.u[i * n + k].conj() * self.y0[i]).sum::<C64>() * (self.lam[k] * (t - self.t0)).exp()).collect();
        (0..n).map(|i| (0..n).map(|k| self.u[i * n + k] * c[k]).sum()).collect()
    }
    fn lip(&self) -> f64 {
        self.lam.iter().map(|l| l.norm()).fold(0.05, f64::max)
    }
    fn to_json(&self) -> J {
        let fl = |v: &[C64]| J::Arr(v.iter().map(|c| J::fs(&[c.re, c.im])).collect());
        J::obj().set("kind", "complex-linear").set("n", self.n).set("lambda", fl(&self.lam)).set("A", fl(&self.a)).set("y0", fl(&self.y0)).set("t0", self.t0)
    }
}

impl Rhs<C64> for ComplexLinear {
    fn dim(&self) -> usize {
        self.n
    }
    fn eval(&self, _t: f64, y: &[C64], out: &mut [C64]) {
        let n = self.n;
        for i in 0..n {
            out[i] = (0..n).map(|j| self.a[i * n + j] * y[j]).sum();
        }
    }
}

/// the same system written as a real system of dimension 2n: z = [Re y; Im y]
struct RealEquivalent<'a>(&'a ComplexLinear);
impl<'a> Rhs<f64> for RealEquivalent<'a> {
    fn dim(&self) -> usize {
        2 * self.0.n
    }
    fn eval(&self, _t: f64, z: &[f64], out: &mut [f64]) {
        let n = self.0.n;
        for i in 0..n {
            let mut re = 0.0;
            let mut im = 0.0;
            for j in 0..n {
                let a = self.0.a[i * n + j];
                re += a.re * z[j] - a.im * z[n + j];
                im += a.im * z[j] + a.re * z[n + j];
            }
            out[i] = re;
            out[n + i] = im;
        }
    }
}

fn to_real(v: &[C64]) -> Vec<f64> {
    v.iter().map(|c| c.re).chain(v.iter().map(|c| c.im)).collect()
}

// ------------------------------------------------------------------ oracle

fn item_bound(solver: Solver, tol: f64, lip: f64, i: usize, dt: f64) -> f64 {
    let k = k_const(solver);
    if solver.is_bdf() {
        k * tol * (i as f64 + 1.0) * (lip * dt).exp()
    } else {
        k * tol * ((lip * dt).exp() - 1.0) / lip
    }
}

/// judge one rung; returns the worst absolute error or None when the rung is inconclusive/violated
#[allow(clippy::too_many_arguments)]
fn judge_rung(rep: &mut Report, solver: Solver, cfg: &Cfg, lip: f64, m2: f64, pts: &[(f64, Vec<f64>)], clean: bool, exact: &dyn Fn(f64) -> Vec<f64>, case: &dyn Fn() -> J, tag: &str) -> Option<f64> {
    let sname = solver.name();
    if !clean {
        rep.inconclusive("err-or-budget(C05)");
        return None;
    }
    let mut worst: f64 = 0.0;
    for (i, (t, y)) in pts.iter().enumerate() {
        let ex = exact(*t);
        if ex.len() != y.len() || !y.iter().all(|v| v.is_finite()) {
            rep.inconclusive("malformed-path(C01)");
            return None;
        }
        let err = dist2(y, &ex);
        let floor = 64.0 * EPS * (1.0 + norm2(&ex)) * (1.0 + i as f64).sqrt();
        let dt = *t - cfg.t0;
        let bound = if solver == Solver::Euler { 1.05 * cfg.dt_max * m2 / (2.0 * lip) * ((lip * dt).exp() - 1.0) } else { item_bound(solver, cfg.tol, lip, i, dt) };
        let ratio = nmax(err - floor, 0.0) / bound.max(1e-300);
        rep.max(&format!("{}/{}error_over_bound", sname, tag), ratio);
        worst = worst.max(err);
        if !(err <= bound + floor) {
            let what = if solver == Solver::Euler { format!("step {:e}", cfg.dt_max) } else { format!("tol {:e}", cfg.tol) };
            rep.violation(
                &format!("{}/{}global-error", sname, tag),
                case().set("rung", cfg.to_json()),
                format!("item {} at t={:.6e}: distance to the closed-form solution {:e} exceeds the bound {:e} ({}, L={:.3}, elapsed {:.3})", i, t, err, bound, what, lip, dt),
            );
            return None;
        }
    }
    Some(worst)
}

fn ladder_tols() -> [f64; 8] {
    [1e-3, 1e-4, 1e-5, 1e-6, 1e-7, 1e-8, 1e-9, 1e-10]
}

fn real_ladder(rep: &mut Report, solver: Solver, st: &Stack, span_l: f64, mode: DimMode, h0: f64) {
    let sname = solver.name();
    let t1_guess = st.t0 + span_l; // refined below with L
    let lip = st.lip(t1_guess + 3.0);
    let t1 = st.t0 + span_l / lip;
    let lip = st.lip(t1);
    let m2 = st.m2(t1);
    let z0 = st.z0();
    let case = || J::obj().set("solver", sname).set("mode", format!("{:?}", mode)).set("problem", st.to_json()).set("t1", t1).set("L", lip);
    let exact = |t: f64| st.exact(t);
    let mut errs = vec![];
    let rungs: Vec<Cfg> = if solver == Solver::Euler {
        (0..7).map(|k| { let h = h0 / lip / (1u32 << k) as f64; Cfg { t0: st.t0, t1, dt_min: h, dt_max: h, tol: 1.0 } }).collect()
    } else {
        ladder_tols().iter().map(|tol| { let dt_max = dtmax_for(solver, lip, *tol, 0.9); Cfg { t0: st.t0, t1, dt_min: dt_max * 1e-7, dt_max, tol: *tol } }).collect()
    };
    for cfg in &rungs {
        let out = solve_real(solver, cfg, &z0, st, &Opts { budget: 20_000_000, max_items: 2_000_000, mode, order: ((cfg.t1.to_bits() >> 7) % 6) as u8, ..Default::default() });
        rep.eval();
        rep.count(&format!("{}/rungs", sname), 1);
        if out.panic.is_some() || out.build_err.is_some() {
            rep.violation(&format!("{}/panic-or-rejected", sname), case().set("rung", cfg.to_json()), format!("{:?} {:?}", out.panic, out.build_err));
            return;
        }
        match judge_rung(rep, solver, cfg, lip, m2, &out.ok_points(), out.clean(), &exact, &case, "") {
            Some(w) => errs.push(w),
            None => return,
        }
    }
    finish_ladder(rep, solver, &errs, &case, CaseHash::new("c04-real").u(solver.idx() as u64).fs(&st.q).fs(&st.y0).f(t1).0);
}

fn finish_ladder(rep: &mut Report, solver: Solver, errs: &[f64], case: &dyn Fn() -> J, hash: u64) {
    rep.count(&format!("{}/ladders_completed", solver.name()), 1);
    if errs.len() >= 2 && errs[errs.len() - 1] * 10.0 <= errs[0] {
        rep.nontrivial(hash);
        rep.count(&format!("{}/ladders_with_10x_decrease", solver.name()), 1);
        if rep.wants_sample() {
            rep.sample(case().set("worst_error_per_rung", J::fs(errs)));
        }
    }
}

fn complex_ladder(rep: &mut Report, solver: Solver, p: &ComplexLinear, span_l: f64, h0: f64) {
    let sname = solver.name();
    let lip = p.lip();
    let t1 = p.t0 + span_l / lip;
    let case = || J::obj().set("solver", sname).set("problem", p.to_json()).set("t1", t1).set("L", lip);
    let exact_r = |t: f64| to_real(&p.exact(t));
    // |y''| = |A^2 y| <= L^2 |y|, |y| <= e^{max Re l * dt} |y0|
    let growth = p.lam.iter().map(|l| l.re).fold(0.0, f64::max);
    let m2 = lip * lip * norm2(&to_real(&p.y0)) * (growth * (t1 - p.t0)).exp() * 1.001;
    let req = RealEquivalent(p);
    let y0r = to_real(&p.y0);
    let mut errs = vec![];
    let rungs: Vec<Cfg> = if solver == Solver::Euler {
        (0..6).map(|k| { let h = h0 / lip / (1u32 << k) as f64; Cfg { t0: p.t0, t1, dt_min: h, dt_max: h, tol: 1.0 } }).collect()
    } else {
        [1e-3, 1e-5, 1e-7, 1e-9, 1e-10].iter().map(|tol| { let dt_max = dtmax_for(solver, lip, *tol, 0.9); Cfg { t0: p.t0, t1, dt_min: dt_max * 1e-7, dt_max, tol: *tol } }).collect()
    };
    for cfg in &rungs {
        let opts = Opts { budget: 20_000_000, max_items: 2_000_000, mode: DimMode::Dynamic, order: ((cfg.t1.to_bits() >> 7) % 6) as u8, ..Default::default() };
        let oc = solve_complex(solver, cfg, &p.y0, p, &opts);
        let or = solve_real(solver, cfg, &y0r, &req, &opts);
        rep.evals(2);
        rep.count(&format!("{}/complex_rungs", sname), 1);
        if oc.panic.is_some() || oc.build_err.is_some() || or.panic.is_some() || or.build_err.is_some() {
            rep.violation(&format!("{}/complex/panic-or-rejected", sname), case().set("rung", cfg.to_json()), format!("{:?} {:?} {:?} {:?}", oc.panic, oc.build_err, or.panic, or.build_err));
            return;
        }
        let pc: Vec<(f64, Vec<f64>)> = oc.ok_points().iter().map(|(t, y)| (*t, to_real(y))).collect();
        let pr = or.ok_points();
        let wc = judge_rung(rep, solver, cfg, lip, m2, &pc, oc.clean(), &exact_r, &case, "complex/");
        let wr = judge_rung(rep, solver, cfg, lip, m2, &pr, or.clean(), &exact_r, &case, "real-equivalent/");
        let (wc, _wr) = match (wc, wr) {
            (Some(a), Some(b)) => (a, b),
            _ => return,
        };
        errs.push(wc);
        // "as accurately as the equivalent real system". The two runs take the same decisions, but
        // their error norms are rounded differently (complex modulus vs real 2n-vector) and the
        // step controller amplifies that, so after thousands of steps the paths drift apart
        // (observed: times by 1e-9, states by 3e-9): item-by-item equality is not a property of
        // correct code. What is compared instead: path lengths, and the worst errors of the two
        // runs, which must be within a factor 2 of each other above the rounding floor (observed 1.0001).
        let nc_pts = pc.len() as f64;
        let nr_pts = pr.len() as f64;
        rep.max(&format!("{}/complex_vs_real_length_ratio", sname), (nc_pts / nr_pts).max(nr_pts / nc_pts));
        if !((nc_pts - nr_pts).abs() <= 0.05 * nr_pts + 3.0) {
            rep.violation(&format!("{}/complex-path-length-differs-from-real-system", sname), case().set("rung", cfg.to_json()), format!("complex run yields {} points, the equivalent real system {}", nc_pts, nr_pts));
            return;
        }
        let fl = 1e-12 * (1.0 + norm2(&y0r)) * (1.0 + nr_pts).sqrt();
        let ratio = (wc + fl) / (_wr + fl);
        rep.max(&format!("{}/complex_over_real_worst_error", sname), ratio);
        rep.max(&format!("{}/real_over_complex_worst_error", sname), 1.0 / ratio);
        rep.count("complex_vs_real_compared", 1);
        if !(ratio <= 2.0 && ratio >= 0.5) {
            rep.violation(
                &format!("{}/complex-less-accurate-than-real-system", sname),
                case().set("rung", cfg.to_json()),
                format!("worst error of the complex run {:e}, of the equivalent real system {:e} (ratio {:.2}, allowed 0.5..2 above the floor {:e})", wc, _wr, ratio, fl),
            );
            return;
        }
    }
    finish_ladder(rep, solver, &errs, &case, CaseHash::new("c04-complex").u(solver.idx() as u64).fs(&to_real(&p.y0)).fs(&to_real(&p.lam)).f(t1).0);
}

fn static_vs_dynamic(rep: &mut Report, solver: Solver, st: &Stack, span_l: f64, tol: f64) {
    let sname = solver.name();
    let lip = st.lip(st.t0 + span_l + 3.0);
    let t1 = st.t0 + span_l / lip;
    let dt_max = if solver == Solver::Euler { 0.01 / lip } else { dtmax_for(solver, lip, tol, 0.9) };
    let cfg = Cfg { t0: st.t0, t1, dt_min: dt_max * 1e-7, dt_max, tol };
    let z0 = st.z0();
    let a = solve_real(solver, &cfg, &z0, st, &Opts { mode: DimMode::Static, order: ((cfg.t1.to_bits() >> 7) % 6) as u8, ..Default::default() });
    let b = solve_real(solver, &cfg, &z0, st, &Opts { mode: DimMode::Dynamic, order: ((cfg.t1.to_bits() >> 11) % 6) as u8, ..Default::default() });
    rep.evals(2);
    rep.count("static_vs_dynamic_pairs", 1);
    let case = || J::obj().set("solver", sname).set("problem", st.to_json()).set("cfg", cfg.to_json());
    if a.panic.is_some() || b.panic.is_some() || a.build_err.is_some() || b.build_err.is_some() {
        rep.violation(&format!("{}/static-vs-dynamic/panic-or-rejected", sname), case(), format!("{:?} {:?} {:?} {:?}", a.panic, b.panic, a.build_err, b.build_err));
        return;
    }
    let (pa, pb) = (a.ok_points(), b.ok_points());
    if a.n_err() != b.n_err() || !((pa.len() as f64 - pb.len() as f64).abs() <= 0.05 * pb.len() as f64 + 3.0) {
        rep.violation(&format!("{}/static-vs-dynamic/path-length", sname), case(), format!("static run: {} points, {} errors; dynamic run: {} points, {} errors", pa.len(), a.n_err(), pb.len(), b.n_err()));
        return;
    }
    // same arithmetic on both sides; summation order inside nalgebra may differ between static and
    // dynamic storage, and the step controller amplifies such rounding differences (observed
    // 2e-11). "Up to rounding-level differences" is checked item by item for as long as the
    // two runs' times coincide to 1e-7 dt_max: states must then agree to 1e-7 (1+|y|).
    let exact_same = pa.len() == pb.len() && pa.iter().zip(&pb).all(|(x, y)| x.0 == y.0 && x.1 == y.1);
    if exact_same {
        rep.count("static_vs_dynamic_bit_identical", 1);
    } else {
        for (i, x) in pa.iter().enumerate() {
            if let Some(y) = pb.get(i) {
                if (x.0 - y.0).abs() <= 1e-7 * cfg.dt_max {
                    let d = dist2(&x.1, &y.1) / (1.0 + norm2(&x.1));
                    rep.max(&format!("{}/static_vs_dynamic_state_diff", sname), d);
                    if !(d <= 1e-7) {
                        rep.violation(&format!("{}/static-vs-dynamic/differs", sname), case(), format!("item {}: t {:.17e} vs {:.17e}, state distance {:e} (1+|y|)", i, x.0, y.0, d));
                        return;
                    }
                } else {
                    rep.count("static_vs_dynamic_time_drift_beyond_1e-7_dtmax", 1);
                    break;
                }
            }
        }
    }
    rep.nontrivial(CaseHash::new("c04-sd").u(solver.idx() as u64).fs(&st.q).fs(&st.y0).f(t1).f(tol).0);
}

pub fn stages(ctx: &Ctx) -> Vec<Stage> {
    let seed = ctx.seed;
    let mut st = vec![];
    st.push(Stage::new("anchors", 7 * 4, move |i, rep| {
        let solver = Solver::ALL[(i % 7) as usize];
        let k = i / 7;
        let mut rng = Rng::for_case(31337, "c04-anchor", k);
        let s = Stack::gen(&mut rng, 1 + (k as usize) % 4);
        real_ladder(rep, solver, &s, 2.0, if k % 2 == 0 { DimMode::Dynamic } else { DimMode::Static }, 0.05);
    }));
    let n = ctx.tier.pick(280, 2_800);
    st.push(Stage::new("real-ladders", n, move |i, rep| {
        let mut rng = Rng::for_case(seed, "c04-real", i);
        let solver = Solver::ALL[(i % 7) as usize];
        let n = 1 + rng.below(4);
        let s = Stack::gen(&mut rng, n);
        let span = rng.r(0.8, 3.0);
        let mode = if rng.bool() { DimMode::Static } else { DimMode::Dynamic };
        let h0 = rng.r(0.02, 0.1);
        real_ladder(rep, solver, &s, span, mode, h0);
    }));
    let nc = ctx.tier.pick(350, 2_100);
    st.push(Stage::new("complex-ladders", nc, move |i, rep| {
        let mut rng = Rng::for_case(seed, "c04-complex", i);
        let solver = Solver::ALL[(i % 7) as usize];
        let n = 1 + rng.below(2);
        let p = ComplexLinear::gen(&mut rng, n);
        let span = rng.r(0.8, 3.0);
        let h0 = rng.r(0.02, 0.1);
        complex_ladder(rep, solver, &p, span, h0);
    }));
    let nsd = ctx.tier.pick(700, 7_000);
    st.push(Stage::new("static-vs-dynamic", nsd, move |i, rep| {
        let mut rng = Rng::for_case(seed, "c04-sd", i);
        let solver = Solver::ALL[(i % 7) as usize];
        let n = 1 + rng.below(4);
        let s = Stack::gen(&mut rng, n);
        let tol = rng.log10(-9.0, -3.0);
        static_vs_dynamic(rep, solver, &s, rng.r(0.5, 2.5), tol);
    }));
    st
}

pub fn thresholds(ctx: &Ctx, rep: &Report) -> Vec<Threshold> {
    let mut t = vec![];
    for s in Solver::ALL {
        t.push(Threshold { what: format!("{}: ladders completed", s.name()), required: ctx.tier.pick(30.0, 300.0), observed: rep.counter(&format!("{}/ladders_completed", s.name())) as f64 });
        t.push(Threshold { what: format!("{}: ladders whose error fell >= 10x", s.name()), required: ctx.tier.pick(20.0, 200.0), observed: rep.counter(&format!("{}/ladders_with_10x_decrease", s.name())) as f64 });
    }
    t.push(Threshold { what: "complex-vs-real rung pairs compared".into(), required: ctx.tier.pick(200.0, 2_000.0), observed: rep.counter("complex_vs_real_compared") as f64 });
    t.push(Threshold { what: "static-vs-dynamic pairs".into(), required: ctx.tier.pick(150.0, 5_000.0), observed: rep.counter("static_vs_dynamic_pairs") as f64 });
    t
}
