//! C15 — Lagrange and Hermite interpolants reproduce their data and are unique.
//!
//! Reference: the (confluent) Vandermonde matrix V of the nodes, built here; its 2-norm condition
//! number kappa (nalgebra SVD) scales every bound; the reference coefficients are V^-1 data with the
//! inverse computed by the harness in double-double arithmetic (the nalgebra SVD solve turned out to
//! be accurate to 1e-8 only on symmetric node sets). Nothing of the Neville / divided-difference
//! machinery under test is reproduced.
//! Observations: order(), get_coefficient(k), evaluate / evaluate_derivative at the nodes, for the
//! points in the generated order, sorted, reversed and randomly permuted.

use crate::json::J;
use crate::probe::{self, Guarded};
use crate::report::*;
use crate::rng::{CaseHash, Rng};
use bacon_sci::interp::{hermite, lagrange};
use bacon_sci::polynomial::Polynomial;
use nalgebra::{ComplexField, DMatrix};
use num_complex::Complex;
use num_traits::FromPrimitive;

const EPS: f64 = f64::EPSILON;
type C64 = Complex<f64>;

// ---- frozen constants. Units: u_c = eps kappa |cref|_inf (coefficients), u_d = eps kappa max|data| (node residuals).
// Observed maxima over 8 seeds x 200 000 cases (thorough) in brackets; the ratios have a heavy tail (kappa
// over-estimates the sensitivity in most directions), so the constants are >= 10 x the largest value seen.
/// Lagrange coefficients: |c_k - cref_k| <= KL u_c + TF tol                                         [10.4]
const KL: f64 = 128.0;
/// Lagrange node values: |p(x_i) - y_i| <= KLN u_d + TF tol sum_k |x_i|^k                            [26.9]
const KLN: f64 = 256.0;
/// Hermite coefficients (divided differences with doubled nodes are not backward stable in the
/// Vandermonde sense, hence the larger constant): |c_k - cref_k| <= KH u_c + TF tol                  [104.9]
const KH: f64 = 1024.0;
/// Hermite node values and derivatives: |p(x_i) - y_i| <= KHN u_d + TF tol sum_k |x_i|^k,
/// |p'(x_i) - d_i| <= KHN u_d + TF tol sum_k k |x_i|^(k-1)                                            [1.2 / 3.3]
const KHN: f64 = 64.0;
/// coefficient-zeroing: real coefficients below tol are zeroed; complex leading coefficients are purged when
/// both components are <= tol, i.e. modulus up to sqrt(2) tol
const TF_REAL: f64 = 1.0;
const TF_COMPLEX: f64 = 1.5;
/// reordering the points may change the coefficients by at most PERM x the coefficient bound
const PERM: f64 = 2.0;

// ------------------------------------------------------------------ field abstraction

trait Fld: ComplexField<RealField = f64> + FromPrimitive + Copy + 'static {
    const NAME: &'static str;
    const COMPLEX: bool;
    fn mk(v: C64) -> Self;
    fn c(self) -> C64;
}
impl Fld for f64 {
    const NAME: &'static str = "f64";
    const COMPLEX: bool = false;
    fn mk(v: C64) -> f64 {
        v.re
    }
    fn c(self) -> C64 {
        C64::new(self, 0.0)
    }
}
impl Fld for C64 {
    const NAME: &'static str = "Complex<f64>";
    const COMPLEX: bool = true;
    fn mk(v: C64) -> C64 {
        v
    }
    fn c(self) -> C64 {
        self
    }
}

fn zc() -> C64 {
    C64::new(0.0, 0.0)
}
fn cs_json(v: &[C64], complex: bool) -> J {
    if complex {
        J::Arr(v.iter().map(|z| J::fs(&[z.re, z.im])).collect::<Vec<_>>())
    } else {
        J::fs(&v.iter().map(|z| z.re).collect::<Vec<_>>())
    }
}

// ------------------------------------------------------------------ double-double arithmetic

/// Double-double (about 31 significant digits) real and complex arithmetic with error-free
/// transformations (Dekker / Knuth; the product uses the fused multiply-add), and a complex
/// Gauss-Jordan inversion with partial pivoting on top of it.
mod dd {
    use super::C64;

    #[derive(Clone, Copy, Debug)]
    pub struct Dd {
        pub hi: f64,
        pub lo: f64,
    }
    fn two_sum(a: f64, b: f64) -> (f64, f64) {
        let s = a + b;
        let bb = s - a;
        (s, (a - (s - bb)) + (b - bb))
    }
    fn quick_two_sum(a: f64, b: f64) -> (f64, f64) {
        let s = a + b;
        (s, b - (s - a))
    }
    fn two_prod(a: f64, b: f64) -> (f64, f64) {
        let p = a * b;
        (p, a.mul_add(b, -p))
    }
    impl Dd {
        pub fn new(x: f64) -> Dd {
            Dd { hi: x, lo: 0.0 }
        }
        pub fn add(self, o: Dd) -> Dd {
            let (s, e) = two_sum(self.hi, o.hi);
            let (t, f) = two_sum(self.lo, o.lo);
            let (s, e) = quick_two_sum(s, e + t);
            let (hi, lo) = quick_two_sum(s, e + f);
            Dd { hi, lo }
        }
        pub fn neg(self) -> Dd {
            Dd { hi: -self.hi, lo: -self.lo }
        }
        pub fn sub(self, o: Dd) -> Dd {
            self.add(o.neg())
        }
        pub fn mul(self, o: Dd) -> Dd {
            let (p, e) = two_prod(self.hi, o.hi);
            let e = e + (self.hi * o.lo + self.lo * o.hi);
            let (hi, lo) = quick_two_sum(p, e);
            Dd { hi, lo }
        }
        pub fn div(self, o: Dd) -> Dd {
            let q1 = self.hi / o.hi;
            let r = self.sub(o.mul(Dd::new(q1)));
            let q2 = r.hi / o.hi;
            let r = r.sub(o.mul(Dd::new(q2)));
            let q3 = r.hi / o.hi;
            let (s, e) = quick_two_sum(q1, q2);
            Dd { hi: s, lo: e }.add(Dd::new(q3))
        }
        pub fn to_f64(self) -> f64 {
            self.hi + self.lo
        }
    }

    #[derive(Clone, Copy, Debug)]
    pub struct Cdd {
        pub re: Dd,
        pub im: Dd,
    }
    impl Cdd {
        pub fn zero() -> Cdd {
            Cdd { re: Dd::new(0.0), im: Dd::new(0.0) }
        }
        pub fn one() -> Cdd {
            Cdd { re: Dd::new(1.0), im: Dd::new(0.0) }
        }
        pub fn from_c(z: C64) -> Cdd {
            Cdd { re: Dd::new(z.re), im: Dd::new(z.im) }
        }
        pub fn to_c(self) -> C64 {
            C64::new(self.re.to_f64(), self.im.to_f64())
        }
        pub fn add(self, o: Cdd) -> Cdd {
            Cdd { re: self.re.add(o.re), im: self.im.add(o.im) }
        }
        pub fn sub(self, o: Cdd) -> Cdd {
            Cdd { re: self.re.sub(o.re), im: self.im.sub(o.im) }
        }
        pub fn mul(self, o: Cdd) -> Cdd {
            Cdd { re: self.re.mul(o.re).sub(self.im.mul(o.im)), im: self.re.mul(o.im).add(self.im.mul(o.re)) }
        }
        pub fn scale(self, k: f64) -> Cdd {
            Cdd { re: self.re.mul(Dd::new(k)), im: self.im.mul(Dd::new(k)) }
        }
        pub fn div(self, o: Cdd) -> Cdd {
            let den = o.re.mul(o.re).add(o.im.mul(o.im));
            let num = self.mul(Cdd { re: o.re, im: o.im.neg() });
            Cdd { re: num.re.div(den), im: num.im.div(den) }
        }
        pub fn mag(self) -> f64 {
            self.to_c().norm()
        }
    }

    /// inverse of the m x m matrix `a` (row-major) by Gauss-Jordan elimination with partial pivoting
    pub fn invert(a: &[Cdd], m: usize) -> Option<Vec<Cdd>> {
        let w = 2 * m;
        let mut t = vec![Cdd::zero(); m * w];
        for i in 0..m {
            for j in 0..m {
                t[i * w + j] = a[i * m + j];
            }
            t[i * w + m + i] = Cdd::one();
        }
        for k in 0..m {
            let mut p = k;
            let mut best = t[k * w + k].mag();
            for r in k + 1..m {
                let v = t[r * w + k].mag();
                if v > best {
                    best = v;
                    p = r;
                }
            }
            if !(best > 0.0) || !best.is_finite() {
                return None;
            }
            if p != k {
                for c in 0..w {
                    t.swap(k * w + c, p * w + c);
                }
            }
            let piv = t[k * w + k];
            for c in k..w {
                t[k * w + c] = t[k * w + c].div(piv);
            }
            for r in 0..m {
                if r == k {
                    continue;
                }
                let f = t[r * w + k];
                if f.mag() == 0.0 {
                    continue;
                }
                for c in k..w {
                    let d = f.mul(t[k * w + c]);
                    t[r * w + c] = t[r * w + c].sub(d);
                }
            }
        }
        let mut inv = vec![Cdd::zero(); m * m];
        for i in 0..m {
            for j in 0..m {
                inv[i * m + j] = t[i * w + m + j];
            }
        }
        Some(inv)
    }
}

// ------------------------------------------------------------------ reference

mod reference {
    use super::*;

    /// (confluent) Vandermonde matrix in the monomial basis: row 2i (or i) = [x_i^k], row 2i+1 = [k x_i^(k-1)]
    pub fn vandermonde(xs: &[C64], hermite: bool) -> DMatrix<C64> {
        let n = xs.len();
        let m = if hermite { 2 * n } else { n };
        let mut v = DMatrix::<C64>::zeros(m, m);
        for (i, x) in xs.iter().enumerate() {
            let mut pw = vec![C64::new(1.0, 0.0); m];
            for k in 1..m {
                pw[k] = pw[k - 1] * x;
            }
            for k in 0..m {
                if hermite {
                    v[(2 * i, k)] = pw[k];
                    v[(2 * i + 1, k)] = if k == 0 { zc() } else { pw[k - 1] * k as f64 };
                } else {
                    v[(i, k)] = pw[k];
                }
            }
        }
        v
    }

    pub struct Ref {
        /// 2-norm condition number from the SVD, clamped into the interval that the exactly computed
        /// Frobenius condition number kappa_F allows (kappa_F / m <= kappa_2 <= kappa_F)
        pub kappa: f64,
        pub kappa_svd: f64,
        pub kappa_frobenius: f64,
        /// V^-1 in double-double arithmetic
        inv: Vec<dd::Cdd>,
        m: usize,
    }

    impl Ref {
        /// c = V^-1 data with the double-double inverse: exact to about 1e-30 kappa, i.e. the exact
        /// interpolating polynomial of the f64 data for all practical purposes
        pub fn solve(&self, data: &[C64]) -> Vec<C64> {
            let m = self.m;
            (0..m)
                .map(|i| {
                    let mut acc = dd::Cdd::zero();
                    for j in 0..m {
                        acc = acc.add(self.inv[i * m + j].mul(dd::Cdd::from_c(data[j])));
                    }
                    acc.to_c()
                })
                .collect()
        }
    }

    pub fn analyse(xs: &[C64], hermite: bool) -> Option<Ref> {
        let v = vandermonde(xs, hermite);
        let m = v.nrows();
        // exact (double-double) entries: powers of the nodes are recomputed in double-double
        let mut a = vec![dd::Cdd::zero(); m * m];
        for (i, x) in xs.iter().enumerate() {
            let xd = dd::Cdd::from_c(*x);
            let mut pw = vec![dd::Cdd::one(); m];
            for k in 1..m {
                pw[k] = pw[k - 1].mul(xd);
            }
            for k in 0..m {
                if hermite {
                    a[(2 * i) * m + k] = pw[k];
                    a[(2 * i + 1) * m + k] = if k == 0 { dd::Cdd::zero() } else { pw[k - 1].scale(k as f64) };
                } else {
                    a[i * m + k] = pw[k];
                }
            }
        }
        let inv = dd::invert(&a, m)?;
        let fro = |w: &[dd::Cdd]| w.iter().map(|z| z.to_c().norm_sqr()).sum::<f64>().sqrt();
        let kappa_frobenius = fro(&a) * fro(&inv);
        let svd = v.svd(false, false);
        let smax = svd.singular_values.iter().fold(0.0f64, |a, b| a.max(*b));
        let smin = svd.singular_values.iter().fold(f64::INFINITY, |a, b| a.min(*b));
        let kappa_svd = smax / smin;
        let lo = kappa_frobenius / m as f64;
        let kappa = if !kappa_svd.is_finite() {
            kappa_frobenius
        } else if kappa_svd < 0.99 * lo {
            lo
        } else if kappa_svd > 1.01 * kappa_frobenius {
            kappa_frobenius
        } else {
            kappa_svd
        };
        Some(Ref { kappa, kappa_svd, kappa_frobenius, inv, m })
    }

    /// value and derivative of an ascending-coefficient polynomial
    pub fn polyval(c: &[C64], x: C64) -> (C64, C64) {
        let mut v = zc();
        let mut dv = zc();
        for k in (0..c.len()).rev() {
            dv = dv * x + v;
            v = v * x + c[k];
        }
        (v, dv)
    }
}

// ------------------------------------------------------------------ cases

#[derive(Clone, Copy, PartialEq, Eq, Debug)]
enum Data {
    /// sampled from a polynomial of full admissible degree
    FullDegree,
    /// sampled from a polynomial of lower degree (leading coefficients of the interpolant vanish)
    LowerDegree,
    /// sampled from a sparse polynomial whose small coefficients straddle the zeroing tolerance
    Straddle,
    Arbitrary,
}

#[derive(Clone)]
struct Case {
    hermite: bool,
    xs: Vec<C64>,
    ys: Vec<C64>,
    ds: Vec<C64>,
    tol: f64,
    data: Data,
    /// generating polynomial (ascending), when sampled
    poly: Option<Vec<C64>>,
}

impl Case {
    fn json<N: Fld>(&self) -> J {
        let mut j = J::obj().set("routine", if self.hermite { "hermite" } else { "lagrange" }).set("field", N::NAME).set("xs", cs_json(&self.xs, N::COMPLEX)).set("ys", cs_json(&self.ys, N::COMPLEX));
        if self.hermite {
            j.put("derivs", cs_json(&self.ds, N::COMPLEX));
        }
        j.put("tol", self.tol);
        j.put("data", format!("{:?}", self.data));
        if let Some(p) = &self.poly {
            j.put("sampled_polynomial_ascending", cs_json(p, N::COMPLEX));
        }
        j
    }
    fn permuted(&self, perm: &[usize]) -> Case {
        let mut c = self.clone();
        c.xs = perm.iter().map(|i| self.xs[*i]).collect();
        c.ys = perm.iter().map(|i| self.ys[*i]).collect();
        c.ds = perm.iter().map(|i| self.ds[*i]).collect();
        c
    }
}

fn gen_nodes(rng: &mut Rng, n: usize, complex: bool) -> Vec<C64> {
    let style = rng.below(8);
    if style == 0 && n >= 2 {
        // equally spaced on a random sub-interval, separation >= 0.2
        let h = rng.r(0.2, 4.0 / (n as f64 - 1.0)).min(4.0 / (n as f64 - 1.0));
        let a = rng.r(-2.0, 2.0 - h * (n as f64 - 1.0));
        let mut v: Vec<C64> = (0..n).map(|i| C64::new(a + h * i as f64, 0.0)).collect();
        rng.shuffle(&mut v);
        return v;
    }
    if style == 1 && n >= 2 && n <= 8 {
        // Chebyshev points of [-2,2] (separation of the outer pair is 4 sin^2(pi/(4n)) * 2 >= 0.2 up to n = 8? checked below)
        let v: Vec<C64> = (0..n).map(|i| C64::new(2.0 * ((2 * i + 1) as f64 * std::f64::consts::PI / (2 * n) as f64).cos(), 0.0)).collect();
        if separated(&v) {
            let mut v = v;
            rng.shuffle(&mut v);
            return v;
        }
    }
    if style == 3 && n >= 2 && n <= 5 && (rng.below(2) == 0) {
        // distinct points of the integer grid (real: -2..2; complex: Gaussian integers of modulus <= 2) in random
        // order: node differences of modulus exactly 1 that are -1, +-i, ... as well as +1
        let mut pool: Vec<C64> = vec![];
        for a in -2i32..=2 {
            for b in -2i32..=2 {
                if (complex || b == 0) && a * a + b * b <= 4 {
                    pool.push(C64::new(a as f64, b as f64));
                }
            }
        }
        rng.shuffle(&mut pool);
        pool.truncate(n);
        if pool.len() == n {
            return pool;
        }
    }
    let mut v: Vec<C64> = vec![];
    if style == 2 {
        v.push(zc()); // a node exactly at the origin
    }
    let real_nodes = !complex || rng.chance(0.25);
    // complex nodes that share a real part (vertical lines, conjugate pairs) or an imaginary part,
    // listed next to each other: distinct abscissae, however one coordinate may coincide
    let aligned = complex && !real_nodes && rng.chance(0.3);
    let mut guard = 0;
    while v.len() < n {
        guard += 1;
        if guard > 100_000 {
            v.clear(); // start over (never seen; keeps the loop finite in principle)
            guard = 0;
        }
        let z = if real_nodes {
            C64::new(rng.r(-2.0, 2.0), 0.0)
        } else {
            let z = C64::new(rng.r(-2.0, 2.0), rng.r(-2.0, 2.0));
            if z.norm() > 2.0 {
                continue;
            }
            z
        };
        let z = match (aligned, v.last()) {
            (true, Some(last)) if rng.chance(0.6) => match rng.below(3) {
                0 => last.conj(),
                1 => C64::new(last.re, z.im),
                _ => C64::new(z.re, last.im),
            },
            _ => z,
        };
        if z.norm() <= 2.0 && v.iter().all(|w| (w - z).norm() >= 0.2) {
            v.push(z);
        }
    }
    v
}

fn separated(v: &[C64]) -> bool {
    for i in 0..v.len() {
        for j in 0..i {
            if (v[i] - v[j]).norm() < 0.2 {
                return false;
            }
        }
    }
    true
}

fn gen_case(rng: &mut Rng, hermite: bool, complex: bool, n: usize, scale: f64, tol: f64) -> Case {
    let xs = gen_nodes(rng, n, complex);
    let m = if hermite { 2 * n } else { n };
    let cplx = |rng: &mut Rng, s: f64| C64::new(s * rng.r(-1.0, 1.0), if complex { s * rng.r(-1.0, 1.0) } else { 0.0 });
    let data = match rng.below(10) {
        0..=3 => Data::FullDegree,
        4 | 5 => Data::LowerDegree,
        6 => Data::Straddle,
        _ => Data::Arbitrary,
    };
    let (ys, ds, poly) = match data {
        Data::Arbitrary => {
            let ys: Vec<C64> = (0..n).map(|_| cplx(rng, scale)).collect();
            let ds: Vec<C64> = (0..n).map(|_| cplx(rng, scale)).collect();
            (ys, ds, None)
        }
        _ => {
            let mut p: Vec<C64> = (0..m).map(|_| cplx(rng, scale)).collect();
            match data {
                Data::LowerDegree => {
                    let deg = rng.below(m); // 0..m-1, strictly fewer coefficients when deg < m-1
                    for k in deg + 1..m {
                        p[k] = zc();
                    }
                }
                Data::Straddle => {
                    for k in 0..m {
                        match rng.below(4) {
                            0 => p[k] = zc(),
                            1 => {
                                let s = tol * rng.log10(-1.0, 1.0);
                                p[k] = cplx(rng, s)
                            }
                            _ => {}
                        }
                    }
                }
                _ => {}
            }
            let ys: Vec<C64> = xs.iter().map(|x| reference::polyval(&p, *x).0).collect();
            let ds: Vec<C64> = xs.iter().map(|x| reference::polyval(&p, *x).1).collect();
            (ys, ds, Some(p))
        }
    };
    Case { hermite, xs, ys, ds, tol, data, poly }
}

fn call<N: Fld>(c: &Case) -> Guarded<Result<Polynomial<N>, String>> {
    let xs: Vec<N> = c.xs.iter().map(|v| N::mk(*v)).collect();
    let ys: Vec<N> = c.ys.iter().map(|v| N::mk(*v)).collect();
    let ds: Vec<N> = c.ds.iter().map(|v| N::mk(*v)).collect();
    let (h, tol) = (c.hermite, c.tol);
    probe::guard(move || if h { hermite::<N>(&xs, &ys, &ds, tol) } else { lagrange::<N>(&xs, &ys, tol) })
}

struct Outcome<N: Fld> {
    p: Polynomial<N>,
    order: usize,
    coef: Vec<C64>,
}

fn run_lib<N: Fld>(rep: &mut Report, name: &str, c: &Case, what: &str) -> Option<Outcome<N>> {
    rep.eval();
    match call::<N>(c) {
        Guarded::Ok(Ok(p)) => {
            let order = p.order();
            let coef = (0..=order).map(|k| p.get_coefficient(k).c()).collect();
            Some(Outcome { p, order, coef })
        }
        Guarded::Ok(Err(e)) => {
            rep.violation(&format!("{}/valid-input-rejected", name), c.json::<N>().set("point_order", what), format!("{} distinct nodes, matching lengths: Err({})", c.xs.len(), e));
            None
        }
        Guarded::Panic(m, l) => {
            rep.violation(&format!("{}/panic", name), c.json::<N>().set("point_order", what), format!("panicked: '{}' at {}", m, l));
            None
        }
        Guarded::Budget => None,
    }
}

fn run_case<N: Fld>(rep: &mut Report, rng: &mut Rng, c: &Case, stage: &str) {
    let rname = if c.hermite { "hermite" } else { "lagrange" };
    let name = format!("{}/{}", rname, if N::COMPLEX { "complex" } else { "f64" });
    let n = c.xs.len();
    let m = if c.hermite { 2 * n } else { n };
    let kk = if c.hermite { KH } else { KL };
    let kn = if c.hermite { KHN } else { KLN };
    let tf = if N::COMPLEX { TF_COMPLEX } else { TF_REAL };
    rep.count(&format!("{}/cases", name), 1);
    rep.count(&format!("{}/cases_n{}", rname, n), 1);
    rep.count(&format!("{}/data_{:?}", rname, c.data), 1);
    let out = match run_lib::<N>(rep, rname, c, "as generated") {
        Some(o) => o,
        None => return,
    };
    let rf = match reference::analyse(&c.xs, c.hermite) {
        Some(r) => r,
        None => {
            rep.inconclusive("reference: Vandermonde matrix numerically singular in double-double");
            return;
        }
    };
    let kappa = rf.kappa;
    rep.max(&format!("{}/kappa", rname), kappa);
    rep.max("kappa_svd_over_kappa_frobenius", rf.kappa_svd / rf.kappa_frobenius);
    rep.min("kappa_svd_times_m_over_kappa_frobenius", rf.kappa_svd * m as f64 / rf.kappa_frobenius);
    if rf.kappa_svd != kappa {
        rep.count("kappa_svd_outside_exact_frobenius_bracket", 1);
    }
    rep.count(&format!("{}/kappa_decade_{:02}", rname, kappa.log10().floor().max(0.0) as i64), 1);
    // interleaved data vector in the row order of V
    let mut datav = vec![];
    for i in 0..n {
        datav.push(c.ys[i]);
        if c.hermite {
            datav.push(c.ds[i]);
        }
    }
    let datamax = datav.iter().fold(0.0f64, |a, b| a.max(b.norm()));
    // the exact interpolating polynomial of the f64 data handed to the library
    let cref: Vec<C64> = rf.solve(&datav);
    let crefmax = cref.iter().fold(0.0f64, |a, b| a.max(b.norm()));
    let case = || c.json::<N>().set("kappa", kappa).set("order", out.order).set("coefficients_ascending", cs_json(&out.coef, N::COMPLEX)).set("reference_coefficients_ascending", cs_json(&cref, N::COMPLEX));

    // 1. degree bound
    if out.order > m - 1 {
        rep.violation(&format!("{}/degree", rname), case(), format!("order() = {} exceeds the degree bound {} for {} nodes", out.order, m - 1, n));
        return;
    }
    // 2. coefficients
    let cunit = EPS * kappa * crefmax;
    let cbound = kk * cunit + tf * c.tol;
    // Observation used for attribution: the returned polynomial lacks leading terms which the exact interpolant
    // has with a magnitude clearly above the zeroing tolerance. Every failure seen in such a case is reported
    // under the one signature <routine>/leading-coefficient-missing.
    let dropped: Option<(usize, f64)> = (out.order + 1..m).rev().map(|k| (k, cref[k].norm())).find(|(_, a)| *a > 1.01 * tf * c.tol + 8.0 * cunit);
    let missing_sig = format!("{}/leading-coefficient-missing", rname);
    let sig = |base: &str| -> String {
        if dropped.is_some() {
            missing_sig.clone()
        } else {
            format!("{}/{}", rname, base)
        }
    };
    let missing_note = match dropped {
        Some((k, a)) => format!(" [order() = {} but the exact interpolant has |coefficient| {:e} at x^{}, zeroing tolerance {:e}: leading terms above the tolerance were dropped]", out.order, a, k, c.tol),
        None => String::new(),
    };
    if dropped.is_some() {
        rep.count(&format!("{}/cases_with_leading_terms_above_tol_dropped", rname), 1);
    }
    let mut missing_leading = false;
    let mut coef_bad: Option<(usize, f64)> = None;
    for k in 0..m {
        let got = out.coef.get(k).copied().unwrap_or(zc());
        let err = (got - cref[k]).norm();
        // rounding part of the error in units of eps kappa |cref|: what is left after the zeroing allowance
        let excess = nmax(err - tf * c.tol, 0.0);
        rep.max(&format!("{}/coef_err_over_eps_kappa_cmax", name), if excess == 0.0 { 0.0 } else { excess / cunit });
        if !(err <= cbound) {
            if k > out.order {
                missing_leading = true;
            }
            if coef_bad.is_none() {
                coef_bad = Some((k, err));
            }
        }
    }
    rep.count(&format!("{}/coefficient_vectors_compared", name), 1);
    if let Some((k, err)) = coef_bad {
        if missing_leading {
            let kmax = (0..m).rev().find(|k| cref[*k].norm() > cbound).unwrap_or(0);
            rep.violation(
                &format!("{}/leading-coefficient-missing", rname),
                case(),
                format!("order() = {} but the interpolating polynomial has a coefficient {:e} at x^{} (zeroing tolerance {:e}, bound {:e}): leading terms above the tolerance were dropped", out.order, cref[kmax].norm(), kmax, c.tol, cbound),
            );
            rep.count(&format!("{}/node_checks_skipped_after_missing_leading", rname), 1);
            return;
        }
        let got = out.coef.get(k).copied().unwrap_or(zc());
        rep.violation(
            &sig("coefficients"),
            case().set("power", k),
            format!("coefficient of x^{}: {:e}{:+e}i, interpolating polynomial has {:e}{:+e}i (|error| {:e} > {} eps kappa |c|_inf + {} tol = {:e}; kappa = {:e})", k, got.re, got.im, cref[k].re, cref[k].im, err, kk, tf, cbound, kappa),
        );
    }
    // 2b. uniqueness as stated: data sampled from a polynomial within the degree bound give that polynomial back
    if let Some(p) = &c.poly {
        let pmax = p.iter().fold(0.0f64, |a, b| a.max(b.norm()));
        let punit = EPS * kappa * pmax;
        let mut worst = 0.0f64;
        let mut wk = 0;
        let mut refdiff = 0.0f64;
        for k in 0..m {
            let got = out.coef.get(k).copied().unwrap_or(zc());
            let e = (got - p[k]).norm();
            if e > worst || e.is_nan() {
                worst = e;
                wk = k;
            }
            refdiff = refdiff.max((cref[k] - p[k]).norm());
        }
        // how far the rounding of the samples moves the exact interpolant away from the sampled polynomial
        rep.max(&format!("{}/sampling_shift_over_eps_kappa_cmax", rname), if refdiff == 0.0 { 0.0 } else { refdiff / punit });
        let ex = (worst - tf * c.tol).max(0.0);
        rep.max(&format!("{}/sampled_poly_err_over_eps_kappa_cmax", name), if ex == 0.0 { 0.0 } else { ex / punit });
        rep.count(&format!("{}/sampled_polynomials_compared", name), 1);
        if !(worst <= kk * punit + tf * c.tol) {
            let got = out.coef.get(wk).copied().unwrap_or(zc());
            rep.violation(
                &sig("sampled-polynomial-not-recovered"),
                case().set("power", wk),
                format!("data sampled from a polynomial of degree <= {}: coefficient of x^{} is {:e}{:+e}i, sampled polynomial has {:e}{:+e}i (|error| {:e} > {:e}; kappa = {:e}){}", m - 1, wk, got.re, got.im, p[wk].re, p[wk].im, worst, kk * punit + tf * c.tol, kappa, missing_note),
            );
        }
    }
    // 3. nodes, through the API
    for i in 0..n {
        let x = c.xs[i];
        let (v1, (v2, d)) = match probe::guard(|| (out.p.evaluate(N::mk(x)), out.p.evaluate_derivative(N::mk(x)))) {
            Guarded::Ok((a, (b, d))) => (a.c(), (b.c(), d.c())),
            Guarded::Panic(mm, l) => {
                rep.violation(&format!("{}/panic", rname), case(), format!("evaluation of the returned polynomial panicked: '{}' at {}", mm, l));
                return;
            }
            Guarded::Budget => return,
        };
        let ax = x.norm();
        let mut s0 = 0.0; // sum_k |x|^k
        let mut s1 = 0.0; // sum_k k |x|^(k-1)
        let mut pw = 1.0;
        for k in 0..m {
            s0 += pw;
            if k + 1 < m {
                s1 += (k + 1) as f64 * pw;
            }
            pw *= ax;
        }
        let vunit = EPS * kappa * datamax;
        let ev = (v1 - c.ys[i]).norm().max((v2 - c.ys[i]).norm());
        let exv = (ev - tf * c.tol * s0).max(0.0);
        rep.max(&format!("{}/node_value_err_over_eps_kappa_datamax", name), if exv == 0.0 { 0.0 } else { exv / vunit });
        rep.count(&format!("{}/node_values_checked", name), 1);
        if !(ev <= kn * vunit + tf * c.tol * s0) {
            rep.violation(
                &sig("node-value"),
                case().set("node", i),
                format!("p(x_{}) = {:e}{:+e}i (evaluate) / {:e}{:+e}i (evaluate_derivative), given value {:e}{:+e}i (|error| {:e} > {:e}; kappa = {:e}){}", i, v1.re, v1.im, v2.re, v2.im, c.ys[i].re, c.ys[i].im, ev, kn * vunit + tf * c.tol * s0, kappa, missing_note),
            );
            break;
        }
        if c.hermite {
            let ed = (d - c.ds[i]).norm();
            let exd = (ed - tf * c.tol * s1).max(0.0);
            rep.max(&format!("{}/node_derivative_err_over_eps_kappa_datamax", name), if exd == 0.0 { 0.0 } else { exd / vunit });
            rep.count(&format!("{}/node_derivatives_checked", name), 1);
            if !(ed <= kn * vunit + tf * c.tol * s1) {
                rep.violation(
                    &sig("node-derivative"),
                    case().set("node", i),
                    format!("p'(x_{}) = {:e}{:+e}i, given derivative {:e}{:+e}i (|error| {:e} > {:e}; kappa = {:e}){}", i, d.re, d.im, c.ds[i].re, c.ds[i].im, ed, kn * vunit + tf * c.tol * s1, kappa, missing_note),
                );
                break;
            }
        }
    }
    // 4. order of the points
    let mut permuted_runs = 0;
    if n >= 2 {
        let mut sorted: Vec<usize> = (0..n).collect();
        sorted.sort_by(|a, b| (c.xs[*a].re, c.xs[*a].im).partial_cmp(&(c.xs[*b].re, c.xs[*b].im)).unwrap());
        let mut reversed = sorted.clone();
        reversed.reverse();
        let mut shuffled: Vec<usize> = (0..n).collect();
        rng.shuffle(&mut shuffled);
        for (perm, what) in [(sorted, "sorted by abscissa"), (reversed, "sorted descending"), (shuffled, "shuffled")] {
            if perm.iter().enumerate().all(|(i, p)| i == *p) {
                continue;
            }
            let c2 = c.permuted(&perm);
            let o2 = match run_lib::<N>(rep, rname, &c2, what) {
                Some(o) => o,
                None => continue,
            };
            permuted_runs += 1;
            rep.count(&format!("{}/permuted_runs", name), 1);
            let mut worst = 0.0f64;
            let mut wk = 0;
            for k in 0..m.max(o2.order + 1) {
                let a = out.coef.get(k).copied().unwrap_or(zc());
                let b = o2.coef.get(k).copied().unwrap_or(zc());
                let e = (a - b).norm();
                if e > worst || e.is_nan() {
                    worst = e;
                    wk = k;
                }
            }
            let ex = (worst - PERM * tf * c.tol).max(0.0);
            rep.max(&format!("{}/permutation_diff_over_eps_kappa_cmax", name), if ex == 0.0 { 0.0 } else { ex / cunit });
            if !(worst <= PERM * cbound) || o2.order > m - 1 {
                rep.violation(
                    &sig("order-dependence"),
                    case().set("permutation", J::Arr(perm.iter().map(|p| J::from(*p)).collect::<Vec<_>>())).set("permuted_order", o2.order).set("permuted_coefficients_ascending", cs_json(&o2.coef, N::COMPLEX)),
                    format!("same points listed {}: coefficient of x^{} differs by {:e} > {:e} (order {} vs {}){}", what, wk, worst, PERM * cbound, out.order, o2.order, missing_note),
                );
                break;
            }
        }
    }
    if n >= 3 && permuted_runs > 0 {
        let mut h = CaseHash::new("c15").u(c.hermite as u64).u(N::COMPLEX as u64).f(c.tol);
        for i in 0..n {
            h = h.f(c.xs[i].re).f(c.xs[i].im).f(c.ys[i].re).f(c.ys[i].im).f(c.ds[i].re).f(c.ds[i].im);
        }
        rep.nontrivial(h.0);
        rep.count(&format!("{}/nontrivial", name), 1);
        if rep.wants_sample() && n <= 4 {
            rep.sample(case().set("stage", stage).set("permuted_runs", permuted_runs));
        }
    }
}

// ------------------------------------------------------------------ Err cases

fn err_case<N: Fld>(rep: &mut Report, rng: &mut Rng, idx: u64) {
    let rnd = |rng: &mut Rng, n: usize| -> Vec<C64> { (0..n).map(|_| C64::new(rng.r(-1.0, 1.0), if N::COMPLEX { rng.r(-1.0, 1.0) } else { 0.0 })).collect() };
    let a = rng.below(9);
    let xs = if a == 0 { vec![] } else { gen_nodes(rng, a.min(8), N::COMPLEX) };
    let a = xs.len();
    let mut b = rng.below(10);
    if b == a {
        b = a + 1;
    }
    let to_n = |v: &[C64]| -> Vec<N> { v.iter().map(|z| N::mk(*z)).collect() };
    let judge = |rep: &mut Report, sig: &str, what: String, g: Guarded<Result<Polynomial<N>, String>>, case: J| {
        rep.eval();
        rep.count(&format!("err/{}", sig), 1);
        match g {
            Guarded::Ok(Err(_)) => rep.count("err/returned_err", 1),
            Guarded::Ok(Ok(p)) => rep.violation(&format!("err/{}", sig), case, format!("{}: returned Ok (order {}), the property requires Err", what, p.order())),
            Guarded::Panic(m, l) => rep.violation(&format!("err/{}", sig), case, format!("{}: panicked ('{}' at {}), the property requires Err", what, m, l)),
            Guarded::Budget => {}
        }
    };
    let xn = to_n(&xs);
    if idx % 3 == 0 {
        let ys = rnd(rng, b);
        let yn = to_n(&ys);
        let case = J::obj().set("routine", "lagrange").set("field", N::NAME).set("xs", cs_json(&xs, N::COMPLEX)).set("ys", cs_json(&ys, N::COMPLEX)).set("tol", 1e-10);
        judge(rep, "lagrange-mismatched-lengths", format!("lagrange with {} abscissae and {} values", a, b), probe::guard(|| lagrange::<N>(&xn, &yn, 1e-10)), case);
    } else {
        // hermite: values mismatched, derivatives mismatched, or both
        let (ly, ld) = match idx % 3 {
            1 => (b, a),
            _ => {
                if rng.bool() {
                    (a, b)
                } else {
                    (b, rng.below(10))
                }
            }
        };
        let ys = rnd(rng, ly);
        let ds = rnd(rng, ld);
        let (yn, dn) = (to_n(&ys), to_n(&ds));
        let case = J::obj().set("routine", "hermite").set("field", N::NAME).set("xs", cs_json(&xs, N::COMPLEX)).set("ys", cs_json(&ys, N::COMPLEX)).set("derivs", cs_json(&ds, N::COMPLEX)).set("tol", 1e-10);
        judge(rep, "hermite-mismatched-lengths", format!("hermite with {} abscissae, {} values, {} derivatives", a, ly, ld), probe::guard(|| hermite::<N>(&xn, &yn, &dn, 1e-10)), case);
    }
}

// ------------------------------------------------------------------ interface

pub fn meta() -> CheckMeta {
    CheckMeta {
        id: "C15",
        level: "exploration",
        rule: "cases: lagrange / hermite x f64 / Complex<f64>, 1..8 nodes with pairwise separation >= 0.2 in [-2,2] (real) or the disc of radius 2 (complex; also equally spaced, Chebyshev, a node at exactly 0), data sampled from a polynomial of full admissible degree / of lower degree / with coefficients straddling the zeroing tolerance, or arbitrary; data scale 1e-3..1e3 (stage small-scale: 1e-11.5..1e-9.5 with tolerance <= 3e-13); tolerance 1e-14..1e-6; each case is run with its points as generated (random order), sorted, reversed and shuffled. A case is a distinct non-trivial case when it has >= 3 nodes and at least one re-ordered run was compared (hash of routine, field, nodes, data, tolerance); complex cases are counted separately".into(),
        assumptions: vec![
            format!("bounds: coefficients K eps kappa |c|_inf + TF tol with K = {} (Lagrange) / {} (Hermite); node values K' eps kappa max|data| + TF tol sum|x|^k (derivatives: sum k|x|^(k-1)) with K' = {} / {}; TF = {} (real) / {} (complex: leading coefficients are purged component-wise); kappa = 2-norm condition number of the (confluent) Vandermonde matrix; re-ordering: {} x the coefficient bound", KL, KH, KLN, KHN, TF_REAL, TF_COMPLEX, PERM),
            "reference coefficients: V^-1 data with V^-1 from a Gauss-Jordan inversion in double-double arithmetic (exact interpolant of the f64 data to ~1e-30 kappa); kappa from the nalgebra SVD, clamped into [kappa_F/m, kappa_F] with the Frobenius condition number kappa_F computed from that inverse".into(),
            "empty input (0 nodes, equal lengths) is outside the property (1..8 nodes) and only counted".into(),
        ],
        exhaustive: false,
        stuck_is_violation: true,
    }
}

fn dispatch(rep: &mut Report, rng: &mut Rng, i: u64, n: usize, scale: f64, tol: f64, stage: &str) {
    let hermite = i % 2 == 1;
    let complex = (i / 2) % 2 == 1;
    let c = gen_case(rng, hermite, complex, n, scale, tol);
    if complex {
        run_case::<C64>(rep, rng, &c, stage);
    } else {
        run_case::<f64>(rep, rng, &c, stage);
    }
}

pub fn stages(ctx: &Ctx) -> Vec<Stage> {
    let seed = ctx.seed;
    let tier = ctx.tier;
    let mut st = vec![];
    // anchors: every n = 1..8 x routine x field x 4 tolerances, fixed seed
    st.push(Stage::new("anchors", 8 * 4 * 4, move |i, rep| {
        let mut rng = Rng::for_case(777, "c15-anchor", i);
        let n = 1 + ((i / 4) % 8) as usize;
        let tol = [1e-14, 1e-11, 1e-8, 1e-6][(i / 32) as usize];
        dispatch(rep, &mut rng, i, n, 1.0, tol, "anchors");
    }));
    st.push(Stage::new("random", tier.pick(60_000, 2_000_000), move |i, rep| {
        let mut rng = Rng::for_case(seed, "c15-random", i);
        let n = 1 + rng.below(8);
        let scale = rng.log10(-3.0, 3.0);
        let tol = rng.log10(-14.0, -6.0);
        dispatch(rep, &mut rng, i, n, scale, tol, "random");
    }));
    // small data: the interpolant's coefficients lie between the zeroing tolerance and 1e-9
    st.push(Stage::new("small-scale", tier.pick(4_000, 16_000), move |i, rep| {
        let mut rng = Rng::for_case(seed, "c15-small", i);
        let n = 1 + rng.below(5);
        let scale = rng.log10(-11.5, -9.5);
        let tol = rng.log10(-14.0, -12.5);
        dispatch(rep, &mut rng, i, n, scale, tol, "small-scale");
    }));
    // huge data: values of 1e154 ... 1e156 (every quantity of the interpolation is representable, the square of a
    // value is not)
    st.push(Stage::new("huge-scale", tier.pick(4_000, 16_000), move |i, rep| {
        let mut rng = Rng::for_case(seed, "c15-huge", i);
        let n = 1 + rng.below(6);
        let scale = rng.log10(154.3, 156.0);
        let tol = rng.log10(-14.0, -6.0);
        rep.count("huge_scale_cases", 1);
        dispatch(rep, &mut rng, i, n, scale, tol, "huge-scale");
    }));
    st.push(Stage::new("errors", tier.pick(600, 6_000), move |i, rep| {
        let mut rng = Rng::for_case(seed, "c15-err", i);
        if (i / 3) % 2 == 1 {
            err_case::<C64>(rep, &mut rng, i);
        } else {
            err_case::<f64>(rep, &mut rng, i);
        }
    }));
    // outside the property: empty input. Observed and counted only.
    st.push(Stage::new("empty-input-observation", 1, move |_i, rep| {
        let e: Vec<f64> = vec![];
        let (e1, e2, e3) = (e.clone(), e.clone(), e.clone());
        let g = probe::guard(move || lagrange::<f64>(&e1, &e2, 1e-10).map(|p| p.order()));
        rep.count(&format!("outside-property/lagrange_empty_input_{}", match g { Guarded::Ok(Ok(_)) => "ok", Guarded::Ok(Err(_)) => "err", _ => "panics" }), 1);
        let e1 = e.clone();
        let g = probe::guard(move || hermite::<f64>(&e1, &e3, &e, 1e-10).map(|p| p.order()));
        rep.count(&format!("outside-property/hermite_empty_input_{}", match g { Guarded::Ok(Ok(_)) => "ok", Guarded::Ok(Err(_)) => "err", _ => "panics" }), 1);
    }));
    st
}

pub fn thresholds(ctx: &Ctx, rep: &Report) -> Vec<Threshold> {
    let mut t = vec![];
    t.push(Threshold { what: "cases with data of size 1e154 ... 1e156".into(), required: ctx.tier.pick(4_000.0, 16_000.0), observed: rep.counter("huge_scale_cases") as f64 });
    for r in ["lagrange", "hermite"] {
        for f in ["f64", "complex"] {
            let name = format!("{}/{}", r, f);
            t.push(Threshold { what: format!("{} cases", name), required: ctx.tier.pick(4_500.0, 45_000.0), observed: rep.counter(&format!("{}/cases", name)) as f64 });
            t.push(Threshold { what: format!("{} cases with >= 3 nodes and re-ordered runs", name), required: ctx.tier.pick(2_500.0, 25_000.0), observed: rep.counter(&format!("{}/nontrivial", name)) as f64 });
            t.push(Threshold { what: format!("{} re-ordered runs compared", name), required: ctx.tier.pick(7_500.0, 75_000.0), observed: rep.counter(&format!("{}/permuted_runs", name)) as f64 });
            t.push(Threshold { what: format!("{} node values checked", name), required: ctx.tier.pick(15_000.0, 150_000.0), observed: rep.counter(&format!("{}/node_values_checked", name)) as f64 });
        }
        for n in 1..=8 {
            t.push(Threshold { what: format!("{} cases with {} nodes", r, n), required: ctx.tier.pick(800.0, 8_000.0), observed: rep.counter(&format!("{}/cases_n{}", r, n)) as f64 });
        }
        for d in ["FullDegree", "LowerDegree", "Straddle", "Arbitrary"] {
            t.push(Threshold { what: format!("{} cases with {} data", r, d), required: ctx.tier.pick(500.0, 5_000.0), observed: rep.counter(&format!("{}/data_{}", r, d)) as f64 });
        }
        t.push(Threshold { what: format!("{}: well-conditioned cases (kappa < 100), where the bounds are tightest", r), required: ctx.tier.pick(1_000.0, 10_000.0), observed: (rep.counter(&format!("{}/kappa_decade_00", r)) + rep.counter(&format!("{}/kappa_decade_01", r))) as f64 });
    }
    t.push(Threshold { what: "lagrange mismatched-length cases".into(), required: ctx.tier.pick(200.0, 2_000.0), observed: rep.counter("err/lagrange-mismatched-lengths") as f64 });
    t.push(Threshold { what: "hermite mismatched-length cases".into(), required: ctx.tier.pick(400.0, 4_000.0), observed: rep.counter("err/hermite-mismatched-lengths") as f64 });
    t
}
