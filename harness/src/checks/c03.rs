//! C03 — each yielded IVP point is a step of the advertised numerical method.
//! Every consecutive pair of every path is validated against reference formulas transcribed from
//! the literature (refmodel/schemes.rs), using the *observed* step length, so the check is
//! independent of the step-size policy.

use crate::gen::ivp::*;
use crate::ivpdrv::*;
use crate::json::J;
use crate::refmodel::schemes::*;
use crate::report::*;
use crate::rng::{CaseHash, Rng};

const EPS: f64 = f64::EPSILON;
/// agreement with a one-step reference formula "to rounding": 1e-13 (1+|y|) plus the effect of the
/// rounding of the observed step length h = t_i - t_{i-1} (8 eps |t| |f|). Observed <= 1.5e-15.
const ONE_STEP_TOL: f64 = 1e-13;
/// PEC-vs-PECE slack of the Adams corrector value, in units of L h^2 tol: the implementation stores
/// f at the predictor, the reference evaluates f at the yielded points; with every accepted
/// estimate <= tol each stored derivative is off by <= L (270/19) tol h, which enters the corrector
/// through its history weights (sum 1.44 -> 20.4 units) and through the predictor (sum of AB
/// weights 6.67, times L h 251/720 -> 33 L h units). Frozen at about 1.5x that analysis.
const ADAMS_SLACK_UNITS: f64 = 30.0;
const ADAMS_SLACK_UNITS_LH: f64 = 50.0;
/// factor on L h in the Adams estimate bound tol (1 + k L h) (observed estimate <= 1.013 tol)
const ADAMS_EST_LH: f64 = 10.0;
/// BDF residual bound is (1 + beta h L) tol, deliberately with constant 1 (DESIGN.md C03)
const BDF_RES_UNITS: f64 = 1.0;
/// equal spacing of the history, relative
const EQ_SPACING: f64 = 1e-9;

pub fn meta() -> CheckMeta {
    CheckMeta {
        id: "C03",
        level: "exploration",
        rule: "cases: 7 solvers x G-generic non-linear non-autonomous right-hand sides (dim 1-4; also as complex systems of dimension 1-2 driven by a real problem of dimension 2n) and at-rest problems set in motion by a smoothly switched-on forcing x random configurations with tol <= 1e-6 and every builder call order; every point of every path is classified as (rk) one step of the published one-step scheme from the previous point with the observed step, or (ms) the multistep formula over the equally spaced preceding points; a point in neither class is a violation. A solve is non-trivial when at least one point was validated by each branch available to its solver; distinct = hash of (solver, problem, configuration)".into(),
        assumptions: vec![
            "one-step formulas must be reproduced to 1e-12 (1+|y|); Adams corrector values within 100 L h^2 tol + floor of the PECE reference (PEC/PECE difference); BDF residual within (1+beta h L) tol + floor".into(),
            "solves that end in an Err item are judged on their prefix (their failure is C05's statement)".into(),
        ],
        exhaustive: false,
        stuck_is_violation: false,
    }
}

fn floor(y: &[f64]) -> f64 {
    64.0 * EPS * (1.0 + norm2(y))
}

/// allowed distance from a one-step formula, and that distance in units of (1+|y|)
fn one_step_tol(rhs: &dyn Rhs<f64>, tp: f64, yp: &[f64], t: f64, y: &[f64]) -> f64 {
    let fnorm = norm2(&eval_f(rhs, tp, yp));
    let tm = t.abs().max(tp.abs());
    ONE_STEP_TOL * (1.0 + norm2(y)) + 8.0 * EPS * tm * fnorm + 16.0 * EPS * tm * (t - tp).abs() * rhs.t_lip()
}

#[derive(Default)]
struct Tally {
    rk: u64,
    ms: u64,
    both: u64,
    euler: u64,
}

pub fn judge(rep: &mut Report, solver: Solver, cfg: &Cfg, rhs: &dyn Rhs<f64>, lip: f64, y0: &[f64], out: &Outcome<f64>, case: &dyn Fn() -> J) -> Option<(u64, u64)> {
    let sname = solver.name();
    if let Some((m, l)) = &out.panic {
        rep.violation(&format!("{}/panic", sname), case(), format!("solver panicked: '{}' at {}", m, l));
        return None;
    }
    if out.build_err.is_some() {
        rep.violation(&format!("{}/valid-config-rejected", sname), case(), format!("{:?}", out.build_err));
        return None;
    }
    let mut pts: Vec<(f64, Vec<f64>)> = vec![];
    if solver != Solver::Euler {
        pts.push((cfg.t0, y0.to_vec()));
    }
    pts.extend(out.ok_points());
    let mut tally = Tally::default();
    let tol = cfg.tol;
    // First-trial decision (policy-free: the first trial step is (dt_min+dt_max)/2, clipped to the
    // interval). If the published scheme's estimate for that trial is clearly within tolerance
    // (<= 0.5 tol), the trial must have been accepted, which is observable through the time of the
    // first yielded point; if it clearly exceeds the tolerance it must have been rejected (the
    // latter is also covered by the per-point estimate check below).
    let ended_in_err_without_points = pts.len() < 2 && out.n_err() > 0 && !out.budget_hit;
    if (pts.len() >= 2 || ended_in_err_without_points) && (solver.is_rk() || solver.is_adams()) {
        let dt0 = cfg.dt0();
        let span = cfg.span();
        // NaN when the solve reported an error before yielding anything: then no trial was accepted
        let first_t = if pts.len() >= 2 { pts[1].0 } else { f64::NAN };
        if solver.is_rk() {
            let h = if cfg.t0 + dt0 >= cfg.t1 { span } else { dt0 };
            let (yr, er) = if solver == Solver::RK45 { rkf45_step(rhs, cfg.t0, y0, h) } else { bs23_step(rhs, cfg.t0, y0, h) };
            let expect_t = if cfg.t0 + dt0 >= cfg.t1 { cfg.t1 } else { cfg.t0 + h };
            let clear_accept = er + floor(&yr) / h <= 0.5 * tol;
            if clear_accept {
                rep.count(&format!("{}/first_trial_clearly_acceptable", sname), 1);
                if first_t != expect_t {
                    rep.violation(
                        &format!("{}/first-trial-step-within-tolerance-was-rejected", sname),
                        case(),
                        format!("the first trial step h={:e} has published-scheme estimate {:e} <= 0.5 tol ({:e}) but the first yielded time is {:.17e}, not {:.17e}", h, er, tol, first_t, expect_t),
                    );
                    return None;
                }
            } else if er - floor(&yr) / h > 2.0 * tol {
                rep.count(&format!("{}/first_trial_clearly_unacceptable", sname), 1);
            }
        } else {
            // Adams: RK4 start-up with dt0, then the first predictor-corrector step
            let k = solver.history();
            if cfg.t0 + dt0 * (k as f64 + 1.0) * 1.000001 < cfg.t1 {
                let mut hist: Vec<(f64, Vec<f64>)> = vec![(cfg.t0, y0.to_vec())];
                for j in 0..k - 1 {
                    let (tj, yj) = hist[0].clone();
                    let _ = j;
                    hist.insert(0, (tj + dt0, rk4_step(rhs, tj, &yj, dt0)));
                }
                // library start-up takes `history` RK4 steps (O-1), i.e. k points after t0
                let (tj, yj) = hist[0].clone();
                hist.insert(0, (tj + dt0, rk4_step(rhs, tj, &yj, dt0)));
                let (pred, corr) = adams_pc(rhs, &hist, dt0, k);
                let est = (19.0 / 270.0) * dist2(&corr, &pred) / dt0;
                if est + floor(&corr) / dt0 <= 0.5 * tol {
                    rep.count(&format!("{}/first_trial_clearly_acceptable", sname), 1);
                    if !((first_t - (cfg.t0 + dt0)).abs() <= 4.0 * EPS * cfg.t0.abs().max(first_t.abs())) {
                        rep.violation(
                            &format!("{}/first-trial-step-within-tolerance-was-rejected", sname),
                            case(),
                            format!("start-up with dt0={:e} followed by a predictor-corrector step whose estimate {:e} is <= 0.5 tol ({:e}), but the first yielded time is {:.17e}, not t0+dt0={:.17e}", dt0, est, tol, first_t, cfg.t0 + dt0),
                        );
                        return None;
                    }
                }
            }
        }
    }
    for i in 1..pts.len() {
        let (tp, yp) = (&pts[i - 1].0, &pts[i - 1].1);
        let (t, y) = (&pts[i].0, &pts[i].1);
        let h = *t - *tp;
        if !(h > 0.0) || y.len() != yp.len() || !y.iter().all(|v| v.is_finite()) {
            // ordering / dimension / finiteness are C01's statement
            rep.inconclusive("malformed-path(C01)");
            return None;
        }
        let fl = floor(y);
        match solver {
            Solver::Euler => {
                let yr = euler_step(rhs, *tp, yp, h);
                let d = dist2(y, &yr) / (1.0 + norm2(y));
                rep.max("Euler/one_step_dev", d);
                if !(dist2(y, &yr) <= one_step_tol(rhs, *tp, yp, *t, y)) {
                    rep.violation("Euler/not-an-euler-step", case(), format!("item {} at t={:e}: |y - (y_prev + h f)| = {:e} (1+|y|), h={:e}", i, t, d, h));
                    return None;
                }
                tally.euler += 1;
            }
            Solver::RK45 | Solver::RK23 => {
                let (yr, er) = if solver == Solver::RK45 { rkf45_step(rhs, *tp, yp, h) } else { bs23_step(rhs, *tp, yp, h) };
                let d = dist2(y, &yr) / (1.0 + norm2(y));
                rep.max(&format!("{}/one_step_dev", sname), d);
                if !(dist2(y, &yr) <= one_step_tol(rhs, *tp, yp, *t, y)) {
                    rep.violation(
                        &format!("{}/not-a-step-of-the-scheme", sname),
                        case(),
                        format!("point {} at t={:.6e}, h={:.3e}: distance from the published scheme's step is {:e} (1+|y|)", i, t, h, d),
                    );
                    return None;
                }
                let est_floor = rhs.estimate_floor(t.abs().max(tp.abs()), norm2(y)).unwrap_or(fl / h);
                let ratio = (er - est_floor).max(0.0) / tol;
                rep.max(&format!("{}/estimate_over_tol", sname), ratio);
                if !(ratio <= 1.0 + 1e-6) {
                    rep.violation(
                        &format!("{}/accepted-step-estimate-exceeds-tolerance", sname),
                        case(),
                        format!("point {} at t={:.6e}, h={:.3e}: embedded error estimate per unit step {:e} exceeds tol {:e} (ratio {:.4})", i, t, h, er, tol, ratio),
                    );
                    return None;
                }
                tally.rk += 1;
            }
            _ => {
                let hist_n = solver.history();
                // (a) RK4 starting / final step, to rounding
                let yr = rk4_step(rhs, *tp, yp, h);
                let d = dist2(y, &yr) / (1.0 + norm2(y));
                let a_ok = dist2(y, &yr) <= one_step_tol(rhs, *tp, yp, *t, y);
                if a_ok {
                    rep.max(&format!("{}/rk4_dev", sname), d);
                }
                // (b) multistep branch
                let mut ms_detail = String::from("history not equally spaced or too short");
                let mut ms_ok = false;
                if i >= hist_n {
                    let eq = (1..hist_n).all(|j| {
                        let hj = pts[i - j].0 - pts[i - j - 1].0;
                        (hj - h).abs() <= EQ_SPACING * h.abs() + 8.0 * EPS * t.abs()
                    });
                    if eq {
                        let hist: Vec<(f64, Vec<f64>)> = (1..=hist_n).map(|j| pts[i - j].clone()).collect();
                        if solver.is_adams() {
                            let (pred, corr) = adams_pc(rhs, &hist, h, hist_n);
                            let slack = (ADAMS_SLACK_UNITS + ADAMS_SLACK_UNITS_LH * lip * h) * lip * h * h * tol + fl;
                            let dev = dist2(y, &corr);
                            let est = (19.0 / 270.0) * dist2(&corr, &pred) / h;
                            let est_bound = tol * (1.0 + ADAMS_EST_LH * lip * h) + fl / h;
                            if dev <= slack {
                                if !a_ok {
                                    rep.max(&format!("{}/ms_dev_over_slack", sname), (dev - fl).max(0.0) / (slack - fl));
                                }
                                if !a_ok {
                                    rep.max(&format!("{}/ms_estimate_over_tol", sname), est / tol);
                                }
                                if !a_ok && !(est <= est_bound) {
                                    rep.violation(
                                        &format!("{}/accepted-step-estimate-exceeds-tolerance", sname),
                                        case(),
                                        format!("point {} at t={:.6e}, h={:.3e}: predictor-corrector estimate {:e} exceeds tol {:e} (bound {:e})", i, t, h, est, tol, est_bound),
                                    );
                                    return None;
                                }
                                ms_ok = true;
                            } else {
                                ms_detail = format!("corrector deviation {:e} > slack {:e}", dev, slack);
                            }
                        } else {
                            let k = hist_n;
                            let (beta, _) = bdf_coeffs(k);
                            let res = bdf_residual(rhs, k, *t, y, &hist, h);
                            let unit = (1.0 + beta * h * lip) * tol + fl;
                            if res <= BDF_RES_UNITS * unit {
                                if !a_ok {
                                    rep.max(&format!("{}/ms_residual_units", sname), res / unit);
                                }
                                ms_ok = true;
                            } else {
                                ms_detail = format!("BDF{} residual {:e} > {:e}", k, res, BDF_RES_UNITS * unit);
                            }
                        }
                    }
                }
                if ms_ok && a_ok {
                    // at small h an RK4 step and the multistep formula agree to rounding: the point is
                    // valid either way, but it does not show which formula produced it
                    tally.both += 1;
                } else if ms_ok {
                    tally.ms += 1;
                } else if a_ok {
                    tally.rk += 1;
                } else {
                    rep.violation(
                        &format!("{}/point-is-neither-rk4-nor-multistep", sname),
                        case(),
                        format!("point {} at t={:.6e}, h={:.3e}: distance from an RK4 step {:e} (1+|y|); multistep branch: {}", i, t, h, d, ms_detail),
                    );
                    return None;
                }
            }
        }
    }
    rep.count(&format!("{}/points_rk_branch", sname), (tally.rk + tally.euler) as i64);
    rep.count(&format!("{}/points_ms_branch", sname), tally.ms as i64);
    rep.count(&format!("{}/points_ambiguous_both", sname), tally.both as i64);
    Some((tally.rk + tally.euler, tally.ms))
}

fn run_case(rep: &mut Report, solver: Solver, prob: &GenericProblem, cfg: &Cfg, mode: DimMode) {
    let opts = Opts { budget: 3_000_000, max_items: 4_000, mode, order: ((cfg.t1.to_bits() >> 7) % 6) as u8, ..Default::default() };
    let out = solve_real(solver, cfg, &prob.y0, prob, &opts);
    rep.eval();
    rep.count(&format!("{}/solves", solver.name()), 1);
    let case = || J::obj().set("solver", solver.name()).set("mode", format!("{:?}", mode)).set("cfg", cfg.to_json()).set("problem", prob.to_json());
    if out.n_err() > 0 || out.budget_hit {
        rep.inconclusive("err-or-budget(C05)");
        rep.count(&format!("{}/err_solves", solver.name()), 1);
    }
    if let Some((rk, ms)) = judge(rep, solver, cfg, prob, prob.lip, &prob.y0, &out, &case) {
        let nt = if solver.is_multistep() { rk > 0 && ms > 0 } else { rk > 0 };
        if nt {
            let h = CaseHash::new("c03").u(solver.idx() as u64).fs(&prob.a).fs(&prob.b).fs(&prob.y0).f(cfg.t0).f(cfg.t1).f(cfg.dt_max).f(cfg.tol);
            rep.nontrivial(h.0);
            if rep.wants_sample() {
                rep.sample(case().set("points_rk_branch", rk).set("points_multistep_branch", ms).set("derivative_calls", out.calls));
            }
        }
    }
}

/// Complex-valued system whose real and imaginary parts are driven by a real G-generic problem of
/// dimension 2n: z_j' = f_j(t, Re z, Im z) + i f_{n+j}(t, Re z, Im z). The published schemes are
/// linear in the state, so a complex step equals the step of the real 2n-system and the complex
/// 2-norm equals the real one: the same oracle applies to the converted path.
struct ComplexGeneric<'a> {
    real: &'a GenericProblem,
}
impl<'a> Rhs<C64> for ComplexGeneric<'a> {
    fn dim(&self) -> usize {
        self.real.n / 2
    }
    fn eval(&self, t: f64, z: &[C64], out: &mut [C64]) {
        let n = z.len();
        let mut x = vec![0.0; 2 * n];
        for j in 0..n {
            x[j] = z[j].re;
            x[n + j] = z[j].im;
        }
        let mut f = vec![0.0; 2 * n];
        self.real.eval(t, &x, &mut f);
        for j in 0..n {
            out[j] = C64::new(f[j], f[n + j]);
        }
    }
}

fn run_complex_case(rep: &mut Report, solver: Solver, prob: &GenericProblem, cfg: &Cfg, mode: DimMode) {
    let n = prob.n / 2;
    let cp = ComplexGeneric { real: prob };
    let y0c: Vec<C64> = (0..n).map(|j| C64::new(prob.y0[j], prob.y0[n + j])).collect();
    let opts = Opts { budget: 3_000_000, max_items: 4_000, mode, order: ((cfg.t1.to_bits() >> 7) % 6) as u8, ..Default::default() };
    let oc = solve_complex(solver, cfg, &y0c, &cp, &opts);
    rep.eval();
    rep.count(&format!("{}/complex_solves", solver.name()), 1);
    let conv = |it: &Item<C64>| match it {
        Item::Ok(t, y) => Item::Ok(*t, y.iter().map(|c| c.re).chain(y.iter().map(|c| c.im)).collect::<Vec<f64>>()),
        Item::Err(e) => Item::Err(e.clone()),
    };
    let out = Outcome::<f64> {
        build_err: oc.build_err.clone(),
        items: oc.items.iter().map(conv).collect(),
        truncated: oc.truncated,
        panic: oc.panic.clone(),
        budget_hit: oc.budget_hit,
        calls: oc.calls,
        extra_some: oc.extra_some,
        extra_calls: oc.extra_calls,
        extra_items: vec![],
        dim_mismatch: oc.dim_mismatch,
        collect_after: None,
        euler_min_applied: oc.euler_min_applied,
    };
    let case = || J::obj().set("solver", solver.name()).set("field", "Complex<f64> (state = first n + i last n components of the real problem)").set("mode", format!("{:?}", mode)).set("cfg", cfg.to_json()).set("problem", prob.to_json());
    if out.n_err() > 0 || out.budget_hit {
        rep.inconclusive("err-or-budget(C05)");
        rep.count(&format!("{}/err_solves", solver.name()), 1);
    }
    rep.count(&format!("{}/solves", solver.name()), 1);
    if let Some((rk, ms)) = judge(rep, solver, cfg, prob, prob.lip, &prob.y0, &out, &case) {
        if rk + ms > 0 {
            rep.count(&format!("{}/complex_points_validated", solver.name()), (rk + ms) as i64);
            rep.nontrivial(CaseHash::new("c03-complex").u(solver.idx() as u64).fs(&prob.a).fs(&prob.b).f(cfg.t1).f(cfg.tol).0);
        }
    }
}

/// A solution at rest that is set in motion by a forcing switched on smoothly at t_s:
/// y' = -lambda (y - c) + A s((t - t_s)/w),  s(u) = exp(-1/u) for u > 0, 0 otherwise,  y(t0) = c.
/// While at rest every right-hand side value is zero at the old time but not at the new one, which
/// is where "the formula evaluated at the new time" differs from a formula evaluated at the old time
/// even when an implicit solve takes its "already converged" exit.
#[derive(Clone, Debug)]
struct SwitchOn {
    n: usize,
    lambda: Vec<f64>,
    c: Vec<f64>,
    amp: Vec<f64>,
    ts: f64,
    w: f64,
}
impl Rhs<f64> for SwitchOn {
    fn dim(&self) -> usize {
        self.n
    }
    fn eval(&self, t: f64, y: &[f64], out: &mut [f64]) {
        let u = (t - self.ts) / self.w;
        let s = if u > 0.0 { (-1.0 / u).exp() } else { 0.0 };
        for i in 0..self.n {
            out[i] = -self.lambda[i] * (y[i] - self.c[i]) + self.amp[i] * s;
        }
    }
}
impl SwitchOn {
    fn to_json(&self) -> J {
        J::obj().set("kind", "switch-on: y' = -lambda (y - c) + A s((t - ts)/w), s(u) = exp(-1/u) for u > 0 else 0, y(t0) = c").set("lambda", J::fs(&self.lambda)).set("c", J::fs(&self.c)).set("A", J::fs(&self.amp)).set("ts", self.ts).set("w", self.w)
    }
}

fn run_switch_case(rep: &mut Report, solver: Solver, rng: &mut Rng) {
    let n = 1 + rng.below(2);
    let p = SwitchOn {
        n,
        lambda: (0..n).map(|_| rng.r(0.2, 2.0)).collect(),
        c: (0..n).map(|_| rng.r(-1.0, 1.0)).collect(),
        amp: (0..n).map(|_| rng.r(0.5, 2.0) * rng.sign()).collect(),
        ts: rng.r(-0.5, 0.5),
        w: rng.r(0.3, 1.5),
    };
    let lip = p.lambda.iter().cloned().fold(0.0, f64::max).max(2.0 / p.w);
    let tol = rng.log10(-9.0, -6.0);
    let dt_max = if solver == Solver::Euler { 0.01 / lip } else { dtmax_for(solver, lip, tol, rng.r(0.6, 1.5)) };
    let t0 = p.ts - dt_max * rng.r(3.0, 30.0);
    let cfg = Cfg { t0, t1: p.ts + p.w * rng.r(1.0, 3.0), dt_min: dt_max * 1e-7, dt_max, tol };
    let mode = if rng.bool() { DimMode::Static } else { DimMode::Dynamic };
    let opts = Opts { budget: 3_000_000, max_items: 6_000, mode, order: ((cfg.t1.to_bits() >> 7) % 6) as u8, ..Default::default() };
    let y0 = p.c.clone();
    let out = solve_real(solver, &cfg, &y0, &p, &opts);
    rep.eval();
    rep.count(&format!("{}/solves", solver.name()), 1);
    rep.count(&format!("{}/switch_on_solves", solver.name()), 1);
    let case = || J::obj().set("solver", solver.name()).set("mode", format!("{:?}", mode)).set("cfg", cfg.to_json()).set("problem", p.to_json());
    if out.n_err() > 0 || out.budget_hit {
        rep.inconclusive("err-or-budget(C05)");
        rep.count(&format!("{}/err_solves", solver.name()), 1);
    }
    if let Some((rk, ms)) = judge(rep, solver, &cfg, &p, lip, &y0, &out, &case) {
        if rk + ms > 0 {
            rep.nontrivial(CaseHash::new("c03-switch").u(solver.idx() as u64).fs(&p.lambda).fs(&p.amp).f(cfg.t0).f(cfg.tol).0);
        }
    }
}

/// Boundary coincidence "estimate == tolerance": the tolerance is located, by bisection over f64 bit
/// patterns with the solver's own first accept/reject decision as the probe, between two adjacent
/// floats lo < hi such that the first trial step is rejected at lo and accepted at hi. A correct
/// implementation accepts iff estimate <= tol, so the estimate equals hi exactly; an implementation
/// whose two internal acceptance tests disagree at equality shifts the boundary by one ulp and
/// misbehaves at one of the two tolerances. Both are solved in full and judged by the C03 oracle.
/// Adjacent floats lo < hi such that the first trial step of `solver` on this problem is rejected
/// at tolerance lo and accepted at hi (observed through the time of the first yielded point).
pub fn locate_equal_tolerance(solver: Solver, rhs: &dyn Rhs<f64>, y0: &[f64], base: &Cfg) -> Result<(u64, u64, u64), &'static str> {
    let expect_first = base.t0 + base.dt0();
    let mut probes = 0u64;
    let mut accepted = |tol: f64| -> Option<bool> {
        let cfg = Cfg { tol, ..base.clone() };
        let out = solve_real(solver, &cfg, y0, rhs, &Opts { budget: 10_000, max_items: 1, mode: DimMode::Dynamic, ..Default::default() });
        probes += 1;
        match out.items.first() {
            Some(Item::Ok(t, _)) => Some(*t == expect_first),
            // the minimum-step error before any point: the first trial was certainly not accepted
            Some(Item::Err(_)) => Some(false),
            // iteration ended without any item (a one-step interval whose only step was not yielded):
            // not observed as accepted; whether that is legitimate is for the caller's oracle
            None if out.panic.is_none() && out.build_err.is_none() && !out.budget_hit => Some(false),
            _ => None,
        }
    };
    let (mut lo, mut hi) = (1e-200f64.to_bits(), 1.0f64.to_bits());
    if accepted(f64::from_bits(lo)) != Some(false) || accepted(f64::from_bits(hi)) != Some(true) {
        return Err("bracket_not_found");
    }
    while hi - lo > 1 {
        let mid = lo + (hi - lo) / 2;
        match accepted(f64::from_bits(mid)) {
            Some(true) => hi = mid,
            Some(false) => lo = mid,
            None => return Err("probe_error"),
        }
    }
    Ok((lo, hi, probes))
}

fn eq_tol_case(rep: &mut Report, solver: Solver, prob: &GenericProblem, rng: &mut Rng) {
    let tol_scale = rng.log10(-9.0, -5.0);
    let dt_max = dtmax_for(solver, prob.lip, tol_scale, 1.0) * rng.r(2.0, 6.0);
    let dt_min = dt_max * 1e-9;
    let t0 = rng.r(-1.0, 1.0);
    let base = Cfg { t0, t1: t0 + (dt_max + dt_min) * 0.5 * rng.r(3.0, 6.0), dt_min, dt_max, tol: 1.0 };
    let (lo, hi, probes) = match locate_equal_tolerance(solver, prob, &prob.y0, &base) {
        Ok(v) => v,
        Err(why) => {
            rep.count(&format!("eq_tol/{}", why), 1);
            return;
        }
    };
    rep.evals(probes);
    rep.count(&format!("{}/estimate_equals_tolerance_cases", solver.name()), 1);
    for bits in [lo, hi] {
        let cfg = Cfg { tol: f64::from_bits(bits), ..base.clone() };
        run_case(rep, solver, prob, &cfg, DimMode::Dynamic);
    }
}

/// G-generic plus a narrow forcing spike A sech^2((t - tc)/w) shortly before the end of the interval.
struct Spiked<'a> {
    base: &'a GenericProblem,
    amp: Vec<f64>,
    tc: f64,
    w: f64,
}
impl<'a> Rhs<f64> for Spiked<'a> {
    fn dim(&self) -> usize {
        self.base.n
    }
    fn eval(&self, t: f64, y: &[f64], out: &mut [f64]) {
        self.base.eval(t, y, out);
        let c = ((t - self.tc) / self.w).cosh();
        let s = 1.0 / (c * c);
        for i in 0..out.len() {
            out[i] += self.amp[i] * s;
        }
    }
    fn t_lip(&self) -> f64 {
        self.amp.iter().fold(0.0f64, |m, a| m.max(a.abs())) / self.w
    }
}

/// Nearly fixed step (dt_min = 0.3..1.0 dt_max), an interval that is not a multiple of the step, and
/// a right-hand side that turns rough inside the last, clipped step (shorter than dt_min): that
/// step must pass the error test like any other, or the solve must report the minimum-step error.
fn late_spike_case(rep: &mut Report, solver: Solver, prob: &GenericProblem, rng: &mut Rng) {
    let tol = rng.log10(-9.0, -6.0);
    let dt_max = if solver == Solver::Euler { 0.01 / prob.lip } else { dtmax_for(solver, prob.lip, tol, rng.r(0.7, 1.0)) };
    let dt_min = dt_max * rng.r(0.3, 1.0);
    let dt0 = (dt_max + dt_min) * 0.5;
    let t0 = rng.r(-1.0, 1.0);
    let rem = dt_min * rng.r(0.2, 0.9);
    let m = (3 + rng.below(12)) as f64;
    let t1 = t0 + m * dt0 + rem;
    let sp = Spiked { base: prob, amp: (0..prob.n).map(|_| rng.sign() * rng.log10(1.0, 4.0)).collect(), tc: t1 - rem * rng.r(0.2, 0.8), w: rem * rng.r(0.05, 0.4) };
    let cfg = Cfg { t0, t1, dt_min, dt_max, tol };
    let opts = Opts { budget: 3_000_000, max_items: 4_000, mode: DimMode::Dynamic, order: ((cfg.t1.to_bits() >> 7) % 6) as u8, ..Default::default() };
    let out = solve_real(solver, &cfg, &prob.y0, &sp, &opts);
    rep.eval();
    rep.count(&format!("{}/solves", solver.name()), 1);
    rep.count(&format!("{}/late_spike_solves", solver.name()), 1);
    let case = || J::obj().set("solver", solver.name()).set("cfg", cfg.to_json()).set("problem", prob.to_json()).set("spike", J::obj().set("A", J::fs(&sp.amp)).set("tc", sp.tc).set("w", sp.w).set("formula", "f_i += A_i sech^2((t - tc)/w)"));
    if out.n_err() > 0 || out.budget_hit {
        // a minimum-step error on this problem is the legitimate outcome; the yielded prefix is judged
        rep.count(&format!("{}/late_spike_solves_ending_in_err", solver.name()), 1);
    }
    if let Some((rk, ms)) = judge(rep, solver, &cfg, &sp, prob.lip, &prob.y0, &out, &case) {
        if rk + ms > 0 {
            rep.nontrivial(CaseHash::new("c03-spike").u(solver.idx() as u64).fs(&prob.a).f(cfg.t1).f(sp.tc).f(tol).0);
        }
    }
}

pub fn stages(ctx: &Ctx) -> Vec<Stage> {
    let seed = ctx.seed;
    let mut st = vec![];
    // anchors: fixed problems, all solvers
    st.push(Stage::new("anchors", 7 * 8, move |i, rep| {
        let solver = Solver::ALL[(i % 7) as usize];
        let k = i / 7;
        let mut rng = Rng::for_case(777, "c03-anchor", k);
        let prob = GenericProblem::gen(&mut rng, 1 + (k as usize) % 4);
        let tol = [1e-6, 1e-8, 1e-7, 1e-9][(k % 4) as usize];
        let dt_max = if solver == Solver::Euler { 0.01 } else { dtmax_for(solver, prob.lip, tol, 0.8) };
        let cfg = Cfg { t0: 0.25, t1: 0.25 + dt_max * 60.0, dt_min: dt_max * 1e-7, dt_max, tol };
        run_case(rep, solver, &prob, &cfg, if k % 2 == 0 { DimMode::Static } else { DimMode::Dynamic });
    }));
    let n = ctx.tier.pick(105_000, 2_100_000);
    st.push(Stage::new("random", n, move |i, rep| {
        let mut rng = Rng::for_case(seed, "c03-random", i);
        let solver = Solver::ALL[(i % 7) as usize];
        let n = 1 + rng.below(4);
        let prob = GenericProblem::gen(&mut rng, n);
        let mut cfg = gen_cfg(&mut rng, solver, prob.lip, (-10.0, -6.0), (0.3, 2.0));
        let p_big = if solver.is_multistep() { 0.7 } else { 0.25 };
        if rng.chance(p_big) {
            // a larger cap than the accuracy rule: the estimator, not the cap, limits the steps, so
            // multistep solvers stay in their multistep formula and RK solvers reject trials
            // (kept at L dt_max <= 1.5 for Adams; BDF stays near the accuracy rule: its quasi-Newton
            // solve with a finite-difference Jacobian of width dt is only meant for moderate h L)
            let f = if solver.is_adams() { rng.r(2.0, 12.0).min(1.5 / (prob.lip * cfg.dt_max)).max(1.0) } else if solver.is_bdf() { rng.r(1.0, 1.5) } else { rng.r(1.5, 4.0) };
            cfg.dt_max *= f;
            cfg.t1 = cfg.t0 + cfg.dt_max * rng.log10(0.3, 1.7);
        }
        if rng.chance(0.15) {
            cfg.dt_min = cfg.dt_max * rng.r(0.05, 0.4);
        }
        if solver.is_rk() && rng.chance(0.15) {
            // the interval is about one (far too large) trial step long: the clipped final step is
            // then a proposal the estimator must reject, not take untested
            cfg.dt_max *= rng.r(4.0, 20.0);
            cfg.dt_min = cfg.dt_max * 1e-7;
            cfg.t1 = cfg.t0 + cfg.dt0() * rng.r(0.3, 1.5);
            rep.count(&format!("{}/short_interval_large_trial_cases", solver.name()), 1);
        }
        if solver == Solver::Euler && (i / 7) % 12 == 5 {
            // Euler, one case in twelve: the interval straddles zero and is shorter than the step, so the one
            // and only step is the clipped one, end - start is inexact, and start + (end - start) may round
            // one ulp short of the end: whatever is yielded then must still be Euler steps of the observed lengths
            cfg.t0 = -rng.r(0.05, 2.0);
            cfg.t1 = rng.r(0.05, 2.0);
            cfg.dt_max = (cfg.t1 - cfg.t0) * rng.r(1.2, 5.0);
            cfg.dt_min = cfg.dt_max * 1e-7;
            rep.count("Euler/single_clipped_step_across_zero_cases", 1);
        }
        let mode = if rng.bool() { DimMode::Static } else { DimMode::Dynamic };
        run_case(rep, solver, &prob, &cfg, mode);
    }));
    // "end just past a step": the ending time lies a sliver beyond a time at which the solver would have
    // produced a point anyway; the clipped final step (far shorter than dt_min) is an ordinary step
    let nsl = ctx.tier.pick(3_500, 70_000);
    st.push(Stage::new("end-just-past-a-step", nsl, move |i, rep| {
        let mut rng = Rng::for_case(seed, "c03-sliver", i);
        let solver = Solver::ALL[(i % 7) as usize];
        let n = 1 + rng.below(3);
        let prob = GenericProblem::gen(&mut rng, n);
        let mut cfg = gen_cfg(&mut rng, solver, prob.lip, (-9.0, -6.0), (0.8, 1.5));
        if rng.bool() {
            cfg.dt_min = cfg.dt_max * rng.r(0.05, 0.5);
        }
        let probe = solve_real(solver, &cfg, &prob.y0, &prob, &Opts { budget: 2_000_000, max_items: 4_000, mode: DimMode::Dynamic, ..Default::default() });
        rep.eval();
        let pts = probe.ok_points();
        if pts.len() < 4 {
            return;
        }
        let k = 1 + rng.below(pts.len() - 2);
        let tk = pts[k].0;
        let t1 = tk + cfg.dt_max * rng.log10(-12.0, -3.0);
        if !(t1 > tk) {
            return;
        }
        let cfg2 = Cfg { t1, ..cfg.clone() };
        rep.count(&format!("{}/sliver_cases", solver.name()), 1);
        run_case(rep, solver, &prob, &cfg2, DimMode::Dynamic);
    }));
    let neq = ctx.tier.pick(200, 4_000);
    st.push(Stage::new("estimate-equals-tolerance", neq, move |i, rep| {
        let mut rng = if i < 20 { Rng::for_case(7117, "c03-eqtol-anchor", i) } else { Rng::for_case(seed, "c03-eqtol", i) };
        let solver = if i % 2 == 0 { Solver::RK45 } else { Solver::RK23 };
        let n = 1 + rng.below(3);
        let prob = GenericProblem::gen(&mut rng, n);
        eq_tol_case(rep, solver, &prob, &mut rng);
    }));
    let nsp = ctx.tier.pick(3_500, 70_000);
    st.push(Stage::new("late-spike", nsp, move |i, rep| {
        let mut rng = Rng::for_case(seed, "c03-spike", i);
        let solver = Solver::ALL[(i % 7) as usize];
        let n = 1 + rng.below(3);
        let prob = GenericProblem::gen(&mut rng, n);
        late_spike_case(rep, solver, &prob, &mut rng);
    }));
    let nc = ctx.tier.pick(7_000, 140_000);
    st.push(Stage::new("complex", nc, move |i, rep| {
        let mut rng = Rng::for_case(seed, "c03-complex", i);
        let solver = Solver::ALL[(i % 7) as usize];
        let n = 1 + rng.below(2);
        let prob = GenericProblem::gen(&mut rng, 2 * n);
        let mut cfg = gen_cfg(&mut rng, solver, prob.lip, (-10.0, -6.0), (0.3, 2.0));
        if rng.chance(0.4) {
            let f = if solver.is_adams() { rng.r(2.0, 12.0).min(1.5 / (prob.lip * cfg.dt_max)).max(1.0) } else if solver.is_bdf() { rng.r(1.0, 1.5) } else { rng.r(1.5, 4.0) };
            cfg.dt_max *= f;
            cfg.t1 = cfg.t0 + cfg.dt_max * rng.log10(0.3, 1.7);
        }
        let mode = if rng.bool() { DimMode::Static } else { DimMode::Dynamic };
        run_complex_case(rep, solver, &prob, &cfg, mode);
    }));
    // a state far larger than tolerance / machine epsilon: the embedded Runge-Kutta estimate is formed from
    // derivative values alone, so the tolerance test keeps its meaning however large the state is (the
    // right-hand side here depends on the state only through the bounded quotient term, so that the
    // rounding of the huge state does not reach the derivative values)
    let nof = ctx.tier.pick(6_000, 120_000);
    st.push(Stage::new("large-state-tight-tolerance", nof, move |i, rep| {
        let mut rng = Rng::for_case(seed, "c03-offset", i);
        let solver = if i % 2 == 0 { Solver::RK45 } else { Solver::RK23 };
        let n = 1 + rng.below(3);
        let mut prob = GenericProblem::gen(&mut rng, n);
        for b in prob.b.iter_mut() {
            *b = 0.0;
        }
        let mut cfg = gen_cfg(&mut rng, solver, prob.lip, (-10.0, -6.0), (0.3, 1.7));
        cfg.dt_max *= rng.r(1.5, 4.0);
        cfg.t1 = cfg.t0 + cfg.dt_max * rng.log10(0.3, 1.7);
        let size = cfg.tol / EPS * rng.log10(1.0, 3.0);
        let dir: Vec<f64> = (0..n).map(|_| rng.r(0.3, 1.0) * rng.sign()).collect();
        let dn = dir.iter().map(|v| v * v).sum::<f64>().sqrt();
        prob.y0 = dir.iter().map(|v| v / dn * size).collect();
        rep.count(&format!("{}/large_state_cases", solver.name()), 1);
        run_case(rep, solver, &prob, &cfg, if rng.bool() { DimMode::Static } else { DimMode::Dynamic });
    }));
    let nsw = ctx.tier.pick(3_500, 70_000);
    st.push(Stage::new("switch-on", nsw, move |i, rep| {
        let mut rng = if i < 70 { Rng::for_case(5150, "c03-switch-anchor", i) } else { Rng::for_case(seed, "c03-switch", i) };
        let solver = Solver::ALL[(i % 7) as usize];
        run_switch_case(rep, solver, &mut rng);
    }));
    st
}

pub fn thresholds(ctx: &Ctx, rep: &Report) -> Vec<Threshold> {
    let mut t = vec![];
    for s in Solver::ALL {
        t.push(Threshold { what: format!("{}: points of complex-valued solves validated", s.name()), required: ctx.tier.pick(1_000.0, 20_000.0), observed: rep.counter(&format!("{}/complex_points_validated", s.name())) as f64 });
        t.push(Threshold { what: format!("{}: switch-on solves", s.name()), required: ctx.tier.pick(300.0, 6_000.0), observed: rep.counter(&format!("{}/switch_on_solves", s.name())) as f64 });
    }
    for s in [Solver::Adams5, Solver::Adams3, Solver::BDF6, Solver::BDF2] {
        let rk = rep.counter(&format!("{}/points_rk_branch", s.name())) as f64;
        let ms = rep.counter(&format!("{}/points_ms_branch", s.name())) as f64;
        t.push(Threshold { what: format!("{}: share of points validated by the multistep branch only", s.name()), required: if s.is_adams() { 0.2 } else { 0.05 }, observed: ms / (rk + ms).max(1.0) });
        t.push(Threshold { what: format!("{}: points validated by the multistep branch", s.name()), required: ctx.tier.pick(500.0, 100_000.0), observed: ms });
        t.push(Threshold { what: format!("{}: points validated by the RK4 branch", s.name()), required: ctx.tier.pick(500.0, 100_000.0), observed: rk });
    }
    for s in [Solver::Euler, Solver::RK45, Solver::RK23] {
        t.push(Threshold { what: format!("{}: points validated", s.name()), required: ctx.tier.pick(2_000.0, 400_000.0), observed: rep.counter(&format!("{}/points_rk_branch", s.name())) as f64 });
    }
    for s in [Solver::RK45, Solver::RK23] {
        t.push(Threshold { what: format!("{}: tolerances located where the first trial's estimate equals the tolerance exactly", s.name()), required: ctx.tier.pick(60.0, 1_200.0), observed: rep.counter(&format!("{}/estimate_equals_tolerance_cases", s.name())) as f64 });
    }
    t.push(Threshold { what: "Euler: intervals across zero shorter than the step".into(), required: ctx.tier.pick(1_000.0, 20_000.0), observed: rep.counter("Euler/single_clipped_step_across_zero_cases") as f64 });
    for s in [Solver::RK45, Solver::RK23] {
        t.push(Threshold { what: format!("{}: solves with a state above 10 x tolerance / machine epsilon", s.name()), required: ctx.tier.pick(2_000.0, 40_000.0), observed: rep.counter(&format!("{}/large_state_cases", s.name())) as f64 });
    }
    for s in Solver::ALL {
        t.push(Threshold { what: format!("{}: late-spike solves (rough right-hand side inside the clipped final step)", s.name()), required: ctx.tier.pick(300.0, 6_000.0), observed: rep.counter(&format!("{}/late_spike_solves", s.name())) as f64 });
    }
    let solves: i64 = Solver::ALL.iter().map(|s| rep.counter(&format!("{}/solves", s.name()))).sum();
    let errs: i64 = Solver::ALL.iter().map(|s| rep.counter(&format!("{}/err_solves", s.name()))).sum();
    t.push(Threshold { what: "fraction of solves without Err item".into(), required: 0.9, observed: 1.0 - errs as f64 / solves.max(1) as f64 });
    t
}
