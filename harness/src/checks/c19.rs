//! C19 — finite-difference derivatives are exact on low-degree polynomials and obey the classical
//! remainder bounds.
//!
//! Oracles (all independent of the code under test):
//!  * Taylor expansion of the two stencils:
//!      D1 f(x) = f'(x)  - h^4 f^(5)(x)/30 - h^6 f^(7)(x)/252 - ...
//!      D2 f(x) = f''(x) + h^2 f^(4)(x)/12 + h^4 f^(6)(x)/360 + ...
//!    so for polynomials of degree <= 6 (first) / <= 5 (second) the returned value is known
//!    *exactly*: the derivative itself up to degree 4 / 3, the derivative plus the leading error
//!    term for the two degrees above. This pins every stencil weight and the divisor.
//!  * Linearity: D(a f + b g) = a D f + b D g up to rounding, for arbitrary f, g.
//!  * Classical remainder: |D1 f - f'| <= h^4 max|f^(5)|/30, |D2 f - f''| <= h^2 max|f^(4)|/12 over the
//!    stencil, for sums of sines and (complex) exponentials whose derivatives are known in closed form.
//! Every bound is `K * eps * (magnitude of the sampled function values) / h^m` wide: the sampled
//! values carry evaluation error, which the difference quotient amplifies by 1/h (1/h^2).

use crate::json::J;
use crate::probe::{self, Guarded};
use crate::report::*;
use crate::rng::{CaseHash, Rng};
use bacon_sci::differentiate::{derivative, second_derivative};
use num_complex::Complex;

type C = Complex<f64>;
const EPS: f64 = f64::EPSILON;

// ---- frozen constants (observed maxima are written to the evidence as `*/ratio` = error/(eps*scale)) ----
/// polynomial oracle, first derivative: |D1 p - exact| <= K_P1 * eps * ptilde(|x|+2h)/h.
/// Analysis: the four samples enter with weights (1+8+8+1)/12 = 1.5; a Horner evaluation of degree n
/// errs by at most ~2n eps ptilde (real; ~3.3n complex), the rounded abscissae x+-h, x+-2h add n eps
/// ptilde each: worst case ~45 eps ptilde/h for complex degree 6. Observed maximum 4.3 (seeds 1..8, both tiers; 1.3e8 thorough evaluations).
const K_P1: f64 = 64.0;
/// second derivative: weights (1+2+1) = 4: worst case ~90 eps ptilde/h^2. Observed maximum 6.7.
const K_P2: f64 = 128.0;
/// linearity: both sides are built from the same sampled values; observed maximum 3.3 / 7.1.
const K_LIN1: f64 = 32.0;
const K_LIN2: f64 = 64.0;
/// rounding part of the remainder oracle, in units of eps * F / h^m where F bounds
/// |f| * (1 + |argument of sin/exp|) over the stencil (libm is accurate to ~1 ulp, the argument
/// w t + phi is itself rounded). Observed maximum 0.89 / 1.5.
const K_S1: f64 = 16.0;
const K_S2: f64 = 32.0;

pub fn meta() -> CheckMeta {
    CheckMeta {
        id: "C19",
        level: "exploration",
        rule: "cases: (a) anchors — monomials x^d, d = 0..6, on a fixed grid of 8 points x 5 steps, both formulas, real and complex; (b) random real/complex polynomials of degree 0..6 (first) / 0..5 (second), |c_k| in 10^[-2,2] with zeros, x in [-3,3], h in 10^[-3,-0.3]: returned value against the exact derivative (degree <= 4 / <= 3) or derivative + leading error term (above); (c) linearity on pairs of random functions; (d) remainder bound on sums of sines / exponentials (complex: e^{(k+iw)x}). Non-trivial: polynomial cases of degree 4,5,6 (first) / 3,4,5 (second), and every case involving a transcendental function; distinct = distinct hash of (formula, field, function parameters, x, h); (e) stencil-zeros — polynomials in factored form around a dyadic x with dyadic h whose samples at 0-4 stencil points are exact zeros; (f) single precision — f32 and Complex<f32> instantiations, x including +0.0 and -0.0, h >= 1/32, allowance in units of eps32".into(),
        assumptions: vec![
            "well-scaled range: |x| <= 3, 1e-3 <= h <= 0.5, coefficient magnitudes 1e-2..1e2; rounding allowance K*eps*ptilde(|x|+2h)/h^m with ptilde = sum |c_k| r^k (the sampled polynomial's own evaluation error is part of it)".into(),
            "sin/exp of the platform libm are accurate to a few ulp".into(),
        ],
        exhaustive: false,
        stuck_is_violation: true,
    }
}

// ------------------------------------------------------------------ polynomials

#[derive(Clone, Debug)]
struct Poly {
    c: Vec<C>,
    complex: bool,
}

impl Poly {
    fn deg(&self) -> usize {
        self.c.len() - 1
    }
    fn eval_c(&self, x: f64) -> C {
        let mut acc = C::new(0.0, 0.0);
        for ck in self.c.iter().rev() {
            acc = acc * x + *ck;
        }
        acc
    }
    fn eval_r(&self, x: f64) -> f64 {
        let mut acc = 0.0;
        for ck in self.c.iter().rev() {
            acc = acc * x + ck.re;
        }
        acc
    }
    /// m-th derivative at x
    fn deriv(&self, m: usize, x: f64) -> C {
        let mut acc = C::new(0.0, 0.0);
        for j in (m..self.c.len()).rev() {
            let mut fall = 1.0;
            for t in 0..m {
                fall *= (j - t) as f64;
            }
            acc = acc * x + self.c[j] * fall;
        }
        acc
    }
    fn tilde(&self, r: f64) -> f64 {
        let mut acc = 0.0;
        for ck in self.c.iter().rev() {
            acc = acc * r + ck.norm();
        }
        acc
    }
    fn gen(rng: &mut Rng, deg: usize, complex: bool) -> Poly {
        let mut c = vec![];
        for k in 0..=deg {
            let zero = k != deg && rng.chance(0.2);
            let mag = if zero { 0.0 } else { rng.log10(-2.0, 2.0) };
            if complex {
                let th = rng.r(0.0, 2.0 * std::f64::consts::PI);
                c.push(C::new(mag * th.cos(), mag * th.sin()));
            } else {
                c.push(C::new(mag * rng.sign(), 0.0));
            }
        }
        Poly { c, complex }
    }
    fn to_json(&self) -> J {
        if self.complex {
            J::obj().set("coefficients_re_low_to_high", J::fs(&self.c.iter().map(|z| z.re).collect::<Vec<_>>())).set("coefficients_im_low_to_high", J::fs(&self.c.iter().map(|z| z.im).collect::<Vec<_>>()))
        } else {
            J::obj().set("coefficients_low_to_high", J::fs(&self.c.iter().map(|z| z.re).collect::<Vec<_>>()))
        }
    }
}

fn cj(z: C) -> J {
    J::fs(&[z.re, z.im])
}

#[derive(Clone, Copy, PartialEq)]
enum Formula {
    First,
    Second,
}
impl Formula {
    fn name(self) -> &'static str {
        match self {
            Formula::First => "derivative",
            Formula::Second => "second_derivative",
        }
    }
    fn order(self) -> usize {
        match self {
            Formula::First => 1,
            Formula::Second => 2,
        }
    }
    /// degree up to which the formula is exact
    fn exact_deg(self) -> usize {
        match self {
            Formula::First => 4,
            Formula::Second => 3,
        }
    }
}

/// run the library formula on a function given as complex closure; `complex == false` calls the
/// real instantiation with the real part
fn run_formula(which: Formula, complex: bool, f: &dyn Fn(f64) -> C, x: f64, h: f64) -> Guarded<C> {
    probe::guard(|| match (which, complex) {
        (Formula::First, true) => derivative(|t: f64| f(t), x, h),
        (Formula::Second, true) => second_derivative(|t: f64| f(t), x, h),
        (Formula::First, false) => C::new(derivative(|t: f64| f(t).re, x, h), 0.0),
        (Formula::Second, false) => C::new(second_derivative(|t: f64| f(t).re, x, h), 0.0),
    })
}

fn poly_case(rep: &mut Report, which: Formula, p: &Poly, x: f64, h: f64, stage: &str) {
    let complex = p.complex;
    let field = if complex { "complex" } else { "real" };
    let key = format!("{}/{}", which.name(), field);
    let f = |t: f64| if complex { p.eval_c(t) } else { C::new(p.eval_r(t), 0.0) };
    let got = run_formula(which, complex, &f, x, h);
    rep.eval();
    let deg = p.deg();
    rep.count(&format!("{}/poly_deg{}", key, deg), 1);
    let m = which.order();
    // exact value of the formula on this polynomial (Taylor expansion, terminates)
    let deriv = p.deriv(m, x);
    let lead = match which {
        Formula::First => -p.deriv(5, x) * (h.powi(4) / 30.0),
        Formula::Second => p.deriv(4, x) * (h * h / 12.0),
    };
    let exact = deriv + lead;
    let scale = EPS * p.tilde(x.abs() + 2.0 * h) / h.powi(m as i32);
    let kk = if m == 1 { K_P1 } else { K_P2 };
    let case = |got: Option<C>| {
        let mut j = J::obj().set("function", which.name()).set("field", field).set("polynomial", p.to_json()).set("degree", deg).set("x", x).set("h", h).set("exact_derivative", cj(deriv)).set("predicted_leading_error_term", cj(lead)).set("rounding_allowance", kk * scale);
        if let Some(g) = got {
            j.put("returned", cj(g));
        }
        j
    };
    let got = match got {
        Guarded::Ok(v) => v,
        Guarded::Panic(msg, loc) => {
            rep.violation(&format!("{}/panic", which.name()), case(None), format!("{} panicked: '{}' at {}", which.name(), msg, loc));
            return;
        }
        Guarded::Budget => return,
    };
    let err = (got - exact).norm();
    let ratio = err / scale;
    let above = deg > which.exact_deg();
    rep.max(&format!("{}/{}_ratio", key, if above { "leading_term" } else { "exactness" }), ratio);
    if !(err <= kk * scale) {
        let sig = if above { format!("{}/leading-error-term", which.name()) } else { format!("{}/not-exact-on-degree-{}", which.name(), deg) };
        rep.violation(
            &sig,
            case(Some(got)),
            format!("{} of a degree-{} {} polynomial at x={:e}, h={:e}: returned {:?}, exact value of the formula {:?} (derivative {:?} + leading term {:?}); difference {:e} = {:.1} x eps*ptilde/h^{} (allowed {})", which.name(), deg, field, x, h, got, exact, deriv, lead, err, ratio, m, kk),
        );
    }
    if above {
        // how strongly the predicted leading term stands out of the rounding allowance
        let signal = lead.norm() / (kk * scale);
        if signal > 100.0 {
            rep.count(&format!("{}/leading_term_resolved_100x", key), 1);
        }
    } else if deg == which.exact_deg() {
        // the top coefficient's contribution to the derivative, against the allowance: a formula that is
        // exact only to a lower degree would miss by this much
        rep.count(&format!("{}/at_exactness_degree", key), 1);
    }
    if deg >= which.exact_deg() {
        let mut hsh = CaseHash::new("c19-poly").s(stage).u(m as u64).u(complex as u64).f(x).f(h);
        for z in &p.c {
            hsh = hsh.f(z.re).f(z.im);
        }
        rep.nontrivial(hsh.0);
        if rep.wants_sample() {
            rep.sample(case(Some(got)).set("error_over_eps_ptilde_over_h^m", ratio));
        }
    }
}

// ------------------------------------------------------------------ polynomials with exact zeros on the stencil

/// Polynomials in factored form around the evaluation point, q(u) = c * prod_{s in S} (u - s h) * prod_j (u - r_j),
/// u = t - x, with dyadic x and h: the samples at the stencil points x + s h, s in S, are then EXACT
/// zeros (not merely small). The exactness statement does not care where the polynomial vanishes, but
/// an implementation that normalises by sampled values, or takes shortcuts on zero samples, does.
/// The oracle is the expanded polynomial in u, evaluated at u = 0.
fn stencil_zero_case(rep: &mut Report, which: Formula, rng: &mut Rng, complex: bool) {
    let field = if complex { "complex" } else { "real" };
    let key = format!("{}/{}", which.name(), field);
    let x = (rng.below(97) as f64 - 48.0) / 16.0;
    let h = 0.5f64.powi(1 + rng.below(9) as i32);
    let deg = 1 + rng.below(which.exact_deg());
    // which stencil offsets are zeros: the first derivative samples -2,-1,1,2, the second -1,0,1
    let offsets: &[f64] = if which == Formula::First { &[-2.0, -1.0, 1.0, 2.0, 0.0] } else { &[-1.0, 0.0, 1.0, 2.0, -2.0] };
    let mut roots: Vec<f64> = vec![];
    let mut pool: Vec<f64> = offsets.to_vec();
    // symmetric pairs first in half of the cases (both inner samples zero, or both outer)
    if deg >= 2 && rng.bool() {
        let a = if rng.bool() { 1.0 } else { 2.0 };
        roots.push(a * h);
        roots.push(-a * h);
        pool.retain(|v| v.abs() != a);
    }
    while roots.len() < deg {
        if !pool.is_empty() && rng.chance(0.7) {
            let k = rng.below(pool.len());
            roots.push(pool.remove(k) * h);
        } else {
            // a root off the stencil (dyadic too)
            roots.push((rng.below(65) as f64 - 32.0) / 8.0 + 0.0625);
        }
    }
    let c0 = if complex { C::from_polar(rng.log10(-2.0, 2.0), rng.r(0.0, 6.28)) } else { C::new(rng.sign() * rng.log10(-2.0, 2.0), 0.0) };
    // expanded coefficients in u
    let mut c = vec![c0];
    for r in &roots {
        let mut n = vec![C::new(0.0, 0.0); c.len() + 1];
        for (k, ck) in c.iter().enumerate() {
            n[k + 1] += *ck;
            n[k] -= *ck * *r;
        }
        c = n;
    }
    let pu = Poly { c, complex };
    let rts = roots.clone();
    let f = move |t: f64| {
        let u = t - x;
        let mut v = c0;
        for r in &rts {
            v *= u - *r;
        }
        if complex {
            v
        } else {
            C::new(v.re, 0.0)
        }
    };
    let zeros_on_stencil = roots.iter().filter(|r| (**r / h).abs() <= 2.0 && (**r / h).fract() == 0.0).count();
    let got = run_formula(which, complex, &f, x, h);
    rep.eval();
    rep.count(&format!("{}/stencil_zero_cases", key), 1);
    rep.count(&format!("{}/stencil_zero_cases_with_{}_zero_samples", key, zeros_on_stencil.min(4)), 1);
    let m = which.order();
    let exact = pu.deriv(m, 0.0);
    let scale = EPS * pu.tilde(2.0 * h) / h.powi(m as i32);
    let kk = if m == 1 { K_P1 } else { K_P2 };
    let case = |got: Option<C>| {
        let mut j = J::obj()
            .set("function", which.name())
            .set("field", field)
            .set("form", "f(t) = c * prod_k ((t - x) - root_k)")
            .set("c", cj(c0))
            .set("roots_in_u", J::fs(&roots))
            .set("roots_over_h", J::fs(&roots.iter().map(|r| r / h).collect::<Vec<_>>()))
            .set("degree", deg)
            .set("x", x)
            .set("h", h)
            .set("exact_derivative", cj(exact))
            .set("rounding_allowance", kk * scale);
        if let Some(g) = got {
            j.put("returned", cj(g));
        }
        j
    };
    let got = match got {
        Guarded::Ok(v) => v,
        Guarded::Panic(msg, loc) => {
            rep.violation(&format!("{}/panic", which.name()), case(None), format!("{} panicked: '{}' at {}", which.name(), msg, loc));
            return;
        }
        Guarded::Budget => return,
    };
    let err = (got - exact).norm();
    rep.max(&format!("{}/stencil_zero_ratio", key), err / scale);
    if !(err <= kk * scale) {
        rep.violation(
            &format!("{}/not-exact-on-degree-{}", which.name(), deg),
            case(Some(got)),
            format!("{} of a degree-{} {} polynomial with {} exactly zero sample(s) on the stencil, x={:e}, h={:e}: returned {:?}, exact {:?}; difference {:e} (allowed {:e})", which.name(), deg, field, zeros_on_stencil, x, h, got, exact, err, kk * scale),
        );
    }
    if zeros_on_stencil >= 2 {
        let mut hsh = CaseHash::new("c19-stencil").u(m as u64).u(complex as u64).f(x).f(h).f(c0.re).f(c0.im);
        for r in &roots {
            hsh = hsh.f(*r);
        }
        rep.nontrivial(hsh.0);
    }
}

// ------------------------------------------------------------------ single precision

type C32 = Complex<f32>;
const EPS32: f64 = f32::EPSILON as f64;

/// The formulas are generic over the real field: the same exactness holds in f32 with eps = 2^-23
/// (polynomial evaluated in f32 by the closure, as a user would). The point x = 0 and dyadic points
/// are part of the workload; steps stay >= 1/32 so that eps32/h^2 leaves a meaningful bound.
fn f32_case(rep: &mut Report, which: Formula, rng: &mut Rng, complex: bool) {
    let field = if complex { "complex_f32" } else { "real_f32" };
    let key = format!("{}/{}", which.name(), field);
    let deg = rng.below(which.exact_deg() + 1);
    let mut p = Poly::gen(rng, deg, complex);
    // the zero function (every sample exactly 0): its derivatives are 0, not NaN
    let zero_function = rng.chance(0.04);
    if zero_function {
        for c in p.c.iter_mut() {
            *c = C::new(0.0, 0.0);
        }
    }
    let x = match rng.below(6) {
        0 => 0.0f32,
        1 => -0.0f32,
        2 => *rng.pick(&[-3.0f32, -1.0, 1.0, 3.0, 0.5, -0.25]),
        _ => rng.r(-3.0, 3.0) as f32,
    };
    let h = if rng.bool() { 0.5f32.powi(1 + rng.below(5) as i32) } else { rng.log10(-1.5, -0.30103) as f32 };
    // round 11: a third of the cases with a step that is small against |x| (h/|x| down to 1e-3/3: a step
    // "widened to what the precision resolves" for the abscissae but not for the divisor shows only there);
    // dyadic steps 2^-6 ... 2^-9 and log-uniform 1e-3 ... 0.03
    let h = match rng.below(6) {
        0 => 0.5f32.powi(6 + rng.below(4) as i32),
        1 => rng.log10(-3.0, -1.5) as f32,
        _ => h,
    };
    if (h as f64) < 0.03 {
        rep.count(&format!("{}/f32_cases_with_step_below_0.03", key), 1);
    }
    let c32: Vec<C32> = p.c.iter().map(|z| C32::new(z.re as f32, z.im as f32)).collect();
    // the polynomial actually sampled has the f32-rounded coefficients: the oracle uses those
    let p32 = Poly { c: c32.iter().map(|z| C::new(z.re as f64, z.im as f64)).collect(), complex };
    let m = which.order();
    let got: Guarded<C> = probe::guard(|| {
        let fc = |t: f32| {
            let mut acc = C32::new(0.0, 0.0);
            for ck in c32.iter().rev() {
                acc = acc * t + *ck;
            }
            acc
        };
        let fr = |t: f32| {
            let mut acc = 0.0f32;
            for ck in c32.iter().rev() {
                acc = acc * t + ck.re;
            }
            acc
        };
        match (which, complex) {
            (Formula::First, true) => {
                let v: C32 = derivative(fc, x, h);
                C::new(v.re as f64, v.im as f64)
            }
            (Formula::Second, true) => {
                let v: C32 = second_derivative(fc, x, h);
                C::new(v.re as f64, v.im as f64)
            }
            (Formula::First, false) => C::new(derivative(fr, x, h) as f64, 0.0),
            (Formula::Second, false) => C::new(second_derivative(fr, x, h) as f64, 0.0),
        }
    });
    rep.eval();
    rep.count(&format!("{}/f32_cases", key), 1);
    if zero_function {
        rep.count(&format!("{}/f32_cases_zero_function", key), 1);
    }
    if x == 0.0 {
        rep.count(&format!("{}/f32_cases_at_zero", key), 1);
    }
    let (xd, hd) = (x as f64, h as f64);
    let exact = p32.deriv(m, xd);
    let scale = (EPS32 * p32.tilde(xd.abs() + 2.0 * hd) / hd.powi(m as i32)).max(f64::MIN_POSITIVE);
    let kk = if m == 1 { K_P1 } else { K_P2 };
    let case = |got: Option<C>| {
        let mut j = J::obj().set("function", which.name()).set("field", field).set("polynomial(f32 coefficients)", p32.to_json()).set("degree", deg).set("x", xd).set("x_is_negative_zero", x == 0.0 && x.is_sign_negative()).set("h", hd).set("exact_derivative", cj(exact)).set("rounding_allowance", kk * scale);
        if let Some(g) = got {
            j.put("returned", cj(g));
        }
        j
    };
    let got = match got {
        Guarded::Ok(v) => v,
        Guarded::Panic(msg, loc) => {
            rep.violation(&format!("{}/panic", which.name()), case(None), format!("{} panicked: '{}' at {}", which.name(), msg, loc));
            return;
        }
        Guarded::Budget => return,
    };
    let err = (got - exact).norm();
    rep.max(&format!("{}/f32_ratio", key), err / scale);
    if !(err <= kk * scale) {
        rep.violation(
            &format!("{}/not-exact-on-degree-{}", which.name(), deg),
            case(Some(got)),
            format!("{} in single precision of a degree-{} polynomial at x={:e}, h={:e}: returned {:?}, exact {:?}; difference {:e} (allowed {:e} = {} eps32 ptilde/h^{})", which.name(), deg, xd, hd, got, exact, err, kk * scale, kk, m),
        );
    }
    if deg >= 2 {
        let mut hsh = CaseHash::new("c19-f32").u(m as u64).u(complex as u64).f(xd).f(hd);
        for z in &p32.c {
            hsh = hsh.f(z.re).f(z.im);
        }
        rep.nontrivial(hsh.0);
    }
}

// ------------------------------------------------------------------ process history

/// Child process of the stage `process-order`: the formulas are generic functions, and anything they
/// keep in a `static` is shared by ALL their instantiations for the life of the process. The first
/// call in a process therefore must not decide what later calls of another precision compute. The
/// battery: monomial-type polynomials on a fixed grid, in single precision first and then in double
/// (`f32-first`), or the other way round (`f64-first`). Prints the worst error in units of
/// eps*ptilde/h^m per precision; the parent applies the frozen constants.
pub fn order_probe(order: &str) {
    // f64::max ignores a NaN operand: a NaN result must count as an infinite error
    let acc = |w: f64, v: f64| if v.is_nan() { f64::INFINITY } else { w.max(v) };
    let grid_x = [-1.5, 0.0, 0.25, 1.0, 2.0];
    let grid_h = [0.0625, 0.125, 0.25];
    let coef: [f64; 5] = [0.75, -1.5, 0.5, 2.0, -0.25];
    let run64 = || -> (f64, f64) {
        let (mut w1, mut w2) = (0.0f64, 0.0f64);
        let p = Poly { c: coef.iter().map(|c| C::new(*c, 0.0)).collect(), complex: false };
        let p3 = Poly { c: coef[..4].iter().map(|c| C::new(*c, 0.0)).collect(), complex: false };
        for x in grid_x {
            for h in grid_h {
                let d1 = derivative(|t: f64| p.eval_r(t), x, h);
                let d2 = second_derivative(|t: f64| p3.eval_r(t), x, h);
                w1 = acc(w1, (d1 - p.deriv(1, x).re).abs() / (EPS * p.tilde(x.abs() + 2.0 * h) / h));
                w2 = acc(w2, (d2 - p3.deriv(2, x).re).abs() / (EPS * p3.tilde(x.abs() + 2.0 * h) / (h * h)));
                let pc = Poly { c: coef.iter().map(|c| C::new(*c, 0.5 * *c)).collect(), complex: true };
                let dc = derivative(|t: f64| pc.eval_c(t), x, h);
                w1 = acc(w1, (dc - pc.deriv(1, x)).norm() / (EPS * pc.tilde(x.abs() + 2.0 * h) / h));
            }
        }
        (w1, w2)
    };
    let run32 = || -> (f64, f64) {
        let (mut w1, mut w2) = (0.0f64, 0.0f64);
        let c32: Vec<f32> = coef.iter().map(|c| *c as f32).collect();
        let p = Poly { c: c32.iter().map(|c| C::new(*c as f64, 0.0)).collect(), complex: false };
        let p3 = Poly { c: c32[..4].iter().map(|c| C::new(*c as f64, 0.0)).collect(), complex: false };
        let ev = |c: &[f32], t: f32| c.iter().rev().fold(0.0f32, |a, ck| a * t + ck);
        for x in grid_x {
            for h in grid_h {
                let (xf, hf) = (x as f32, h as f32);
                let d1 = derivative(|t: f32| ev(&c32, t), xf, hf) as f64;
                let d2 = second_derivative(|t: f32| ev(&c32[..4], t), xf, hf) as f64;
                w1 = acc(w1, (d1 - p.deriv(1, x).re).abs() / (EPS32 * p.tilde(x.abs() + 2.0 * h) / h));
                w2 = acc(w2, (d2 - p3.deriv(2, x).re).abs() / (EPS32 * p3.tilde(x.abs() + 2.0 * h) / (h * h)));
            }
        }
        (w1, w2)
    };
    let (a, b) = match order {
        "f32-first" => {
            let s = run32();
            let d = run64();
            (d, s)
        }
        "f64-first" => {
            let d = run64();
            let s = run32();
            (d, s)
        }
        _ => {
            println!("PROBE-ERROR unknown order");
            std::process::exit(3);
        }
    };
    println!("PROBE order={} f64_first_derivative={:e} f64_second_derivative={:e} f32_first_derivative={:e} f32_second_derivative={:e}", order, a.0, a.1, b.0, b.1);
}

fn process_order_case(rep: &mut Report, order: &str) {
    rep.eval();
    let exe = match std::env::current_exe() {
        Ok(e) => e,
        Err(e) => {
            rep.inconclusive("process-order: current_exe unavailable");
            let _ = e;
            return;
        }
    };
    let out = std::process::Command::new(exe).args(["probe", "C19", order]).output();
    let text = match out {
        Ok(o) if o.status.success() => String::from_utf8_lossy(&o.stdout).to_string(),
        _ => {
            rep.inconclusive("process-order: child process failed");
            return;
        }
    };
    let line = text.lines().find(|l| l.starts_with("PROBE order=")).unwrap_or("").to_string();
    let get = |key: &str| -> Option<f64> { line.split_whitespace().find_map(|t| t.strip_prefix(&format!("{}=", key)).and_then(|v| v.parse::<f64>().ok())) };
    rep.count(&format!("process_order/{}", order), 1);
    for (key, k) in [("f64_first_derivative", K_P1), ("f64_second_derivative", K_P2), ("f32_first_derivative", K_P1), ("f32_second_derivative", K_P2)] {
        match get(key) {
            Some(v) => {
                rep.max(&format!("process_order/{}/{}_ratio", order, key), v);
                if !(v <= k) {
                    rep.violation(
                        &format!("process-order/{}", key),
                        J::obj().set("order_of_the_calls_in_a_fresh_process", order).set("battery", "fixed degree-4 / degree-3 polynomials, x in {-1.5, 0, 0.25, 1, 2}, h in {1/16, 1/8, 1/4}").set("child_output", line.as_str()),
                        format!("in a fresh process that makes its calls in the order {}, the worst error of {} is {:e} x eps*ptilde/h^m (allowed {}): the result of a call depends on which numeric type called first", order, key, v, k),
                    );
                }
            }
            None => rep.inconclusive("process-order: child output not understood"),
        }
    }
    rep.nontrivial(CaseHash::new("c19-process-order").s(order).0);
}

// ------------------------------------------------------------------ transcendental family

#[derive(Clone, Debug)]
enum Term {
    /// a sin(w t + p)
    Sin { a: C, w: f64, p: f64 },
    /// a exp((k + i w) t)   (w = 0 for the real family)
    Exp { a: C, k: f64, w: f64 },
}

#[derive(Clone, Debug)]
struct Smooth {
    terms: Vec<Term>,
    complex: bool,
}

impl Smooth {
    fn gen(rng: &mut Rng, complex: bool) -> Smooth {
        let n = 1 + rng.below(3);
        let mut terms = vec![];
        for _ in 0..n {
            let mag = rng.log10(-1.0, 1.0);
            let a = if complex {
                let th = rng.r(0.0, 2.0 * std::f64::consts::PI);
                C::new(mag * th.cos(), mag * th.sin())
            } else {
                C::new(mag * rng.sign(), 0.0)
            };
            if rng.bool() {
                terms.push(Term::Sin { a, w: rng.log10(-0.7, 0.9), p: rng.r(-3.0, 3.0) });
            } else {
                let k = rng.r(-2.0, 2.0);
                let w = if complex { rng.r(-6.0, 6.0) } else { 0.0 };
                terms.push(Term::Exp { a, k, w });
            }
        }
        Smooth { terms, complex }
    }
    fn eval(&self, t: f64) -> C {
        let mut s = C::new(0.0, 0.0);
        for term in &self.terms {
            s += match term {
                Term::Sin { a, w, p } => *a * (w * t + p).sin(),
                Term::Exp { a, k, w } => {
                    if *w == 0.0 {
                        *a * (k * t).exp()
                    } else {
                        *a * (k * t).exp() * C::new((w * t).cos(), (w * t).sin())
                    }
                }
            };
        }
        if self.complex {
            s
        } else {
            C::new(s.re, 0.0)
        }
    }
    /// m-th derivative at t (closed form)
    fn deriv(&self, m: usize, t: f64) -> C {
        let mut s = C::new(0.0, 0.0);
        for term in &self.terms {
            s += match term {
                Term::Sin { a, w, p } => *a * (w.powi(m as i32) * (w * t + p + m as f64 * std::f64::consts::FRAC_PI_2).sin()),
                Term::Exp { a, k, w } => {
                    let kappa = C::new(*k, *w);
                    *a * kappa.powu(m as u32) * (k * t).exp() * C::new((w * t).cos(), (w * t).sin())
                }
            };
        }
        s
    }
    /// bound of |f^(m)| over [lo, hi]
    fn bound(&self, m: usize, lo: f64, hi: f64) -> f64 {
        let mut s = 0.0;
        for term in &self.terms {
            s += match term {
                Term::Sin { a, w, .. } => a.norm() * w.powi(m as i32),
                Term::Exp { a, k, w } => a.norm() * (k * k + w * w).sqrt().powi(m as i32) * (k * lo).exp().max((k * hi).exp()),
            };
        }
        s
    }
    /// magnitude of the sampled values including the conditioning of the sin/exp arguments
    fn rounding_scale(&self, lo: f64, hi: f64) -> f64 {
        let tm = lo.abs().max(hi.abs());
        let mut s = 0.0;
        for term in &self.terms {
            s += match term {
                Term::Sin { a, w, p } => a.norm() * (2.0 + w * tm + p.abs()),
                Term::Exp { a, k, w } => a.norm() * (k * lo).exp().max((k * hi).exp()) * (2.0 + (k.abs() + w.abs()) * tm),
            };
        }
        s
    }
    fn to_json(&self) -> J {
        J::Arr(
            self.terms
                .iter()
                .map(|t| match t {
                    Term::Sin { a, w, p } => J::obj().set("kind", "a*sin(w*t+p)").set("a", cj(*a)).set("w", *w).set("p", *p),
                    Term::Exp { a, k, w } => J::obj().set("kind", "a*exp((k+i*w)*t)").set("a", cj(*a)).set("k", *k).set("w", *w),
                })
                .collect(),
        )
    }
    fn hash(&self, mut h: CaseHash) -> CaseHash {
        for t in &self.terms {
            h = match t {
                Term::Sin { a, w, p } => h.u(1).f(a.re).f(a.im).f(*w).f(*p),
                Term::Exp { a, k, w } => h.u(2).f(a.re).f(a.im).f(*k).f(*w),
            };
        }
        h
    }
}

fn smooth_case(rep: &mut Report, which: Formula, f: &Smooth, x: f64, h: f64) {
    let complex = f.complex;
    let field = if complex { "complex" } else { "real" };
    let key = format!("{}/{}", which.name(), field);
    let fun = |t: f64| f.eval(t);
    let got = run_formula(which, complex, &fun, x, h);
    rep.eval();
    rep.count(&format!("{}/smooth_cases", key), 1);
    let m = which.order();
    let (lo, hi) = if m == 1 { (x - 2.0 * h, x + 2.0 * h) } else { (x - h, x + h) };
    let truth = f.deriv(m, x);
    let truth = if complex { truth } else { C::new(truth.re, 0.0) };
    let (trunc, ks) = match which {
        Formula::First => (h.powi(4) * f.bound(5, lo, hi) / 30.0, K_S1),
        Formula::Second => (h * h * f.bound(4, lo, hi) / 12.0, K_S2),
    };
    let round_unit = EPS * f.rounding_scale(lo, hi) / h.powi(m as i32);
    let case = |got: Option<C>| {
        let mut j = J::obj().set("function", which.name()).set("field", field).set("terms", f.to_json()).set("x", x).set("h", h).set("true_derivative", cj(truth)).set("remainder_bound", trunc).set("rounding_allowance", ks * round_unit);
        if let Some(g) = got {
            j.put("returned", cj(g));
        }
        j
    };
    let got = match got {
        Guarded::Ok(v) => v,
        Guarded::Panic(msg, loc) => {
            rep.violation(&format!("{}/panic", which.name()), case(None), format!("{} panicked: '{}' at {}", which.name(), msg, loc));
            return;
        }
        Guarded::Budget => return,
    };
    let err = (got - truth).norm();
    // the monitored quantity: how much of the rounding allowance is needed on top of the remainder bound
    let excess = (err - trunc) / round_unit;
    rep.max(&format!("{}/remainder_excess_ratio", key), excess);
    if trunc > 1e3 * ks * round_unit {
        // truncation-dominated cases show how sharp the classical bound is (<= 1 by the theorem)
        rep.max(&format!("{}/error_over_remainder_bound", key), err / trunc);
        rep.count(&format!("{}/truncation_dominated", key), 1);
    }
    if !(err <= trunc + ks * round_unit) {
        rep.violation(
            &format!("{}/remainder-bound", which.name()),
            case(Some(got)),
            format!("{} ({}) at x={:e}, h={:e}: |returned - true| = {:e} exceeds the classical remainder bound {:e} + rounding {:e}", which.name(), field, x, h, err, trunc, ks * round_unit),
        );
    }
    rep.nontrivial(f.hash(CaseHash::new("c19-smooth").u(m as u64).u(complex as u64).f(x).f(h)).0);
    if rep.wants_sample() {
        rep.sample(case(Some(got)).set("error", err));
    }
}

/// f = a*u + b*v must give a*D(u) + b*D(v)
fn linearity_case(rep: &mut Report, which: Formula, rng: &mut Rng, complex: bool, x: f64, h: f64) {
    let field = if complex { "complex" } else { "real" };
    let key = format!("{}/{}", which.name(), field);
    let u = Smooth::gen(rng, complex);
    let deg = rng.below(9);
    let v = Poly::gen(rng, deg, complex);
    let coef = |rng: &mut Rng| {
        let mag = rng.log10(-1.0, 1.0);
        if complex {
            let th = rng.r(0.0, 6.283185307179586);
            C::new(mag * th.cos(), mag * th.sin())
        } else {
            C::new(mag * rng.sign(), 0.0)
        }
    };
    let a = coef(rng);
    let b = coef(rng);
    let fu = |t: f64| u.eval(t);
    let fv = |t: f64| if complex { v.eval_c(t) } else { C::new(v.eval_r(t), 0.0) };
    let fw = |t: f64| a * fu(t) + b * fv(t);
    let du = run_formula(which, complex, &fu, x, h);
    let dv = run_formula(which, complex, &fv, x, h);
    let dw = run_formula(which, complex, &fw, x, h);
    rep.evals(3);
    rep.count(&format!("{}/linearity_cases", key), 1);
    let m = which.order();
    let case = || J::obj().set("function", which.name()).set("field", field).set("u_terms", u.to_json()).set("v_polynomial", v.to_json()).set("a", cj(a)).set("b", cj(b)).set("x", x).set("h", h).set("claim", "D(a*u + b*v) = a*D(u) + b*D(v)");
    let (du, dv, dw) = match (du, dv, dw) {
        (Guarded::Ok(p), Guarded::Ok(q), Guarded::Ok(r)) => (p, q, r),
        _ => {
            rep.violation(&format!("{}/panic", which.name()), case(), format!("{} panicked on a smooth function", which.name()));
            return;
        }
    };
    // magnitude of the sampled values on the stencil
    let pts: Vec<f64> = if m == 1 { vec![x - 2.0 * h, x - h, x + h, x + 2.0 * h] } else { vec![x - h, x, x + h] };
    let s = pts.iter().map(|t| a.norm() * fu(*t).norm() + b.norm() * fv(*t).norm()).fold(0.0, f64::max);
    let unit = EPS * s / h.powi(m as i32);
    let kk = if m == 1 { K_LIN1 } else { K_LIN2 };
    let err = (dw - (a * du + b * dv)).norm();
    rep.max(&format!("{}/linearity_ratio", key), err / unit);
    if !(err <= kk * unit) {
        rep.violation(
            &format!("{}/linearity", which.name()),
            case().set("D_u", cj(du)).set("D_v", cj(dv)).set("D_combination", cj(dw)),
            format!("{} ({}): D(a u + b v) = {:?} but a D(u) + b D(v) = {:?}; difference {:e} = {:.1} x eps*max|values|/h^{} (allowed {})", which.name(), field, dw, a * du + b * dv, err, err / unit, m, kk),
        );
    }
    let mut hh = u.hash(CaseHash::new("c19-lin").u(m as u64).u(complex as u64).f(x).f(h)).f(a.re).f(a.im).f(b.re).f(b.im);
    for z in &v.c {
        hh = hh.f(z.re).f(z.im);
    }
    rep.nontrivial(hh.0);
}

fn gen_xh(rng: &mut Rng) -> (f64, f64) {
    let x = match rng.below(10) {
        0 => 0.0,
        1 => *rng.pick(&[-3.0, -1.0, 1.0, 3.0, 0.5, -0.25]),
        _ => rng.r(-3.0, 3.0),
    };
    let h = if rng.chance(0.15) { *rng.pick(&[1e-3, 0.01, 0.1, 0.125, 0.25, 0.5]) } else { rng.log10(-3.0, -0.30103) };
    if rng.chance(0.04) {
        // x a hair off a multiple of h: one stencil abscissa is then tiny (down to 1e-16 h) but not zero,
        // and it is that abscissa, not 0, at which the function has to be sampled
        let m = *rng.pick(&[1.0, 2.0, -1.0, -2.0]);
        let delta = rng.sign() * rng.log10(-16.0, -7.0);
        return (m * h * (1.0 + delta), h);
    }
    (x, h)
}

const ANCHOR_X: [f64; 8] = [-3.0, -1.0, -0.5, 0.0, 0.25, 1.0, 2.0, 3.0];
const ANCHOR_H: [f64; 5] = [1e-3, 1e-2, 0.1, 0.25, 0.5];

pub fn stages(ctx: &Ctx) -> Vec<Stage> {
    let seed = ctx.seed;
    let tier = ctx.tier;
    let mut st = vec![];
    // anchors: monomials, seed independent: 7 degrees x 8 points x 5 steps x 2 formulas x 2 fields
    st.push(Stage::new("anchors", 7 * 8 * 5 * 2 * 2, move |i, rep| {
        let d = (i % 7) as usize;
        let xi = ((i / 7) % 8) as usize;
        let hi = ((i / 56) % 5) as usize;
        let which = if (i / 280) % 2 == 0 { Formula::First } else { Formula::Second };
        let complex = (i / 560) % 2 == 1;
        let mut c = vec![C::new(0.0, 0.0); d + 1];
        // i^d as coefficient in the complex runs: real, imaginary, negative, ... leading coefficients
        c[d] = if complex { C::new(0.0, 1.0).powu(d as u32) } else { C::new(1.0, 0.0) };
        let p = Poly { c, complex };
        if which == Formula::Second && d > 5 {
            // degree 6 has a second, h^4 f^(6)/360, term: outside the two-term oracle
            rep.count("anchors_skipped_degree6_second", 1);
            return;
        }
        poly_case(rep, which, &p, ANCHOR_X[xi], ANCHOR_H[hi], "anchors");
    }));
    let n_poly = tier.pick(160_000u64, 4_000_000u64);
    for (name, which) in [("poly-first", Formula::First), ("poly-second", Formula::Second)] {
        st.push(Stage::new(name, n_poly, move |i, rep| {
            let mut rng = Rng::for_case(seed, name, i);
            let complex = i % 2 == 1;
            let maxdeg = which.exact_deg() + 2;
            // degrees at and just above the exactness degree get half of the cases
            let deg = if rng.bool() { which.exact_deg() + rng.below(3) } else { rng.below(maxdeg + 1) };
            let mut p = Poly::gen(&mut rng, deg, complex);
            if rng.chance(0.1) {
                // the formulas are linear in the function: a polynomial of size 1e-250 or 1e+250 is
                // differentiated as exactly (relative to its size) as one of size 1
                let e = rng.sign() * rng.r(100.0, 250.0);
                let sc = 10f64.powf(e);
                for c in p.c.iter_mut() {
                    *c *= sc;
                }
                rep.count(&format!("{}/{}/scaled_by_1e+-100..250", which.name(), if complex { "complex" } else { "real" }), 1);
            }
            let (x, h) = gen_xh(&mut rng);
            poly_case(rep, which, &p, x, h, name);
        }));
    }
    st.push(Stage::new("process-order", 2, move |i, rep| {
        process_order_case(rep, if i == 0 { "f32-first" } else { "f64-first" });
    }));
    let n_sz = tier.pick(40_000u64, 1_000_000u64);
    st.push(Stage::new("stencil-zeros", n_sz, move |i, rep| {
        let mut rng = Rng::for_case(seed, "c19-stencil-zeros", i);
        let which = if i % 2 == 0 { Formula::First } else { Formula::Second };
        stencil_zero_case(rep, which, &mut rng, (i / 2) % 2 == 1);
    }));
    let n_f32 = tier.pick(40_000u64, 1_000_000u64);
    st.push(Stage::new("single-precision", n_f32, move |i, rep| {
        let mut rng = Rng::for_case(seed, "c19-f32", i);
        let which = if i % 2 == 0 { Formula::First } else { Formula::Second };
        f32_case(rep, which, &mut rng, (i / 2) % 2 == 1);
    }));
    let n_lin = tier.pick(80_000u64, 2_000_000u64);
    st.push(Stage::new("linearity", n_lin, move |i, rep| {
        let mut rng = Rng::for_case(seed, "c19-linearity", i);
        let which = if i % 2 == 0 { Formula::First } else { Formula::Second };
        let complex = (i / 2) % 2 == 1;
        let (x, h) = gen_xh(&mut rng);
        linearity_case(rep, which, &mut rng, complex, x, h);
    }));
    let n_smooth = tier.pick(100_000u64, 2_500_000u64);
    st.push(Stage::new("smooth", n_smooth, move |i, rep| {
        let mut rng = Rng::for_case(seed, "c19-smooth", i);
        let which = if i % 2 == 0 { Formula::First } else { Formula::Second };
        let complex = (i / 2) % 2 == 1;
        let f = Smooth::gen(&mut rng, complex);
        let (x, h) = gen_xh(&mut rng);
        smooth_case(rep, which, &f, x, h);
    }));
    st
}

pub fn thresholds(ctx: &Ctx, rep: &Report) -> Vec<Threshold> {
    let mut t = vec![];
    for order in ["f32-first", "f64-first"] {
        t.push(Threshold { what: format!("fresh process making its calls in the order {}", order), required: 1.0, observed: rep.counter(&format!("process_order/{}", order)) as f64 });
    }
    let big = ctx.tier.pick(1.0, 200.0);
    for which in [Formula::First, Formula::Second] {
        for field in ["real", "complex"] {
            let key = format!("{}/{}", which.name(), field);
            for d in 0..=(which.exact_deg() + 2) {
                t.push(Threshold { what: format!("{} polynomial cases of degree {}", key, d), required: 300.0 * big, observed: rep.counter(&format!("{}/poly_deg{}", key, d)) as f64 });
            }
            t.push(Threshold {
                what: format!("{}: cases above the exactness degree whose predicted leading error term exceeds 100 x the rounding allowance (the term is resolved, not hidden in the allowance)", key),
                required: 500.0 * big,
                observed: rep.counter(&format!("{}/leading_term_resolved_100x", key)) as f64,
            });
            t.push(Threshold { what: format!("{} cases with >= 2 exactly zero samples on the stencil", key), required: ctx.tier.pick(2_000.0, 50_000.0), observed: (2..=4).map(|k| rep.counter(&format!("{}/stencil_zero_cases_with_{}_zero_samples", key, k))).sum::<i64>() as f64 });
            t.push(Threshold { what: format!("{} single-precision cases with a step below 0.03", key), required: ctx.tier.pick(1_500.0, 40_000.0), observed: rep.counter(&format!("{}_f32/f32_cases_with_step_below_0.03", key)) as f64 });
            t.push(Threshold { what: format!("{} single-precision cases at x = +-0", key), required: ctx.tier.pick(1_000.0, 25_000.0), observed: rep.counter(&format!("{}_f32/f32_cases_at_zero", key)) as f64 });
            t.push(Threshold { what: format!("{} polynomial cases scaled by 1e+-100..250", key), required: ctx.tier.pick(2_000.0, 50_000.0), observed: rep.counter(&format!("{}/scaled_by_1e+-100..250", key)) as f64 });
            t.push(Threshold { what: format!("{} linearity cases", key), required: 1_500.0 * big, observed: rep.counter(&format!("{}/linearity_cases", key)) as f64 });
            t.push(Threshold { what: format!("{} remainder-bound cases", key), required: 2_000.0 * big, observed: rep.counter(&format!("{}/smooth_cases", key)) as f64 });
            t.push(Threshold { what: format!("{} remainder-bound cases dominated by truncation (bound > 1000 x rounding allowance)", key), required: 500.0 * big, observed: rep.counter(&format!("{}/truncation_dominated", key)) as f64 });
        }
    }
    t
}
